import DcVerif.Lemmas.RingMultiLiveInv
import DcVerif.Lemmas.RingMultiSerial
/-!
# Liveness of the pipeline with the multi-producer sequencer (`Model/RingMulti.lean`)

With two or more writer threads termination is false in general (findings F7/F8/F11/F13: a sequence stranded by out-of-order
or overlapping publication stalls later `write` calls in `has_capacity` for ever and `drain` loses events). What is true,
and proved here for every ring size `2^k`, every topology and both wait strategies:

* **one writer thread** (`Phase` case 1): every fair schedule drives the pipeline to the state in which the writer has
  returned from all `write` calls, `drain` has returned and every handler thread has exited;
* **any number of writers, all of them done, nothing stranded** (`cursor = high watermark`; `Phase` case 2): every fair
  schedule of the draining thread and the handlers terminates — the conditional form that isolates the defect in the
  release protocol.

This file: the measure, the liveness invariant `LJ`, readiness and ranks of the writer and the draining thread and their
own-step lemmas (shared by both strategies). `RingMultiLiveS.lean` instantiates `Fair.fair_termination` for the spin
strategy, `RingMultiLiveB.lean` instantiates `Fair.fair_termination_sf` for the blocking strategy.
-/
namespace RingMulti
open Ring

/-! ## sums over the writer threads -/

theorem sumTo_congr (n : Nat) (f g : Nat → Nat) (h : ∀ a, a < n → f a = g a) : sumTo n f = sumTo n g :=
  Nat.le_antisymm (sumTo_le n f g (fun a ha => Nat.le_of_eq (h a ha)))
    (sumTo_le n g f (fun a ha => Nat.le_of_eq (h a ha).symm))

/-- exchanging one summand against an outside quantity -/
theorem sumTo_exchange (n : Nat) (f g : Nat → Nat) (i : Nat) (hi : i < n) (hoth : ∀ a, a < n → a ≠ i → f a = g a)
    (c d : Nat) (h : c + f i = d + g i) : c + sumTo n f = d + sumTo n g := by
  induction n with
  | zero => omega
  | succ n ih =>
    simp only [sumTo]
    by_cases hin : i = n
    · subst hin
      have := sumTo_congr i f g (fun a ha => hoth a (by omega) (by omega))
      omega
    · have := ih (by omega) (fun a ha hne => hoth a (by omega) hne)
      have := hoth n (by omega) (fun e => hin e.symm)
      omega

theorem sumTo_upd_le (n : Nat) (f g : Nat → Nat) (i : Nat) (hoth : ∀ a, a < n → a ≠ i → f a = g a)
    (h : f i ≤ g i) : sumTo n f ≤ sumTo n g := by
  apply sumTo_le
  intro a ha
  by_cases he : a = i
  · subst he; exact h
  · exact Nat.le_of_eq (hoth a ha he)

theorem sumTo_upd_lt (n : Nat) (f g : Nat → Nat) (i : Nat) (hi : i < n) (hoth : ∀ a, a < n → a ≠ i → f a = g a)
    (h : f i < g i) : sumTo n f < sumTo n g := by
  apply sumTo_lt n f g _ i hi h
  intro a ha
  by_cases he : a = i
  · subst he; exact Nat.le_of_lt h
  · exact Nat.le_of_eq (hoth a ha he)

/-! ## the final value of the cursor, the remaining-work measure -/

/-- program counters inside `next` (a batch has been taken from the list and is not claimed yet) -/
def WPc.claiming : WPc → Bool
  | .readHw | .capLoad | .capCheck | .casHw => true
  | _ => false

/-- events a writer still has to claim -/
def rem (w : Writer) : Nat := (if w.pc.claiming then w.count else 0) + w.todo.sum

/-- the value the high watermark will have when every writer has claimed all its batches (constant along every run) -/
def finM (x : MSt) : Nat := x.hw + sumTo x.P (fun i => rem (x.wr i))

theorem hw_rem_step (x : MSt) (i : Nat) :
    (stepWriter x i).hw + rem ((stepWriter x i).wr i) = x.hw + rem (x.wr i) := by
  unfold stepWriter
  cases hpc : (x.wr i).pc <;> simp only [hpc] <;> (repeat' split) <;>
    simp_all [rem, WPc.claiming, updW_same] <;> omega

theorem fin_stepWriter (x : MSt) (i : Nat) (hi : i < x.P) : finM (stepWriter x i) = finM x := by
  unfold finM
  rw [stepWriter_P]
  apply sumTo_exchange x.P _ _ i hi
  · intro a _ hne; rw [stepWriter_others x i a hne]
  · exact hw_rem_step x i

theorem fin_stepM (x : MSt) (t : MTid) : finM (stepM x t) = finM x := by
  cases t with
  | writer i =>
    simp only [stepM]; split
    · rename_i hi; exact fin_stepWriter x i hi
    · rfl
  | drainer =>
    obtain ⟨_, _, _, _, _, _, ewr, eP, ehw⟩ := stepDrainer_frame2 x
    show finM (stepDrainer x) = finM x
    simp only [finM, ewr, eP, ehw]
  | cons k j => simp only [stepM]; split <;> rfl

theorem hw_le_fin (x : MSt) : x.hw ≤ finM x := Nat.le_add_right _ _

def phaseW : WPc → Nat
  | .readHw | .capLoad | .capCheck | .casHw => 12
  | .write => 11
  | .setBit => 10
  | .readLw => 9
  | .scan => 8
  | .relCheck => 7
  | .unsetBit => 6
  | .casCur | .reloadCur => 5
  | .setLw => 4
  | .sLock | .sNotify | .sUnlock => 3
  | .start => 2
  | .done | .panicked => 0

/-- remaining work of a writer thread: batches still to take, phases of the current `write` call still to go -/
def wW (w : Writer) : Nat := 11 * w.todo.length + phaseW w.pc

def phaseD : DPc → Nat
  | .waitJoin => 6
  | .readCur => 5
  | .drainLoad | .drainCheck | .dLock | .dNotify | .dUnlock => 4
  | .setDone => 3
  | .eLock | .eNotify | .eUnlock => 2
  | .done => 0

def μP (x : MSt) : Nat := (finM x - x.s.cursor) + sumTo x.P (fun i => wW (x.wr i)) + phaseD x.dr.pc

/-- remaining work: events still to consume / threads still to finish / batches and producer phases still to go -/
def μmain (x : MSt) : Nat := CS.μC (finM x) x.s + μP x

/-- every step of a writer leaves its work measure alone or decreases it; it decreases it whenever the phase changes -/
theorem wW_step (x : MSt) (i : Nat) :
    wW ((stepWriter x i).wr i) < wW (x.wr i) ∨
    (((stepWriter x i).wr i).todo = (x.wr i).todo ∧ phaseW ((stepWriter x i).wr i).pc = phaseW (x.wr i).pc) := by
  unfold stepWriter
  cases hpc : (x.wr i).pc <;> simp only [hpc] <;> (repeat' split) <;>
    simp_all [wW, phaseW, updW_same] <;> omega

theorem wW_step_le (x : MSt) (i : Nat) : wW ((stepWriter x i).wr i) ≤ wW (x.wr i) := by
  rcases wW_step x i with h | ⟨h1, h2⟩
  · exact Nat.le_of_lt h
  · simp only [wW, h1, h2]; exact Nat.le_refl _

theorem sumW_stepWriter_le (x : MSt) (i : Nat) :
    sumTo (stepWriter x i).P (fun a => wW ((stepWriter x i).wr a)) ≤ sumTo x.P (fun a => wW (x.wr a)) := by
  rw [stepWriter_P]
  apply sumTo_upd_le x.P _ _ i
  · intro a _ hne; rw [stepWriter_others x i a hne]
  · exact wW_step_le x i

theorem sumW_stepWriter_lt (x : MSt) (i : Nat) (hi : i < x.P) (h : wW ((stepWriter x i).wr i) < wW (x.wr i)) :
    sumTo (stepWriter x i).P (fun a => wW ((stepWriter x i).wr a)) < sumTo x.P (fun a => wW (x.wr a)) := by
  rw [stepWriter_P]
  apply sumTo_upd_lt x.P _ _ i hi
  · intro a _ hne; rw [stepWriter_others x i a hne]
  · exact h

theorem μC_stepWriter (x : MSt) (i : Nat) (f : Nat) :
    CS.μC f (stepWriter x i).s = CS.μC f x.s := by
  obtain ⟨ec, eK, eh, _⟩ := stepWriter_frame x i
  exact CS.μC_congr _ _ _ ec eK eh

theorem μmain_stepWriter (x : MSt) (i : Nat) (hi : i < x.P) (hM : MInv x) :
    μmain (stepWriter x i) ≤ μmain x ∧
    (wW ((stepWriter x i).wr i) < wW (x.wr i) → μmain (stepWriter x i) < μmain x) := by
  have hcur := stepWriter_cursor_mono x i hi hM
  have hdr : (stepWriter x i).dr = x.dr := (stepWriter_frame x i).2.2.2.2.2.2.1
  have h1 := sumW_stepWriter_le x i
  have hC := μC_stepWriter x i (finM x)
  simp only [μmain, μP, fin_stepWriter x i hi, hdr, hC]
  refine ⟨by omega, fun hlt => ?_⟩
  have := sumW_stepWriter_lt x i hi hlt
  omega

theorem phaseD_step (x : MSt) :
    phaseD (stepDrainer x).dr.pc < phaseD x.dr.pc ∨
    (phaseD (stepDrainer x).dr.pc = phaseD x.dr.pc ∧ (stepDrainer x).s.isDone = x.s.isDone) := by
  unfold stepDrainer
  cases hpc : x.dr.pc <;> simp only [hpc] <;> (repeat' split) <;> simp_all [phaseD]

theorem μmain_stepDrainer (x : MSt) :
    μmain (stepDrainer x) ≤ μmain x ∧
    (phaseD (stepDrainer x).dr.pc < phaseD x.dr.pc → μmain (stepDrainer x) < μmain x) := by
  obtain ⟨ec, eK, eh, en, ebl, ecur, ewr, eP, ehw⟩ := stepDrainer_frame2 x
  have hf : finM (stepDrainer x) = finM x := fin_stepM x .drainer
  have hC : CS.μC (finM x) (stepDrainer x).s = CS.μC (finM x) x.s := CS.μC_congr _ _ _ ec eK eh
  simp only [μmain, μP, hf, hC, ecur, ewr, eP]
  rcases phaseD_step x with h | ⟨h, _⟩
  · exact ⟨by omega, fun _ => by omega⟩
  · exact ⟨by omega, fun hh => by omega⟩

theorem μmain_stepCons (x : MSt) (k j : Nat) (hk : k < x.s.K) (hj : j < x.s.h k) (hI : Inv x.s)
    (hfin : x.s.cursor ≤ finM x) :
    μmain { x with s := stepC x.s k j } ≤ μmain x ∧
    (progressC (x.s.cons k j) (stepCons x.s k j (x.s.cons k j)) → μmain { x with s := stepC x.s k j } < μmain x) := by
  have hf : finM { x with s := stepC x.s k j } = finM x := rfl
  have hP : μP { x with s := stepC x.s k j } = μP x := rfl
  simp only [μmain, hf, hP]
  refine ⟨by have := CS.μC_stepC_le (finM x) x.s k j hk hj hI; omega, fun hp => ?_⟩
  have := CS.μC_progress (finM x) x.s k j hk hj hI hfin hp
  omega

/-! ## the liveness invariant -/

/-- single-writer specifics: every batch is smaller than the ring; the high watermark the writer has read is the current
one (nobody else claims) -/
structure SWInv (x : MSt) : Prop where
  fit  : ∀ b, b ∈ (x.wr 0).todo → b < x.s.n
  fitC : (x.wr 0).pc.claiming = true → (x.wr 0).count < x.s.n
  hwS  : ((x.wr 0).pc = .capLoad ∨ (x.wr 0).pc = .capCheck ∨ (x.wr 0).pc = .casHw) → (x.wr 0).hwSeen = x.hw

theorem swinv_stepWriter (x : MSt) (h : SWInv x) : SWInv (stepWriter x 0) := by
  obtain ⟨h1, h2, h3⟩ := h
  have hn : (stepWriter x 0).s.n = x.s.n := (stepWriter_frame x 0).2.2.2.1
  rw [show SWInv (stepWriter x 0) ↔
    ((∀ b, b ∈ ((stepWriter x 0).wr 0).todo → b < x.s.n) ∧
     (((stepWriter x 0).wr 0).pc.claiming = true → ((stepWriter x 0).wr 0).count < x.s.n) ∧
     ((((stepWriter x 0).wr 0).pc = .capLoad ∨ ((stepWriter x 0).wr 0).pc = .capCheck ∨
        ((stepWriter x 0).wr 0).pc = .casHw) → ((stepWriter x 0).wr 0).hwSeen = (stepWriter x 0).hw)) from
    ⟨fun ⟨a, b, c⟩ => ⟨by rw [← hn]; exact a, by rw [← hn]; exact b, c⟩,
     fun ⟨a, b, c⟩ => ⟨by rw [hn]; exact a, by rw [hn]; exact b, c⟩⟩]
  unfold stepWriter
  cases hpc : (x.wr 0).pc <;> simp only [hpc, WPc.claiming] at h2 h3 <;> simp only [hpc]
  case start =>
    split
    · simp_all [updW_same, WPc.claiming]
    · rename_i b rest heq
      have hb := h1 b (by simp [heq])
      have hr : ∀ c, c ∈ rest → c < x.s.n := fun c hc => h1 c (by simp [heq, hc])
      simp_all [updW_same, WPc.claiming]
  all_goals ((repeat' split) <;> simp_all [updW_same, WPc.claiming])

/-- what the writer side looks like: either a single writer thread (with the serial-publication invariant, which every
schedule of a single writer satisfies), or all writer threads are done and nothing is stranded -/
def Phase (x : MSt) : Prop :=
  (x.P = 1 ∧ SerAll x ∧ SWInv x) ∨ (writersDone x = true ∧ x.s.cursor = x.hw)

/-- the invariant of the liveness argument -/
structure LJ (x : MSt) : Prop where
  g  : GInv x
  ph : Phase x

theorem serialStep_of_single (x : MSt) (hP : x.P = 1) (t : MTid) : SerialStep x t := by
  intro i _ hi hpc _
  have hi0 : i = 0 := by omega
  subst hi0
  refine ⟨fun j hj => ?_, fun j hj hne => ?_⟩
  · have : j = 0 := by omega
    subst this; rw [hpc]; rfl
  · omega

theorem phase_stepM (x : MSt) (t : MTid) (h : Phase x) : Phase (stepM x t) := by
  rcases h with ⟨hP, hS, hW⟩ | ⟨hd, hc⟩
  · left
    refine ⟨by rw [(topo_stepM x t).2.2.2.1]; exact hP, serAll_stepM x t hS (serialStep_of_single x hP t), ?_⟩
    cases t with
    | writer i =>
      simp only [stepM]; split
      · rename_i hi
        have : i = 0 := by omega
        subst this; exact swinv_stepWriter x hW
      · exact hW
    | drainer =>
      obtain ⟨_, _, _, en, _, _, ewr, _, ehw⟩ := stepDrainer_frame2 x
      show SWInv (stepDrainer x)
      exact ⟨by rw [ewr, en]; exact hW.1, by rw [ewr, en]; exact hW.2, by rw [ewr, ehw]; exact hW.3⟩
    | cons k j =>
      simp only [stepM]; split
      · exact ⟨hW.1, hW.2, hW.3⟩
      · exact hW
  · right
    cases t with
    | writer i => rw [stepM_writer_done x i hd]; exact ⟨hd, hc⟩
    | drainer =>
      obtain ⟨_, _, _, _, _, ecur, ewr, eP, ehw⟩ := stepDrainer_frame2 x
      show writersDone (stepDrainer x) = true ∧ (stepDrainer x).s.cursor = (stepDrainer x).hw
      refine ⟨?_, by rw [ecur, ehw]; exact hc⟩
      simp only [writersDone, ewr, eP]; exact hd
    | cons k j =>
      simp only [stepM]; split
      · exact ⟨hd, hc⟩
      · exact ⟨hd, hc⟩

theorem lj_stepM (x : MSt) (t : MTid) (h : LJ x) : LJ (stepM x t) :=
  ⟨ginv_stepM x t h.g, phase_stepM x t h.ph⟩

/-- the cursor never exceeds the high watermark -/
theorem cursor_le_hw (x : MSt) (h : LJ x) : x.s.cursor ≤ x.hw := by
  rcases h.ph with ⟨_, hS, _⟩ | ⟨_, hc⟩
  · rcases Nat.eq_zero_or_pos x.s.cursor with h0 | hp
    · omega
    · exact (hS.1.2.pref _ hp (Nat.le_refl _)).2.1
  · omega

theorem cursor_le_fin (x : MSt) (h : LJ x) : x.s.cursor ≤ finM x :=
  Nat.le_trans (cursor_le_hw x h) (hw_le_fin x)

/-- with a single writer: outside `publish` and outside its slot-write loop the cursor stands at the high watermark -/
theorem single_idle_cursor (x : MSt) (hP : x.P = 1) (hS : SerAll x) (hpub : (x.wr 0).pc.pub = false)
    (hw : (x.wr 0).pc ≠ .write) : x.s.cursor = x.hw := by
  have hq : ∀ j, j < x.P → (x.wr j).pc.pub = false := by
    intro j hj
    have : j = 0 := by omega
    subst this; exact hpub
  obtain ⟨_, _, hc⟩ := hS.2.idle hq
  have hle : x.s.cursor ≤ x.hw := by
    rcases Nat.eq_zero_or_pos x.s.cursor with h0 | hp
    · omega
    · exact (hS.1.2.pref _ hp (Nat.le_refl _)).2.1
  apply Nat.le_antisymm hle
  apply Nat.le_of_not_lt
  intro hlt
  obtain ⟨j, hj, p1, _⟩ := hc x.hw hlt (Nat.le_refl _)
  have : j = 0 := by omega
  subst this
  exact hw p1

/-! ## readiness and ranks of the writer and of the draining thread (both strategies) -/

/-- a writer is *ready*: it reaches its next progress event after a bounded number of own enabled steps — always, except
inside `next`, where it needs capacity -/
def readyW (x : MSt) (i : Nat) : Prop :=
  match (x.wr i).pc with
  | .readHw | .capLoad | .capCheck => condCap x i
  | .done | .panicked => False
  | _ => True

def readyD (x : MSt) : Prop :=
  match x.dr.pc with
  | .waitJoin => writersDone x = true
  | .drainLoad | .drainCheck | .dUnlock => condDM x
  | .dLock | .dNotify => condDM x ∨ CS.owedParked x.s
  | .done => False
  | _ => True

/-- the stale-snapshot flag of a writer inside `get_min_cursor_sequence`: with the running minimum `has_capacity` fails -/
def badCap (w : Writer) (n : Nat) : Bool :=
  match w.acc with | some m => decide (¬ (n > (w.hwSeen - m) + w.count)) | none => false

theorem badCap_minOpt (w w' : Writer) (n v : Nat) (hv : n > (w.hwSeen - v) + w.count)
    (hacc : w'.acc = minOpt w.acc v) (hs : w'.hwSeen = w.hwSeen) (hc : w'.count = w.count) :
    badCap w' n = badCap w n := by
  cases h : w.acc with
  | none => simp [badCap, hacc, h, minOpt, hs, hc]; omega
  | some m =>
    simp only [badCap, hacc, h, minOpt, hs, hc]
    have h1 : Nat.min m v = m ∨ Nat.min m v = v := by
      rcases Nat.le_total m v with h | h
      · left; exact Nat.min_eq_left h
      · right; exact Nat.min_eq_right h
    have h2 : Nat.min m v ≤ m := Nat.min_le_left _ _
    by_cases hm : n > (w.hwSeen - m) + w.count
    · have : n > (w.hwSeen - Nat.min m v) + w.count := by rcases h1 with h1 | h1 <;> rw [h1] <;> omega
      simp [hm, this]
    · have : ¬ n > (w.hwSeen - Nat.min m v) + w.count := by omega
      simp [hm, this]

def rankW (ng n : Nat) (w : Writer) : Nat :=
  match w.pc with
  | .casHw => 1
  | .capCheck => if n > (w.hwSeen - w.minG) + w.count then 2 else ng + 5
  | .capLoad => if badCap w n then (ng - w.idx) + 1 + (ng + 5) else (ng - w.idx) + 3
  | .readHw => ng + 4
  | .write => w.hi + 2 - w.w
  | .setBit => w.hi + 2 - w.nbit
  | .scan => w.hi + 1 - w.good
  | .unsetBit => w.good + 2 - w.u
  | .sLock => 3
  | .sNotify => 2
  | .sUnlock => 1
  | _ => 0

theorem rankW_capLoad (ng n : Nat) (w : Writer) (h : w.pc = .capLoad) :
    rankW ng n w = if badCap w n then (ng - w.idx) + 1 + (ng + 5) else (ng - w.idx) + 3 := by
  simp [rankW, h]

def badD (d : Drainer) : Bool := match d.acc with | some m => decide (m < d.current) | none => false

theorem badD_minOpt (d d' : Drainer) (v : Nat) (hv : d.current ≤ v)
    (hacc : d'.acc = minOpt d.acc v) (hs : d'.current = d.current) : badD d' = badD d := by
  cases h : d.acc with
  | none => simp [badD, hacc, h, minOpt, hs]; omega
  | some m =>
    simp only [badD, hacc, h, minOpt, hs]
    have h1 : Nat.min m v = m ∨ Nat.min m v = v := by
      rcases Nat.le_total m v with h | h
      · left; exact Nat.min_eq_left h
      · right; exact Nat.min_eq_right h
    have h2 : Nat.min m v ≤ m := Nat.min_le_left _ _
    by_cases hm : m < d.current
    · have : Nat.min m v < d.current := by omega
      simp [hm, this]
    · have : ¬ Nat.min m v < d.current := by rcases h1 with h1 | h1 <;> rw [h1] <;> omega
      simp [hm, this]

open Classical in
noncomputable def rankD (x : MSt) : Nat :=
  let d := x.dr
  let ng := ngate x.s
  match d.pc with
  | .drainLoad => if badD d then (ng - d.idx) + 1 + (ng + 6) else (ng - d.idx) + 2
  | .drainCheck => if d.min < d.current then ng + 6 else 1
  | .dLock => if condDM x then ng + 5 else 2
  | .dNotify => if condDM x then ng + 4 else 1
  | .dUnlock => ng + 3
  | .eLock => 3
  | .eNotify => 2
  | .eUnlock => 1
  | _ => 0

/-- is the thread's next step enabled for the purpose of the fairness rules? As `enabledM`, except that the join of the
writer threads counts as enabled (its step is a stutter until every writer has ended; weak fairness suffices for it) -/
def enF (x : MSt) : MTid → Bool
  | .drainer => match x.dr.pc with
    | .waitJoin => true
    | _ => enabledM x .drainer
  | t => enabledM x t

theorem condCap_congr (x x' : MSt) (i : Nat) (hc : (x'.wr i).count = (x.wr i).count) (hhw : x'.hw = x.hw)
    (hng : ngate x'.s = ngate x.s) (hg : ∀ d, gate x'.s d = gate x.s d) (hn : x'.s.n = x.s.n) :
    condCap x' i ↔ condCap x i := by
  simp only [condCap, hc, hhw, hng, hg, hn]

theorem condDM_congr (x x' : MSt) (hc : x'.dr.current = x.dr.current)
    (hng : ngate x'.s = ngate x.s) (hg : ∀ d, gate x'.s d = gate x.s d) : condDM x' ↔ condDM x := by
  simp only [condDM, hc, hng, hg]

theorem owedParked_same (s s' : St) (hc : s'.cons = s.cons) (hcursor : s'.cursor = s.cursor)
    (hd : s'.isDone = s.isDone) (hK : s'.K = s.K) (hh : s'.h = s.h) (hb : s'.blocking = s.blocking)
    (hw : s'.woken = s.woken) (hop : CS.owedParked s) : CS.owedParked s' := by
  rcases CS.owedParked_frame s s' hc hcursor hd hK hh hb (Or.inl hw) hop with h | ⟨a, b, ha, hb', hlt⟩
  · exact h
  · exfalso
    have := CS.ow_frame_le s' s a b hc.symm hcursor.symm hd.symm hh.symm hb.symm (Or.inl hw.symm)
    omega

theorem ngate_pos_of (x : MSt) (h : GInv x) : 0 < ngate x.s := ngate_pos x.s h.good.2.1.1 h.good.2.2

/-- the single writer's own enabled step when ready: its work measure drops (a progress event) or its rank drops and it
stays ready -/
theorem hown_writer (x : MSt) (h : GInv x) (hP : x.P = 1) (hS : SerAll x) (hW : SWInv x)
    (hr : readyW x 0) (he : enabledM x (.writer 0) = true) :
    wW ((stepWriter x 0).wr 0) < wW (x.wr 0) ∨
    (rankW (ngate x.s) x.s.n ((stepWriter x 0).wr 0) < rankW (ngate x.s) x.s.n (x.wr 0) ∧
      readyW (stepWriter x 0) 0) := by
  have hgpos := ngate_pos_of x h
  have hcap := hS.1.1.2 0 (by omega)
  obtain ⟨hng, hg⟩ := stepWriter_gate x 0
  have hn : (stepWriter x 0).s.n = x.s.n := (stepWriter_frame x 0).2.2.2.1
  -- a step that changes the phase is a progress event
  have hphase : phaseW ((stepWriter x 0).wr 0).pc ≠ phaseW (x.wr 0).pc → wW ((stepWriter x 0).wr 0) < wW (x.wr 0) := by
    intro hne
    rcases wW_step x 0 with h | ⟨_, h⟩
    · exact h
    · exact absurd h hne
  cases hpc : (x.wr 0).pc <;> simp only [readyW, hpc] at hr
  case start =>
    left
    cases htodo : (x.wr 0).todo with
    | nil => apply hphase; simp [stepWriter, hpc, htodo, updW_same, phaseW]
    | cons b rest => simp [stepWriter, hpc, htodo, updW_same, wW, phaseW]; omega
  case readHw =>
    right
    have e : stepWriter x 0 = { x with wr := updW x.wr 0 { x.wr 0 with hwSeen := x.hw, pc := .capLoad, acc := none, idx := 0 } } := by
      simp [stepWriter, hpc]
    have e' : (stepWriter x 0).wr 0 = { x.wr 0 with hwSeen := x.hw, pc := .capLoad, acc := none, idx := 0 } := by
      rw [e]; simp only [updW_same]
    refine ⟨?_, ?_⟩
    · rw [e']; simp [rankW, hpc, badCap]
    · have hc : condCap (stepWriter x 0) 0 :=
        (condCap_congr x (stepWriter x 0) 0 (by rw [e']) (by rw [e]) hng hg hn).2 hr
      simp only [readyW, e']; exact hc
  case capLoad =>
    right
    have hhw := hW.hwS (Or.inl hpc)
    have hfc := hW.fitC (by simp [hpc, WPc.claiming])
    by_cases hlt : (x.wr 0).idx < ngate x.s
    · have e : stepWriter x 0 = { x with wr := updW x.wr 0 { x.wr 0 with
          acc := minOpt (x.wr 0).acc (gate x.s (x.wr 0).idx), idx := (x.wr 0).idx + 1 } } := by
        simp [stepWriter, hpc, hlt]
      have e' : (stepWriter x 0).wr 0 = { x.wr 0 with
          acc := minOpt (x.wr 0).acc (gate x.s (x.wr 0).idx), idx := (x.wr 0).idx + 1 } := by
        rw [e]; simp only [updW_same]
      have hv : x.s.n > ((x.wr 0).hwSeen - gate x.s (x.wr 0).idx) + (x.wr 0).count := by
        have := hr _ hlt; omega
      have hb := badCap_minOpt (x.wr 0) { x.wr 0 with
          acc := minOpt (x.wr 0).acc (gate x.s (x.wr 0).idx), idx := (x.wr 0).idx + 1 } x.s.n _ hv rfl rfl rfl
      refine ⟨?_, ?_⟩
      · have hL := rankW_capLoad (ngate x.s) x.s.n ((stepWriter x 0).wr 0) (by rw [e']; exact hpc)
        rw [hL, rankW_capLoad _ _ (x.wr 0) hpc, e']
        dsimp only
        rw [hb]
        cases badCap (x.wr 0) x.s.n <;> simp <;> omega
      · have hc : condCap (stepWriter x 0) 0 :=
          (condCap_congr x (stepWriter x 0) 0 (by rw [e']) (by rw [e]) hng hg hn).2 hr
        simp only [readyW, e', hpc]; exact hc
    · have hidx : (x.wr 0).idx = ngate x.s := by have := hcap.idxLe hpc; omega
      have hsome := hcap.accSome hpc (by omega)
      cases hacc : (x.wr 0).acc with
      | none => simp [hacc] at hsome
      | some m =>
        have e : stepWriter x 0 = { x with wr := updW x.wr 0 { x.wr 0 with minG := m, pc := .capCheck } } := by
          simp [stepWriter, hpc, hlt, hacc]
        have e' : (stepWriter x 0).wr 0 = { x.wr 0 with minG := m, pc := .capCheck } := by
          rw [e]; simp only [updW_same]
        refine ⟨?_, ?_⟩
        · rw [e']; simp only [rankW, hpc, badCap, hacc]
          by_cases hm : x.s.n > ((x.wr 0).hwSeen - m) + (x.wr 0).count <;> simp [hm] <;> omega
        · have hc : condCap (stepWriter x 0) 0 :=
            (condCap_congr x (stepWriter x 0) 0 (by rw [e']) (by rw [e]) hng hg hn).2 hr
          simp only [readyW, e']; exact hc
  case capCheck =>
    right
    by_cases hc : x.s.n > ((x.wr 0).hwSeen - (x.wr 0).minG) + (x.wr 0).count
    · have e' : (stepWriter x 0).wr 0 = { x.wr 0 with pc := .casHw } := by
        simp [stepWriter, hpc, hc, updW_same]
      refine ⟨?_, ?_⟩
      · rw [e']; simp [rankW, hpc, hc]
      · simp only [readyW, e']
    · have e : stepWriter x 0 = { x with wr := updW x.wr 0 { x.wr 0 with pc := .readHw } } := by
        simp [stepWriter, hpc, hc]
      have e' : (stepWriter x 0).wr 0 = { x.wr 0 with pc := .readHw } := by
        rw [e]; simp only [updW_same]
      refine ⟨?_, ?_⟩
      · rw [e']; simp [rankW, hpc, hc]
      · have hcc : condCap (stepWriter x 0) 0 :=
          (condCap_congr x (stepWriter x 0) 0 (by rw [e']) (by rw [e]) hng hg hn).2 hr
        simp only [readyW, e']; exact hcc
  case casHw =>
    left
    have hhw := hW.hwS (Or.inr (Or.inr hpc))
    apply hphase
    simp [stepWriter, hpc, hhw, updW_same, phaseW]
  case write =>
    by_cases hle : (x.wr 0).w ≤ (x.wr 0).hi
    · right
      have e' : (stepWriter x 0).wr 0 = { x.wr 0 with w := (x.wr 0).w + 1 } := by
        simp [stepWriter, hpc, hle, updW_same]
      refine ⟨?_, ?_⟩
      · rw [e']; simp only [rankW, hpc]; omega
      · simp only [readyW, e', hpc]
    · left; apply hphase; simp [stepWriter, hpc, hle, updW_same, phaseW]
  case setBit =>
    by_cases hle : (x.wr 0).nbit ≤ (x.wr 0).hi
    · right
      have e' : (stepWriter x 0).wr 0 = { x.wr 0 with nbit := (x.wr 0).nbit + 1 } := by
        simp [stepWriter, hpc, hle, updW_same]
      refine ⟨?_, ?_⟩
      · rw [e']; simp only [rankW, hpc]; omega
      · simp only [readyW, e', hpc]
    · left; apply hphase; simp [stepWriter, hpc, hle, updW_same, phaseW]
  case readLw => left; apply hphase; simp [stepWriter, hpc, updW_same, phaseW]
  case scan =>
    by_cases hlt : (x.wr 0).good < (x.wr 0).hi
    · by_cases hbit : bmIsSet x.bm ((x.wr 0).good + 1) = true
      · right
        have e' : (stepWriter x 0).wr 0 = { x.wr 0 with good := (x.wr 0).good + 1 } := by
          simp [stepWriter, hpc, hlt, hbit, updW_same]
        refine ⟨?_, ?_⟩
        · rw [e']; simp only [rankW, hpc]; omega
        · simp only [readyW, e', hpc]
      · left; apply hphase; simp [stepWriter, hpc, hlt, hbit, updW_same, phaseW]
    · left; apply hphase; simp [stepWriter, hpc, hlt, updW_same, phaseW]
  case relCheck =>
    left; apply hphase
    by_cases hgt : (x.wr 0).good > (x.wr 0).lwSeen <;> simp [stepWriter, hpc, hgt, updW_same, phaseW]
  case unsetBit =>
    by_cases hle : (x.wr 0).u ≤ (x.wr 0).good
    · right
      have e' : (stepWriter x 0).wr 0 = { x.wr 0 with u := (x.wr 0).u + 1 } := by
        simp [stepWriter, hpc, hle, updW_same]
      refine ⟨?_, ?_⟩
      · rw [e']; simp only [rankW, hpc]; omega
      · simp only [readyW, e', hpc]
    · left; apply hphase; simp [stepWriter, hpc, hle, updW_same, phaseW]
  case casCur =>
    left
    have hact := hS.2.act 0 (by omega) (by simp [hpc, WPc.pub])
    have h1 := hact.pre (by simp [hpc])
    have h2 := hact.lws (by simp [hpc])
    have h3 := hact.cas hpc
    have hcur : x.s.cursor = (x.wr 0).cur := by omega
    apply hphase
    simp [stepWriter, hpc, hcur, updW_same, phaseW]
  case reloadCur =>
    exfalso
    exact (hS.2.act 0 (by omega) (by simp [hpc, WPc.pub])).nore hpc
  case setLw =>
    left; apply hphase
    cases hb : x.s.blocking <;> simp [stepWriter, hpc, hb, updW_same, phaseW]
  case sLock =>
    right
    have hm : x.s.mtx = none := by simpa [enabledM, hpc] using he
    have e' : (stepWriter x 0).wr 0 = { x.wr 0 with pc := .sNotify } := by
      simp [stepWriter, hpc, hm, updW_same]
    refine ⟨?_, ?_⟩
    · rw [e']; simp [rankW, hpc]
    · simp only [readyW, e']
  case sNotify =>
    right
    have e' : (stepWriter x 0).wr 0 = { x.wr 0 with pc := .sUnlock } := by
      simp [stepWriter, hpc, updW_same]
    refine ⟨?_, ?_⟩
    · rw [e']; simp [rankW, hpc]
    · simp only [readyW, e']
  case sUnlock => left; apply hphase; simp [stepWriter, hpc, updW_same, phaseW]

theorem rankD_drainLoad (x : MSt) (h : x.dr.pc = .drainLoad) :
    rankD x = if badD x.dr then (ngate x.s - x.dr.idx) + 1 + (ngate x.s + 6) else (ngate x.s - x.dr.idx) + 2 := by
  simp [rankD, h]

open Classical in
/-- the draining thread's own enabled step when ready: a progress event (its phase drops), or the `notify_all` that a
parked handler is owed, or its rank drops and it stays ready -/
theorem hown_drainer (x : MSt) (h : GInv x) (hr : readyD x) (he : enF x .drainer = true) :
    phaseD (stepDrainer x).dr.pc < phaseD x.dr.pc ∨
    (x.dr.pc = .dNotify ∧ ¬ condDM x ∧ CS.owedParked x.s) ∨
    (rankD (stepDrainer x) < rankD x ∧ readyD (stepDrainer x)) := by
  have hgpos := ngate_pos_of x h
  obtain ⟨hng, hg⟩ := stepDrainer_gate x
  obtain ⟨ec, eK, eh, en, ebl, ecur, ewr, eP, ehw⟩ := stepDrainer_frame2 x
  have hcd : (stepDrainer x).dr.current = x.dr.current → (condDM (stepDrainer x) ↔ condDM x) :=
    fun hc => condDM_congr x (stepDrainer x) hc hng hg
  cases hpc : x.dr.pc <;> simp only [readyD, hpc] at hr
  case waitJoin => left; simp [stepDrainer, hpc, hr, phaseD]
  case readCur => left; simp [stepDrainer, hpc, phaseD]
  case setDone => left; cases hb : x.s.blocking <;> simp [stepDrainer, hpc, hb, phaseD]
  case eUnlock => left; simp [stepDrainer, hpc, phaseD]
  case drainLoad =>
    right; right
    by_cases hlt : x.dr.idx < ngate x.s
    · have e : stepDrainer x = { x with dr := { x.dr with acc := minOpt x.dr.acc (gate x.s x.dr.idx), idx := x.dr.idx + 1 } } := by
        simp [stepDrainer, hpc, hlt]
      have hb := badD_minOpt x.dr { x.dr with acc := minOpt x.dr.acc (gate x.s x.dr.idx), idx := x.dr.idx + 1 }
        (gate x.s x.dr.idx) (hr _ hlt) rfl rfl
      refine ⟨?_, ?_⟩
      · have hL := rankD_drainLoad (stepDrainer x) (by rw [e]; exact hpc)
        rw [hL, rankD_drainLoad x hpc, hng, e]
        dsimp only
        rw [hb]
        cases badD x.dr <;> simp <;> omega
      · have := (hcd (by rw [e])).2 hr
        rw [e] at this ⊢; simpa [readyD, hpc] using this
    · have hidx : x.dr.idx = ngate x.s := by have := h.dr.idxLe hpc; omega
      have hsome := h.dr.accSome hpc (by omega)
      cases hacc : x.dr.acc with
      | none => simp [hacc] at hsome
      | some m =>
        have e : stepDrainer x = { x with dr := { x.dr with min := m, pc := .drainCheck } } := by
          simp [stepDrainer, hpc, hlt, hacc]
        refine ⟨?_, ?_⟩
        · rw [e]; simp only [rankD, hpc, badD, hacc]
          by_cases hm : m < x.dr.current <;> simp [hm] <;> omega
        · have := (hcd (by rw [e])).2 hr
          rw [e] at this ⊢; simpa [readyD] using this
  case drainCheck =>
    by_cases hc : x.dr.min < x.dr.current
    · right; right
      cases hb : x.s.blocking
      · have e : stepDrainer x = { x with dr := { x.dr with pc := .drainLoad, acc := none, idx := 0 } } := by
          simp [stepDrainer, hpc, hc, hb]
        refine ⟨?_, ?_⟩
        · rw [e]; simp [rankD, hpc, hc, badD]
        · have := (hcd (by rw [e])).2 hr
          rw [e] at this ⊢; simpa [readyD] using this
      · have e : stepDrainer x = { x with dr := { x.dr with pc := .dLock } } := by
          simp [stepDrainer, hpc, hc, hb]
        have hcd' := (hcd (by rw [e])).2 hr
        refine ⟨?_, ?_⟩
        · have hpc' : (stepDrainer x).dr.pc = .dLock := by rw [e]
          simp only [rankD, hpc, hpc', hng, hcd', hc, if_true]; omega
        · rw [e] at hcd' ⊢; simp only [readyD]; left; exact hcd'
    · left; simp [stepDrainer, hpc, hc, phaseD]
  case dLock =>
    right; right
    have hm : x.s.mtx = none := by simpa [enF, enabledM, hpc] using he
    have e : stepDrainer x = { x with s := { x.s with mtx := some .prod }, dr := { x.dr with pc := .dNotify } } := by
      simp [stepDrainer, hpc, hm]
    have hpc' : (stepDrainer x).dr.pc = .dNotify := by rw [e]
    have hcd' := hcd (by rw [e])
    have hcdi : condDM (stepDrainer x) = condDM x := propext hcd'
    refine ⟨?_, ?_⟩
    · simp only [rankD, hpc, hpc', hng, hcdi]
      split <;> omega
    · simp only [readyD, hpc']
      rcases hr with hr | hr
      · left; exact hcd'.2 hr
      · right; rw [e]; exact owedParked_same x.s _ rfl rfl rfl rfl rfl rfl rfl hr
  case dNotify =>
    have e : stepDrainer x = { x with s := { x.s with woken := fun _ _ => true }, dr := { x.dr with pc := .dUnlock } } := by
      simp [stepDrainer, hpc]
    have hpc' : (stepDrainer x).dr.pc = .dUnlock := by rw [e]
    have hcd' := hcd (by rw [e])
    by_cases hc : condDM x
    · right; right
      refine ⟨?_, ?_⟩
      · simp only [rankD, hpc, hpc', hng, hc, if_true]; omega
      · simp only [readyD, hpc']; exact hcd'.2 hc
    · right; left
      exact ⟨rfl, hc, hr.resolve_left hc⟩
  case dUnlock =>
    right; right
    have e : stepDrainer x = { x with s := { x.s with mtx := none }, dr := { x.dr with pc := .drainLoad, acc := none, idx := 0 } } := by
      simp [stepDrainer, hpc]
    have hpc' : (stepDrainer x).dr.pc = .drainLoad := by rw [e]
    have hidx : (stepDrainer x).dr.idx = 0 := by rw [e]
    have hbd : badD (stepDrainer x).dr = false := by rw [e]; simp [badD]
    refine ⟨?_, ?_⟩
    · simp only [rankD, hpc, hpc', hng, hidx, hbd]; simp
    · simp only [readyD, hpc']; exact (hcd (by rw [e])).2 hr
  case eLock =>
    right; right
    have hm : x.s.mtx = none := by simpa [enF, enabledM, hpc] using he
    have e : stepDrainer x = { x with s := { x.s with mtx := some .prod }, dr := { x.dr with pc := .eNotify } } := by
      simp [stepDrainer, hpc, hm]
    rw [e]; exact ⟨by simp [rankD, hpc], by simp [readyD]⟩
  case eNotify =>
    right; right
    have e : stepDrainer x = { x with s := { x.s with woken := fun _ _ => true }, dr := { x.dr with pc := .eUnlock } } := by
      simp [stepDrainer, hpc]
    rw [e]; exact ⟨by simp [rankD, hpc], by simp [readyD]⟩

/-! ## frame lemmas: what the readiness and the rank of the writer / the draining thread depend on -/

theorem writer_frame (x x' : MSt) (i : Nat) (hwr : x'.wr i = x.wr i) (hhw : x'.hw = x.hw)
    (hng : ngate x'.s = ngate x.s) (hg : ∀ d, gate x'.s d = gate x.s d) (hn : x'.s.n = x.s.n)
    (hr : readyW x i) :
    rankW (ngate x'.s) x'.s.n (x'.wr i) = rankW (ngate x.s) x.s.n (x.wr i) ∧ readyW x' i := by
  refine ⟨by rw [hwr, hng, hn], ?_⟩
  have hc : condCap x' i ↔ condCap x i := condCap_congr x x' i (by rw [hwr]) hhw hng hg hn
  unfold readyW at hr ⊢
  rw [hwr]
  cases hpc : (x.wr i).pc <;> simp only [hpc] at hr ⊢ <;> first | exact hc.2 hr | exact hr

open Classical in
theorem drainer_frame (x x' : MSt) (hdr : x'.dr = x.dr) (hwd : writersDone x = true → writersDone x' = true)
    (hng : ngate x'.s = ngate x.s) (hg : ∀ d, gate x'.s d = gate x.s d)
    (hop : CS.owedParked x.s → CS.owedParked x'.s) (hr : readyD x) : rankD x' = rankD x ∧ readyD x' := by
  have hc : condDM x' = condDM x := propext (condDM_congr x x' (by rw [hdr]) hng hg)
  unfold readyD at hr ⊢
  unfold rankD
  rw [hdr]
  cases hpc : x.dr.pc <;> simp only [hpc] at hr ⊢ <;> simp only [hc, hng, true_and, and_true] <;> (try exact hr)
  case waitJoin => exact hwd hr
  case dLock => exact hr.imp id hop
  case dNotify => exact hr.imp id hop

/-! ## when every handler has caught up with the cursor, the producer side can move -/

theorem drainer_ready_of_caught_up (x : MSt) (h : GInv x) (hwd : writersDone x = true)
    (hall : ∀ d, d < ngate x.s → gate x.s d = x.s.cursor) (hnd : ¬ x.s.isDone = true) : readyD x := by
  have hcD : (x.dr.pc ≠ .waitJoin ∧ x.dr.pc ≠ .readCur) → condDM x := by
    intro ⟨h1, h2⟩ d hd
    rw [hall d hd]; exact h.dr.curLe h1 h2
  have hdi := h.mtx.doneIff
  unfold readyD
  cases hpc : x.dr.pc <;> simp only [hpc] at hcD hdi ⊢ <;> first
    | trivial
    | exact hwd
    | exact hcD (by simp)
    | exact Or.inl (hcD (by simp))
    | (exfalso; exact hnd (hdi.2 (by simp [dAfterSet])))

theorem writer_ready_of_caught_up (x : MSt) (h : GInv x) (hP : x.P = 1) (hS : SerAll x) (hW : SWInv x)
    (hnd : (x.wr 0).pc ≠ .done)
    (hall : ∀ d, d < ngate x.s → gate x.s d = x.s.cursor) : readyW x 0 := by
  have hnp := h.mtx.noPanic 0 (by omega)
  have hcap : (x.wr 0).pc.claiming = true → condCap x 0 := by
    intro hcl d hd
    have hcur : x.s.cursor = x.hw := by
      apply single_idle_cursor x hP hS
      · cases hpc : (x.wr 0).pc <;> simp_all [WPc.claiming, WPc.pub]
      · intro hpc; simp [hpc, WPc.claiming] at hcl
    rw [hall d hd, hcur]
    have := hW.fitC hcl
    omega
  unfold readyW
  cases hpc : (x.wr 0).pc <;> simp only [hpc] at hnd hnp hcap ⊢ <;> first
    | trivial
    | exact hcap (by simp [WPc.claiming])
    | exact absurd rfl hnd
    | exact absurd rfl hnp

/-- all writer threads have returned (nobody died) -/
theorem writers_done_of (x : MSt) (h : GInv x) (hwd : writersDone x = true) : ∀ i, i < x.P → (x.wr i).pc = .done := by
  intro i hi
  rcases (writersDone_iff x).1 hwd i hi with h1 | h1
  · exact h1
  · exact absurd h1 (h.mtx.noPanic i hi)

/-- the producer side of `exists_ready` (both strategies): when `is_done` is not set and every last-stage handler has
caught up with the cursor, a writer or the draining thread is ready -/
theorem prod_side_ready (x : MSt) (h : LJ x) (hall : ∀ d, d < ngate x.s → gate x.s d = x.s.cursor)
    (hnd : ¬ x.s.isDone = true) : (∃ i, i < x.P ∧ readyW x i) ∨ readyD x := by
  rcases h.ph with ⟨hP, hS, hW⟩ | ⟨hd, _⟩
  · by_cases hdn : (x.wr 0).pc = .done
    · right
      apply drainer_ready_of_caught_up x h.g _ hall hnd
      apply (writersDone_iff x).2
      intro i hi
      have : i = 0 := by omega
      subst this; exact Or.inl hdn
    · left
      exact ⟨0, by omega, writer_ready_of_caught_up x h.g hP hS hW hdn hall⟩
  · right; exact drainer_ready_of_caught_up x h.g hd hall hnd

/-- … and when `is_done` is set and every handler has left its loop, the draining thread is ready or the run is over -/
theorem drainer_ready_after_done (x : MSt) (h : GInv x) (hd : x.s.isDone = true)
    (hall : ∀ k j, k < x.s.K → j < x.s.h k → (x.s.cons k j).pc = .done) (hnt : ¬ terminalM x) : readyD x := by
  have hdi := h.mtx.doneIff.1 hd
  have hnw : x.dr.pc ≠ .waitJoin := by intro e; simp [e, dAfterSet] at hdi
  have hw := writers_done_of x h (h.dr.joined hnw)
  have hpd : x.dr.pc ≠ .done := fun hpd => hnt ⟨hw, hpd, hall⟩
  unfold readyD
  cases hpc : x.dr.pc <;> simp_all [dAfterSet]

/-! ## bookkeeping of the `write` calls of a single writer -/

/-- every batch handed to the single writer becomes, in order, one claim of exactly its length; the global list of claims
is the writer's -/
structure WBook (bs : List Nat) (x : MSt) : Prop where
  split : (x.wr 0).claims.map (·.2.2) ++ (if (x.wr 0).pc.claiming then [(x.wr 0).count] else []) ++ (x.wr 0).todo = bs
  all   : x.allClaims = (x.wr 0).claims

theorem wbook_stepWriter (bs : List Nat) (x : MSt) (h : WBook bs x) : WBook bs (stepWriter x 0) := by
  obtain ⟨h1, h2⟩ := h
  unfold stepWriter
  cases hpc : (x.wr 0).pc <;> simp only [hpc, WPc.claiming] at h1 <;> simp only [hpc]
  case start =>
    split
    · constructor <;> simp_all [updW_same, WPc.claiming]
    · constructor <;> simp_all [updW_same, WPc.claiming]
  all_goals ((repeat' split) <;> constructor <;> simp_all [updW_same, WPc.claiming])

theorem wbook_stepM (bs : List Nat) (x : MSt) (t : MTid) (hP : x.P = 1) (h : WBook bs x) : WBook bs (stepM x t) := by
  cases t with
  | writer i =>
    simp only [stepM]; split
    · rename_i hi
      have : i = 0 := by omega
      subst this; exact wbook_stepWriter bs x h
    · exact h
  | drainer =>
    obtain ⟨_, _, _, _, _, _, ewr, _, _⟩ := stepDrainer_frame2 x
    show WBook bs (stepDrainer x)
    exact ⟨by rw [ewr]; exact h.1, by rw [ewr, stepDrainer_allClaims]; exact h.2⟩
  | cons k j =>
    simp only [stepM]; split
    · exact ⟨h.1, h.2⟩
    · exact h

theorem wbook_init (n K : Nat) (h : Nat → Nat) (bl : Bool) (bs : List Nat) : WBook bs (mkM n K h bl [bs]) := by
  constructor <;> simp [mkM, WPc.claiming]

theorem swinv_init (n K : Nat) (h : Nat → Nat) (bl : Bool) (bs : List Nat) (hb : ∀ b, b ∈ bs → b < n) :
    SWInv (mkM n K h bl [bs]) := by
  constructor <;> simp [mkM, WPc.claiming]
  exact hb

theorem lj_init_single (k K : Nat) (h : Nat → Nat) (bl : Bool) (bs : List Nat)
    (hK : 0 < K) (hh : ∀ j, j < K → 0 < h j) (hb : ∀ b, b ∈ bs → 1 ≤ b ∧ b < 2 ^ k) :
    LJ (mkM (2 ^ k) K h bl [bs]) := by
  have hb1 : ∀ l, l ∈ [bs] → ∀ b, b ∈ l → 1 ≤ b := by
    intro l hl b hbl; simp at hl; subst hl; exact (hb b hbl).1
  exact ⟨ginv_init _ K h bl [bs] hK hh hb1,
    Or.inl ⟨rfl, serAll_init k K h bl [bs] hK hh hb1, swinv_init _ K h bl bs (fun b hbm => (hb b hbm).2)⟩⟩

/-- a writer that has returned from all its `write` calls holds no batch -/
def TodoDone (x : MSt) : Prop := ∀ a, (x.wr a).pc = .done → (x.wr a).todo = []

theorem todoDone_stepWriter (x : MSt) (i : Nat) (h : TodoDone x) : TodoDone (stepWriter x i) := by
  intro a ha
  by_cases he : a = i
  · subst he
    have := h a
    revert ha
    unfold stepWriter
    cases hpc : (x.wr a).pc <;> simp only [hpc] <;> (repeat' split) <;> simp_all [updW_same]
  · rw [stepWriter_others x i a he] at ha ⊢; exact h a ha

theorem todoDone_stepM (x : MSt) (t : MTid) (h : TodoDone x) : TodoDone (stepM x t) := by
  cases t with
  | writer i =>
    simp only [stepM]; split
    · exact todoDone_stepWriter x i h
    · exact h
  | drainer =>
    obtain ⟨_, _, _, _, _, _, ewr, _, _⟩ := stepDrainer_frame2 x
    show TodoDone (stepDrainer x)
    intro a ha; rw [ewr] at ha ⊢; exact h a ha
  | cons k j =>
    simp only [stepM]; split
    · exact h
    · exact h

theorem todoDone_frun (σ : Nat → MTid) (x0 : MSt) (h : TodoDone x0) : ∀ i, TodoDone (Fair.run stepM σ x0 i) := by
  intro i
  induction i with
  | zero => exact h
  | succ i ih => exact todoDone_stepM _ _ ih

end RingMulti
