import DcVerif.Lemmas.RingMultiLive
/-!
# Liveness of the multi-producer pipeline, spin wait strategy

Instantiation of `Fair.fair_termination` (weak fairness) for `Model/RingMulti.lean` under the liveness invariant `LJ`
(one writer thread, or all writers done and nothing stranded): `SpinM.exists_ready` (no deadlock in the strong sense),
`SpinM.terminates`.
-/
namespace RingMulti
open Ring
namespace SpinM

structure LS (x : MSt) : Prop where
  lj   : LJ x
  spin : x.s.blocking = false

theorem ls_stepM (x : MSt) (t : MTid) (h : LS x) : LS (stepM x t) :=
  ⟨lj_stepM x t h.lj, by rw [(topo_stepM x t).2.2.2.2]; exact h.spin⟩

def ready (x : MSt) : MTid → Prop
  | .writer i => i < x.P ∧ readyW x i
  | .drainer => readyD x
  | .cons k j => k < x.s.K ∧ j < x.s.h k ∧ Spin.readyC x.s k (x.s.cons k j)

noncomputable def rank : MTid → MSt → Nat
  | .writer i, x => rankW (ngate x.s) x.s.n (x.wr i)
  | .drainer, x => rankD x
  | .cons k j, x => CS.rankS x.s k j

/-- **no deadlock, strong form** (spin): in every non-terminal state some thread of the configuration is ready -/
theorem exists_ready (x : MSt) (h : LS x) (hnt : ¬ terminalM x) : ∃ t, inTopoM x.P x.s.K x.s.h t ∧ ready x t := by
  apply Classical.byContradiction; intro hno
  have hnoW : ∀ i, i < x.P → ¬ readyW x i := fun i hi hr => hno ⟨.writer i, hi, hi, hr⟩
  have hnoD : ¬ readyD x := fun hr => hno ⟨.drainer, trivial, hr⟩
  have hnoC : ∀ k j, k < x.s.K → j < x.s.h k → ¬ Spin.readyC x.s k (x.s.cons k j) :=
    fun k j hk hj hr => hno ⟨.cons k j, ⟨hk, hj⟩, hk, hj, hr⟩
  have hM := h.lj.g.mtx
  have hI := h.lj.g.good.2.1
  have hK := h.lj.g.good.2.2
  by_cases hd : x.s.isDone = true
  · apply hnoD
    apply drainer_ready_after_done x h.lj.g hd _ hnt
    intro k j hk hj
    have := hnoC k j hk hj
    have hsp := hM.spinC h.spin k j hk hj
    cases hpc : (x.s.cons k j).pc <;> simp [Spin.readyC, hpc, hd, Spin.cSpin] at this hsp ⊢
  · have hw : ∀ k j, k < x.s.K → j < x.s.h k → ¬ condC x.s k (x.s.cons k j) := by
      intro k j hk hj hc
      have := hnoC k j hk hj
      have hsp := hM.spinC h.spin k j hk hj
      cases hpc : (x.s.cons k j).pc <;> simp [Spin.readyC, hpc, hc, hd, Spin.cSpin] at this hsp
      · exact hd (hM.consDone k j hk hj (Or.inl hpc))
    have hall := all_caught_up x.s hI hw
    have hg : ∀ d, d < ngate x.s → gate x.s d = x.s.cursor := by
      intro d hd'; exact hall (x.s.K - 1) d (by omega) (by simpa [ngate] using hd')
    rcases prod_side_ready x h.lj hg hd with ⟨i, hi, hr⟩ | hr
    · exact hnoW i hi hr
    · exact hnoD hr

theorem μ_mono (x : MSt) (t : MTid) (h : LS x) : μmain (stepM x t) ≤ μmain x := by
  cases t with
  | writer i =>
    simp only [stepM]; split
    · rename_i hi; exact (μmain_stepWriter x i hi h.lj.g.good.1).1
    · exact Nat.le_refl _
  | drainer => exact (μmain_stepDrainer x).1
  | cons k j =>
    simp only [stepM]; split
    · rename_i hv; exact (μmain_stepCons x k j hv.1 hv.2 h.lj.g.good.2.1 (cursor_le_fin x h.lj)).1
    · exact Nat.le_refl _

/-- a ready thread's own step: progress (`μ` drops) or its rank drops and it stays ready -/
theorem hown (x : MSt) (t : MTid) (h : LS x) (hr : ready x t) :
    μmain (stepM x t) < μmain x ∨ (rank t (stepM x t) < rank t x ∧ ready (stepM x t) t) := by
  have hM := h.lj.g.mtx
  cases t with
  | writer i =>
    obtain ⟨hi, hrw⟩ := hr
    rcases h.lj.ph with ⟨hP, hS, hW⟩ | ⟨hd, _⟩
    · have hi0 : i = 0 := by omega
      subst hi0
      have hstep : stepM x (.writer 0) = stepWriter x 0 := by simp [stepM, hi]
      rw [hstep]
      have he : enabledM x (.writer 0) = true := by
        have := hM.spinW h.spin 0 hi
        unfold readyW at hrw
        cases hpc : (x.wr 0).pc <;> simp_all [enabledM, wSpin]
      rcases hown_writer x h.lj.g hP hS hW hrw he with hlt | ⟨hrk, hrd⟩
      · exact Or.inl ((μmain_stepWriter x 0 hi h.lj.g.good.1).2 hlt)
      · right
        obtain ⟨_, eK, eh, en, _, _, _, eP⟩ := stepWriter_frame x 0
        refine ⟨?_, by rw [eP]; exact hi, hrd⟩
        show rankW (ngate (stepWriter x 0).s) (stepWriter x 0).s.n _ < _
        rw [(stepWriter_gate x 0).1, en]; exact hrk
    · have := writers_done_of x h.lj.g hd i hi
      simp [readyW, this] at hrw
  | drainer =>
    have hrd : readyD x := hr
    have he : enF x .drainer = true := by
      have := hM.spinD h.spin
      unfold readyD at hrd
      cases hpc : x.dr.pc <;> simp_all [enF, enabledM, dSpin]
    rcases hown_drainer x h.lj.g hrd he with hlt | ⟨hpc, _, _⟩ | ⟨hrk, hrd'⟩
    · exact Or.inl ((μmain_stepDrainer x).2 hlt)
    · have := hM.spinD h.spin; simp [hpc, dSpin] at this
    · exact Or.inr ⟨hrk, hrd'⟩
  | cons k j =>
    obtain ⟨hk, hj, hrc⟩ := hr
    have hstep : stepM x (.cons k j) = { x with s := stepC x.s k j } := by simp [stepM, hk, hj]
    rw [hstep]
    rcases CS.spin_hown x.s h.lj.g.good.2.1 h.spin k j hk hj hrc with hp | ⟨hrk, hrd⟩
    · exact Or.inl ((μmain_stepCons x k j hk hj h.lj.g.good.2.1 (cursor_le_fin x h.lj)).2 hp)
    · exact Or.inr ⟨hrk, hk, hj, hrd⟩

/-- a writer step is a progress event, or leaves the cursor and the high watermark alone -/
theorem writer_quiet (x : MSt) (i : Nat) :
    wW ((stepWriter x i).wr i) < wW (x.wr i) ∨
    ((stepWriter x i).s.cursor = x.s.cursor ∧ (stepWriter x i).hw = x.hw ∧
      ((stepWriter x i).s.woken = x.s.woken ∨ (stepWriter x i).s.woken = fun _ _ => true)) := by
  unfold stepWriter
  cases hpc : (x.wr i).pc <;> simp only [hpc] <;> (repeat' split) <;>
    simp_all [wW, phaseW, updW_same] <;> omega

theorem not_owedParked_spin (s : St) (hs : s.blocking = false) : ¬ CS.owedParked s := by
  rintro ⟨_, _, _, _, _, hb, _⟩
  rw [hs] at hb; cases hb

/-- any other thread's step: `μ` drops, or the ready thread's rank and readiness are untouched -/
theorem hoth (x : MSt) (t u : MTid) (h : LS x) (hne : u ≠ t) (hr : ready x t) :
    μmain (stepM x u) < μmain x ∨ (rank t (stepM x u) ≤ rank t x ∧ ready (stepM x u) t) := by
  have hI := h.lj.g.good.2.1
  cases u with
  | writer i =>
    by_cases hi : i < x.P
    · have hstep : stepM x (.writer i) = stepWriter x i := by simp [stepM, hi]
      rw [hstep]
      rcases writer_quiet x i with hlt | ⟨q1, q2, _⟩
      · exact Or.inl ((μmain_stepWriter x i hi h.lj.g.good.1).2 hlt)
      · right
        obtain ⟨ec, eK, eh, en, ebl, edn, edr, eP⟩ := stepWriter_frame x i
        obtain ⟨hng, hg⟩ := stepWriter_gate x i
        cases t with
        | writer i' =>
          obtain ⟨hi', hrw⟩ := hr
          have hne' : i' ≠ i := fun e => hne (by rw [e])
          have := writer_frame x (stepWriter x i) i' (stepWriter_others x i i' hne') q2 hng hg en hrw
          exact ⟨Nat.le_of_eq this.1, by rw [eP]; exact hi', this.2⟩
        | drainer =>
          have hrd : readyD x := hr
          have := drainer_frame x (stepWriter x i) edr
            (fun hwd => by rw [← hstep, stepM_writer_done x i hwd]; exact hwd) hng hg
            (fun hop => absurd hop (not_owedParked_spin x.s h.spin)) hrd
          exact ⟨Nat.le_of_eq this.1, this.2⟩
        | cons k j =>
          obtain ⟨hk, hj, hrc⟩ := hr
          have := CS.spin_frame x.s (stepWriter x i).s k j (by rw [ec]) (by rw [ec]; intros; rfl) q1 edn eh hrc
          exact ⟨Nat.le_of_eq this.1, by rw [eK]; exact hk, by rw [eh]; exact hj, this.2⟩
    · right
      have : stepM x (.writer i) = x := by simp [stepM, hi]
      rw [this]; exact ⟨Nat.le_refl _, hr⟩
  | drainer =>
    show μmain (stepDrainer x) < μmain x ∨ _
    rcases phaseD_step x with hlt | ⟨_, hdn⟩
    · exact Or.inl ((μmain_stepDrainer x).2 hlt)
    · right
      obtain ⟨ec, eK, eh, en, ebl, ecur, ewr, eP, ehw⟩ := stepDrainer_frame2 x
      obtain ⟨hng, hg⟩ := stepDrainer_gate x
      cases t with
      | writer i' =>
        obtain ⟨hi', hrw⟩ := hr
        have := writer_frame x (stepDrainer x) i' (by rw [ewr]) ehw hng hg en hrw
        exact ⟨Nat.le_of_eq this.1, by show i' < (stepDrainer x).P; rw [eP]; exact hi', this.2⟩
      | drainer => exact absurd rfl hne
      | cons k j =>
        obtain ⟨hk, hj, hrc⟩ := hr
        have := CS.spin_frame x.s (stepDrainer x).s k j (by rw [ec]) (by rw [ec]; intros; rfl) ecur hdn eh hrc
        exact ⟨Nat.le_of_eq this.1, by show k < (stepDrainer x).s.K; rw [eK]; exact hk,
          by show j < (stepDrainer x).s.h k; rw [eh]; exact hj, this.2⟩
  | cons a b =>
    by_cases hv : a < x.s.K ∧ b < x.s.h a
    · have hstep : stepM x (.cons a b) = { x with s := stepC x.s a b } := by simp [stepM, hv]
      rw [hstep]
      have hci := hI.2 a b hv.1 hv.2
      rcases Classical.em (progressC (x.s.cons a b) (stepCons x.s a b (x.s.cons a b))) with hp | hnp
      · exact Or.inl ((μmain_stepCons x a b hv.1 hv.2 hI (cursor_le_fin x h.lj)).2 hp)
      · right
        have hcur := cons_step_cur x.s a b _ hci hnp
        cases t with
        | writer i' =>
          obtain ⟨hi', hrw⟩ := hr
          have := writer_frame x { x with s := stepC x.s a b } i' rfl rfl rfl (CS.gate_stepC x.s a b hcur) rfl hrw
          exact ⟨Nat.le_of_eq this.1, hi', this.2⟩
        | drainer =>
          have hrd : readyD x := hr
          have := drainer_frame x { x with s := stepC x.s a b } rfl (fun hwd => hwd) rfl (CS.gate_stepC x.s a b hcur)
            (fun hop => absurd hop (not_owedParked_spin x.s h.spin)) hrd
          exact ⟨Nat.le_of_eq this.1, this.2⟩
        | cons k j =>
          obtain ⟨hk, hj, hrc⟩ := hr
          have hne' : ¬(k = a ∧ j = b) := by
            intro he; apply hne; rw [he.1, he.2]
          have := CS.spin_frame x.s (stepC x.s a b) k j (stepC_other _ _ _ _ _ hne') (CS.stepC_cur_same x.s a b hcur)
            rfl rfl rfl hrc
          exact ⟨Nat.le_of_eq this.1, hk, hj, this.2⟩
    · right
      have : stepM x (.cons a b) = x := by simp [stepM, hv]
      rw [this]; exact ⟨Nat.le_refl _, hr⟩

/-- **C06 core (multi-producer sequencer, spin wait)**: from every state satisfying the liveness invariant — one writer
thread whose batches are smaller than the ring, or all writers done with nothing stranded — every schedule in which every
thread of the configuration occurs infinitely often reaches the state where every writer has returned from all `write`
calls, `drain` has returned and every handler thread has terminated. -/
theorem terminates (x0 : MSt) (h0 : LS x0) (σ : Nat → MTid)
    (hf : Fair.WeakFair (inTopoM x0.P x0.s.K x0.s.h) σ) :
    ∃ n, terminalM (Fair.run stepM σ x0 n) := by
  apply Fair.fair_termination stepM (inTopoM x0.P x0.s.K x0.s.h)
    (fun x => LS x ∧ x.P = x0.P ∧ x.s.K = x0.s.K ∧ x.s.h = x0.s.h) terminalM ready μmain rank
  · intro s t ⟨hs, e0, e1, e2⟩
    obtain ⟨f1, f2, _, f0, _⟩ := topo_stepM s t
    exact ⟨ls_stepM s t hs, by rw [f0, e0], by rw [f1, e1], by rw [f2, e2]⟩
  · intro s t hs; exact μ_mono s t hs.1
  · intro s ⟨hs, e0, e1, e2⟩ hnt
    obtain ⟨t, ht, hr⟩ := exists_ready s hs hnt
    exact ⟨t, by rw [← e0, ← e1, ← e2]; exact ht, hr⟩
  · intro s t hs hr; exact hown s t hs.1 hr
  · intro s t u hs hne hr; exact hoth s t u hs.1 hne hr
  · exact ⟨h0, rfl, rfl, rfl⟩
  · exact hf

end SpinM
end RingMulti
