import DcVerif.Lemmas.RingMultiLive
/-!
# Liveness of the multi-producer pipeline, blocking wait strategy

Instantiation of `Fair.fair_termination_sf` (weak fairness + strong fairness) for `Model/RingMulti.lean` under the liveness
invariant `LJ` (one writer thread, or all writers done and nothing stranded): measure
`μ = (2·#handlers + 1)·remaining work + outstanding wake-ups`, readiness, ranks, "the owner of the mutex releases it after
`hrank` own steps", `BlkM.exists_ready` (no deadlock in the strong sense), `BlkM.terminates`;
`BlkM.strongFair_of_lockFair` reduces strong fairness of all steps to weak fairness + strong fairness of lock steps.
-/
namespace RingMulti
open Ring
namespace BlkM

structure LB (x : MSt) : Prop where
  lj  : LJ x
  blk : x.s.blocking = true

theorem lb_stepM (x : MSt) (t : MTid) (h : LB x) : LB (stepM x t) :=
  ⟨lj_stepM x t h.lj, by rw [(topo_stepM x t).2.2.2.2]; exact h.blk⟩

/-- the global measure: remaining work, weighted so that one unit of work outweighs all outstanding wake-ups -/
noncomputable def μ (x : MSt) : Nat := (CS.bnd x.s + 1) * μmain x + CS.owedW x.s

theorem bnd_stepM (x : MSt) (t : MTid) : CS.bnd (stepM x t).s = CS.bnd x.s := by
  obtain ⟨eK, eh, _⟩ := topo_stepM x t
  exact CS.bnd_congr _ _ eK eh

theorem μ_lt_of_main (x x' : MSt) (hb : CS.bnd x'.s = CS.bnd x.s) (hm : μmain x' < μmain x) : μ x' < μ x := by
  have h1 := CS.owedW_le_bnd x'.s
  have h2 : (CS.bnd x.s + 1) * (μmain x' + 1) ≤ (CS.bnd x.s + 1) * μmain x := Nat.mul_le_mul_left _ hm
  rw [Nat.mul_succ] at h2
  simp only [μ, hb]
  omega

theorem μ_lt_of_ow (x x' : MSt) (hb : CS.bnd x'.s = CS.bnd x.s) (hm : μmain x' ≤ μmain x)
    (ho : CS.owedW x'.s < CS.owedW x.s) : μ x' < μ x := by
  have h2 : (CS.bnd x.s + 1) * μmain x' ≤ (CS.bnd x.s + 1) * μmain x := Nat.mul_le_mul_left _ hm
  simp only [μ, hb]
  omega

theorem μ_le_of (x x' : MSt) (hb : CS.bnd x'.s = CS.bnd x.s) (hm : μmain x' ≤ μmain x)
    (ho : μmain x' < μmain x ∨ CS.owedW x'.s ≤ CS.owedW x.s) : μ x' ≤ μ x := by
  rcases ho with ho | ho
  · exact Nat.le_of_lt (μ_lt_of_main x x' hb ho)
  · have h2 : (CS.bnd x.s + 1) * μmain x' ≤ (CS.bnd x.s + 1) * μmain x := Nat.mul_le_mul_left _ hm
    simp only [μ, hb]
    omega

/-- a writer step is a progress event, or leaves the cursor and the high watermark alone and touches the wake-up flags
only by setting all of them -/
theorem writer_quiet (x : MSt) (i : Nat) :
    wW ((stepWriter x i).wr i) < wW (x.wr i) ∨
    ((stepWriter x i).s.cursor = x.s.cursor ∧ (stepWriter x i).hw = x.hw ∧
      ((stepWriter x i).s.woken = x.s.woken ∨ (stepWriter x i).s.woken = fun _ _ => true)) := by
  unfold stepWriter
  cases hpc : (x.wr i).pc <;> simp only [hpc] <;> (repeat' split) <;>
    simp_all [wW, phaseW, updW_same] <;> omega

theorem drainer_quiet (x : MSt) :
    phaseD (stepDrainer x).dr.pc < phaseD x.dr.pc ∨
    ((stepDrainer x).s.isDone = x.s.isDone ∧
      ((stepDrainer x).s.woken = x.s.woken ∨ (stepDrainer x).s.woken = fun _ _ => true)) := by
  unfold stepDrainer
  cases hpc : x.dr.pc <;> simp only [hpc] <;> (repeat' split) <;> simp_all [phaseD]

/-- the measure never increases -/
theorem μ_mono (x : MSt) (t : MTid) (h : LB x) : μ (stepM x t) ≤ μ x := by
  have hb := bnd_stepM x t
  cases t with
  | writer i =>
    by_cases hi : i < x.P
    · have hstep : stepM x (.writer i) = stepWriter x i := by simp [stepM, hi]
      rw [hstep] at hb ⊢
      obtain ⟨h1, h2⟩ := μmain_stepWriter x i hi h.lj.g.good.1
      apply μ_le_of x _ hb h1
      rcases writer_quiet x i with hlt | ⟨q1, _, q3⟩
      · exact Or.inl (h2 hlt)
      · obtain ⟨ec, eK, eh, en, ebl, edn, edr, eP⟩ := stepWriter_frame x i
        exact Or.inr (CS.owedW_frame_le x.s _ ec q1 edn eK eh ebl q3)
    · have : stepM x (.writer i) = x := by simp [stepM, hi]
      rw [this]; exact Nat.le_refl _
  | drainer =>
    obtain ⟨h1, h2⟩ := μmain_stepDrainer x
    apply μ_le_of x _ hb h1
    rcases drainer_quiet x with hlt | ⟨q1, q2⟩
    · exact Or.inl (h2 hlt)
    · obtain ⟨ec, eK, eh, en, ebl, ecur, ewr, eP, ehw⟩ := stepDrainer_frame2 x
      exact Or.inr (CS.owedW_frame_le x.s _ ec ecur q1 eK eh ebl q2)
  | cons k j =>
    by_cases hv : k < x.s.K ∧ j < x.s.h k
    · have hstep : stepM x (.cons k j) = { x with s := stepC x.s k j } := by simp [stepM, hv]
      rw [hstep] at hb ⊢
      have hI := h.lj.g.good.2.1
      obtain ⟨h1, h2⟩ := μmain_stepCons x k j hv.1 hv.2 hI (cursor_le_fin x h.lj)
      apply μ_le_of x _ hb h1
      by_cases hp : (x.s.cons k j).pc = .publish
      · exact Or.inl (h2 (CS.publish_progress x.s k j hv.1 hv.2 hI hp))
      · exact Or.inr (CS.owedW_cons_le x.s hI k j hv.1 hv.2 hp)
    · have : stepM x (.cons k j) = x := by simp [stepM, hv]
      rw [this]; exact Nat.le_refl _

/-! ### readiness and ranks -/

def ready (x : MSt) : MTid → Prop
  | .writer i => i < x.P ∧ readyW x i
  | .drainer => readyD x
  | .cons k j => k < x.s.K ∧ j < x.s.h k ∧ CS.readyC x.s k j

noncomputable def rank : MTid → MSt → Nat
  | .writer i, x => rankW (ngate x.s) x.s.n (x.wr i)
  | .drainer, x => rankD x
  | .cons k j, x => CS.rankC x.s k j

/-- a parked handler that is owed a wake-up has a notifier, and that notifier is ready -/
theorem notifier_ready (x : MSt) (h : LB x) (hop : CS.owedParked x.s) : ∃ t, inTopoM x.P x.s.K x.s.h t ∧ ready x t := by
  obtain ⟨k, j, hk, hj, hpc, ho⟩ := hop
  have hop : CS.owedParked x.s := ⟨k, j, hk, hj, hpc, ho⟩
  rcases h.lj.g.nlw k j hk hj ho with hp | ⟨i, hi, hp⟩ | ⟨a, b, ha, hb, hc⟩
  · refine ⟨.drainer, trivial, ?_⟩
    show readyD x
    cases hpp : x.dr.pc <;> simp only [hpp, dPend] at hp <;> simp_all [readyD]
  · refine ⟨.writer i, hi, hi, ?_⟩
    cases hpp : (x.wr i).pc <;> simp only [hpp, wPend] at hp <;> simp_all [readyW]
  · refine ⟨.cons a b, ⟨ha, hb⟩, ha, hb, ?_⟩
    unfold CS.readyC
    cases hpp : (x.s.cons a b).pc <;> simp only [hpp, cPend] at hc <;> simp_all

/-- **no deadlock, strong form** (blocking strategy): in every non-terminal state some thread of the configuration is ready -/
theorem exists_ready (x : MSt) (h : LB x) (hnt : ¬ terminalM x) : ∃ t, inTopoM x.P x.s.K x.s.h t ∧ ready x t := by
  apply Classical.byContradiction; intro hno
  have hnoW : ∀ i, i < x.P → ¬ readyW x i := fun i hi hr => hno ⟨.writer i, hi, hi, hr⟩
  have hnoD : ¬ readyD x := fun hr => hno ⟨.drainer, trivial, hr⟩
  have hnoC : ∀ k j, k < x.s.K → j < x.s.h k → ¬ CS.readyC x.s k j :=
    fun k j hk hj hr => hno ⟨.cons k j, ⟨hk, hj⟩, hk, hj, hr⟩
  have hnoOP : ¬ CS.owedParked x.s := fun hop => hno (notifier_ready x h hop)
  have hM := h.lj.g.mtx
  have hI := h.lj.g.good.2.1
  have hK := h.lj.g.good.2.2
  -- no handler's wait is over (unless it has finished)
  have hw : ∀ k j, k < x.s.K → j < x.s.h k → (x.s.cons k j).pc ≠ .done → ¬ Blk.condCD x.s k j := by
    intro k j hk hj hnd hc
    rcases CS.cons_ready_of_cond x.s h.blk k j (hM.blkC h.blk k j hk hj).2 hnd hc with hr | ⟨hp, ho⟩
    · exact hnoC k j hk hj hr
    · exact hnoOP ⟨k, j, hk, hj, hp, ho⟩
  by_cases hd : x.s.isDone = true
  · apply hnoD
    apply drainer_ready_after_done x h.lj.g hd _ hnt
    intro k j hk hj
    apply Classical.byContradiction; intro hnd
    exact hw k j hk hj hnd (Or.inr hd)
  · have hnd : ∀ k j, k < x.s.K → j < x.s.h k → (x.s.cons k j).pc ≠ .done :=
      fun k j hk hj hpc => hd (hM.consDone k j hk hj (Or.inl hpc))
    have hw' : ∀ k j, k < x.s.K → j < x.s.h k → ¬ condC x.s k (x.s.cons k j) :=
      fun k j hk hj hc => hw k j hk hj (hnd k j hk hj) (Or.inl hc)
    have hall := all_caught_up x.s hI hw'
    have hg : ∀ d, d < ngate x.s → gate x.s d = x.s.cursor := by
      intro d hd'; exact hall (x.s.K - 1) d (by omega) (by simpa [ngate] using hd')
    rcases prod_side_ready x h.lj hg hd with ⟨i, hi, hr⟩ | hr
    · exact hnoW i hi hr
    · exact hnoD hr

/-- a disabled step is a stutter -/
theorem stutter (x : MSt) (t : MTid) (he : enF x t = false) : stepM x t = x := by
  cases t with
  | writer i =>
    simp only [stepM]; split
    · unfold stepWriter
      cases hm : x.s.mtx <;> cases hpc : (x.wr i).pc <;> simp only [enF, enabledM, hpc, hm] at he <;> (try cases he) <;>
        simp [hpc, hm]
    · rfl
  | drainer =>
    show stepDrainer x = x
    unfold stepDrainer
    cases hm : x.s.mtx <;> cases hpc : x.dr.pc <;> simp only [enF, enabledM, hpc, hm] at he <;> (try cases he) <;>
      simp [hpc, hm]
  | cons k j =>
    simp only [stepM]; split
    · have : stepC x.s k j = x.s := CS.stutter_cons x.s k j he
      rw [this]
    · rfl

open Classical in
/-- a ready thread's own enabled step: progress (`μ` drops) or its rank drops and it stays ready -/
theorem hown (x : MSt) (t : MTid) (h : LB x) (hr : ready x t) (he : enF x t = true) :
    μ (stepM x t) < μ x ∨ (rank t (stepM x t) < rank t x ∧ ready (stepM x t) t) := by
  have hb := bnd_stepM x t
  have hI := h.lj.g.good.2.1
  cases t with
  | writer i =>
    obtain ⟨hi, hrw⟩ := hr
    rcases h.lj.ph with ⟨hP, hS, hW⟩ | ⟨hd, _⟩
    · have hi0 : i = 0 := by omega
      subst hi0
      have hstep : stepM x (.writer 0) = stepWriter x 0 := by simp [stepM, hi]
      rw [hstep] at hb ⊢
      rcases hown_writer x h.lj.g hP hS hW hrw he with hlt | ⟨hrk, hrd⟩
      · exact Or.inl (μ_lt_of_main x _ hb ((μmain_stepWriter x 0 hi h.lj.g.good.1).2 hlt))
      · right
        obtain ⟨_, eK, eh, en, _, _, _, eP⟩ := stepWriter_frame x 0
        refine ⟨?_, by rw [eP]; exact hi, hrd⟩
        show rankW (ngate (stepWriter x 0).s) (stepWriter x 0).s.n _ < _
        rw [(stepWriter_gate x 0).1, en]; exact hrk
    · have := writers_done_of x h.lj.g hd i hi
      simp [readyW, this] at hrw
  | drainer =>
    have hrd : readyD x := hr
    rcases hown_drainer x h.lj.g hrd he with hlt | ⟨hpc, hnc, a, b, ha, hb', hpa, hoa⟩ | ⟨hrk, hrd'⟩
    · exact Or.inl (μ_lt_of_main x _ hb ((μmain_stepDrainer x).2 hlt))
    · left
      obtain ⟨ec, eK, eh, en, ebl, ecur, ewr, eP, ehw⟩ := stepDrainer_frame2 x
      have e : stepDrainer x = { x with s := { x.s with woken := fun _ _ => true }, dr := { x.dr with pc := .dUnlock } } := by
        simp [stepDrainer, hpc]
      apply μ_lt_of_ow x _ hb (μmain_stepDrainer x).1
      apply CS.owedW_frame_lt x.s (stepDrainer x).s ec ecur (by rw [e]) eK eh ebl (Or.inr (by rw [e])) a b ha hb'
      have hno : ¬ owed (stepDrainer x).s a b := by
        intro ⟨_, _, hp⟩
        unfold parkish at hp
        rw [e] at hp
        simp [hpa] at hp
      simp [CS.ow, hoa, hno, hpa]
    · exact Or.inr ⟨hrk, hrd'⟩
  | cons k j =>
    obtain ⟨hk, hj, hrc⟩ := hr
    have hstep : stepM x (.cons k j) = { x with s := stepC x.s k j } := by simp [stepM, hk, hj]
    rw [hstep] at hb ⊢
    obtain ⟨m1, m2⟩ := μmain_stepCons x k j hk hj hI (cursor_le_fin x h.lj)
    rcases CS.hown_cons x.s hI h.blk k j hk hj hrc he with (hp | ⟨hnp, a, b, ha, hb', hlt⟩) | ⟨hrk, hrd⟩
    · exact Or.inl (μ_lt_of_main x _ hb (m2 hp))
    · exact Or.inl (μ_lt_of_ow x _ hb m1 (CS.owedW_cons_lt x.s hI k j hk hj hnp a b ha hb' hlt))
    · exact Or.inr ⟨hrk, hk, hj, hrd⟩

open Classical in
/-- any other thread's step (or a disabled step of the thread itself): `μ` drops, or the ready thread's rank and
readiness are untouched -/
theorem hoth (x : MSt) (t u : MTid) (h : LB x) (hr : ready x t) (hu : u ≠ t ∨ ¬ enF x t = true) :
    μ (stepM x u) < μ x ∨ (rank t (stepM x u) ≤ rank t x ∧ ready (stepM x u) t) := by
  by_cases hut : u = t
  · subst hut
    have hen : enF x u = false := by
      rcases hu with hu | hu
      · exact absurd rfl hu
      · simpa using hu
    rw [stutter x u hen]; exact Or.inr ⟨Nat.le_refl _, hr⟩
  have hb := bnd_stepM x u
  have hI := h.lj.g.good.2.1
  cases u with
  | writer i =>
    by_cases hi : i < x.P
    · have hstep : stepM x (.writer i) = stepWriter x i := by simp [stepM, hi]
      rw [hstep] at hb ⊢
      obtain ⟨m1, m2⟩ := μmain_stepWriter x i hi h.lj.g.good.1
      rcases writer_quiet x i with hlt | ⟨q1, q2, q3⟩
      · exact Or.inl (μ_lt_of_main x _ hb (m2 hlt))
      · obtain ⟨ec, eK, eh, en, ebl, edn, edr, eP⟩ := stepWriter_frame x i
        obtain ⟨hng, hg⟩ := stepWriter_gate x i
        have hopd : (CS.owedParked x.s → CS.owedParked (stepWriter x i).s) ∨ μ (stepWriter x i) < μ x := by
          by_cases hop : CS.owedParked x.s
          · rcases CS.owedParked_frame x.s _ ec q1 edn eK eh ebl q3 hop with h1 | ⟨a, b, ha, hb', hlt⟩
            · exact Or.inl (fun _ => h1)
            · exact Or.inr (μ_lt_of_ow x _ hb m1 (CS.owedW_frame_lt x.s _ ec q1 edn eK eh ebl q3 a b ha hb' hlt))
          · exact Or.inl (fun hh => absurd hh hop)
        rcases hopd with hop | hdrop
        · right
          cases t with
          | writer i' =>
            obtain ⟨hi', hrw⟩ := hr
            have hne' : i' ≠ i := fun e => hut (by rw [e])
            have := writer_frame x (stepWriter x i) i' (stepWriter_others x i i' hne') q2 hng hg en hrw
            exact ⟨Nat.le_of_eq this.1, by rw [eP]; exact hi', this.2⟩
          | drainer =>
            have hrd : readyD x := hr
            have := drainer_frame x (stepWriter x i) edr
              (fun hwd => by rw [← hstep, stepM_writer_done x i hwd]; exact hwd) hng hg hop hrd
            exact ⟨Nat.le_of_eq this.1, this.2⟩
          | cons k j =>
            obtain ⟨hk, hj, hrc⟩ := hr
            have := CS.cons_frame x.s (stepWriter x i).s k j (by rw [ec]) (by rw [ec]; intros; rfl) q1 edn eh ebl
              (by rcases q3 with q3 | q3 <;> rw [q3] <;> simp) hop hrc
            exact ⟨Nat.le_of_eq this.1, by rw [eK]; exact hk, by rw [eh]; exact hj, this.2⟩
        · exact Or.inl hdrop
    · right
      have : stepM x (.writer i) = x := by simp [stepM, hi]
      rw [this]; exact ⟨Nat.le_refl _, hr⟩
  | drainer =>
    show μ (stepDrainer x) < μ x ∨ _
    have hb : CS.bnd (stepDrainer x).s = CS.bnd x.s := hb
    obtain ⟨m1, m2⟩ := μmain_stepDrainer x
    rcases drainer_quiet x with hlt | ⟨q1, q2⟩
    · exact Or.inl (μ_lt_of_main x _ hb (m2 hlt))
    · obtain ⟨ec, eK, eh, en, ebl, ecur, ewr, eP, ehw⟩ := stepDrainer_frame2 x
      obtain ⟨hng, hg⟩ := stepDrainer_gate x
      have hopd : (CS.owedParked x.s → CS.owedParked (stepDrainer x).s) ∨ μ (stepDrainer x) < μ x := by
        by_cases hop : CS.owedParked x.s
        · rcases CS.owedParked_frame x.s _ ec ecur q1 eK eh ebl q2 hop with h1 | ⟨a, b, ha, hb', hlt⟩
          · exact Or.inl (fun _ => h1)
          · exact Or.inr (μ_lt_of_ow x _ hb m1 (CS.owedW_frame_lt x.s _ ec ecur q1 eK eh ebl q2 a b ha hb' hlt))
        · exact Or.inl (fun hh => absurd hh hop)
      rcases hopd with hop | hdrop
      · right
        cases t with
        | writer i' =>
          obtain ⟨hi', hrw⟩ := hr
          have := writer_frame x (stepDrainer x) i' (by rw [ewr]) ehw hng hg en hrw
          exact ⟨Nat.le_of_eq this.1, by show i' < (stepDrainer x).P; rw [eP]; exact hi', this.2⟩
        | drainer => exact absurd rfl hut
        | cons k j =>
          obtain ⟨hk, hj, hrc⟩ := hr
          have := CS.cons_frame x.s (stepDrainer x).s k j (by rw [ec]) (by rw [ec]; intros; rfl) ecur q1 eh ebl
            (by rcases q2 with q2 | q2 <;> rw [q2] <;> simp) hop hrc
          exact ⟨Nat.le_of_eq this.1, by show k < (stepDrainer x).s.K; rw [eK]; exact hk,
            by show j < (stepDrainer x).s.h k; rw [eh]; exact hj, this.2⟩
      · exact Or.inl hdrop
  | cons a b =>
    by_cases hv : a < x.s.K ∧ b < x.s.h a
    · have hstep : stepM x (.cons a b) = { x with s := stepC x.s a b } := by simp [stepM, hv]
      rw [hstep] at hb ⊢
      obtain ⟨m1, m2⟩ := μmain_stepCons x a b hv.1 hv.2 hI (cursor_le_fin x h.lj)
      by_cases hp : (x.s.cons a b).pc = .publish
      · exact Or.inl (μ_lt_of_main x _ hb (m2 (CS.publish_progress x.s a b hv.1 hv.2 hI hp)))
      have hcur := Blk.cons_cur_nonpublish x.s a b _ hp
      have hopd : (CS.owedParked x.s → CS.owedParked (stepC x.s a b)) ∨
          μ { x with s := stepC x.s a b } < μ x := by
        by_cases hop : CS.owedParked x.s
        · rcases CS.owedParked_cons_step x.s a b hp hop with h1 | ⟨a', b', ha, hb', hlt⟩
          · exact Or.inl (fun _ => h1)
          · exact Or.inr (μ_lt_of_ow x _ hb m1 (CS.owedW_cons_lt x.s hI a b hv.1 hv.2 hp a' b' ha hb' hlt))
        · exact Or.inl (fun hh => absurd hh hop)
      rcases hopd with hop | hdrop
      · right
        cases t with
        | writer i' =>
          obtain ⟨hi', hrw⟩ := hr
          have := writer_frame x { x with s := stepC x.s a b } i' rfl rfl rfl (CS.gate_stepC x.s a b hcur) rfl hrw
          exact ⟨Nat.le_of_eq this.1, hi', this.2⟩
        | drainer =>
          have hrd : readyD x := hr
          have := drainer_frame x { x with s := stepC x.s a b } rfl (fun hwd => hwd) rfl (CS.gate_stepC x.s a b hcur)
            hop hrd
          exact ⟨Nat.le_of_eq this.1, this.2⟩
        | cons k j =>
          obtain ⟨hk, hj, hrc⟩ := hr
          have hne : ¬(k = a ∧ j = b) := by
            intro he; apply hut; rw [he.1, he.2]
          have := CS.cons_frame x.s (stepC x.s a b) k j (stepC_other _ _ _ _ _ hne) (CS.stepC_cur_same x.s a b hcur)
            rfl rfl rfl rfl
            (by
              intro hw
              show wokenAfterC x.s a b k j = true
              cases hh : wokenAfterC x.s a b k j
              · have := Blk.woken_other x.s a b k j hne hh; rw [hw] at this; cases this
              · rfl) hop hrc
          exact ⟨Nat.le_of_eq this.1, hk, hj, this.2⟩
      · exact Or.inl hdrop
    · right
      have : stepM x (.cons a b) = x := by simp [stepM, hv]
      rw [this]; exact ⟨Nat.le_refl _, hr⟩

/-! ### the mutex is released after finitely many steps of its owner -/

def hrW : WPc → Nat
  | .sNotify => 2
  | .sUnlock => 1
  | _ => 0

def hrD : DPc → Nat
  | .dNotify | .eNotify => 2
  | .dUnlock | .eUnlock => 1
  | _ => 0

/-- thread `u` owns the mutex -/
def hold (x : MSt) : MTid → Prop
  | .writer i => i < x.P ∧ x.s.mtx = some .prod ∧ wHold (x.wr i).pc = true
  | .drainer => x.s.mtx = some .prod ∧ dHold x.dr.pc = true
  | .cons k j => x.s.mtx = some (.cons k j)

def hrank (x : MSt) : Nat :=
  match x.s.mtx with
  | some .prod => hrD x.dr.pc + sumTo x.P (fun i => hrW (x.wr i).pc)
  | some (.cons k j) => Blk.hrC (ndeps x.s k) (x.s.cons k j)
  | none => 0

theorem hrW_zero {pc : WPc} (h : wHold pc = false) : hrW pc = 0 := by
  cases pc <;> simp_all [wHold, hrW]

theorem hrD_zero {pc : DPc} (h : dHold pc = false) : hrD pc = 0 := by
  cases pc <;> simp_all [dHold, hrD]

theorem hold_writer_step (x : MSt) (i : Nat) (hm : x.s.mtx = some .prod) (hc : wHold (x.wr i).pc = true) :
    (stepWriter x i).s.mtx = none ∨
    ((stepWriter x i).s.mtx = some .prod ∧ wHold ((stepWriter x i).wr i).pc = true ∧
      hrW ((stepWriter x i).wr i).pc < hrW (x.wr i).pc) := by
  unfold stepWriter
  cases hpc : (x.wr i).pc <;> simp only [hpc, wHold] at hc <;> (try cases hc) <;>
    simp [hpc, hm, hrW, wHold, updW_same]

theorem hold_drainer_step (x : MSt) (hm : x.s.mtx = some .prod) (hc : dHold x.dr.pc = true) :
    (stepDrainer x).s.mtx = none ∨
    ((stepDrainer x).s.mtx = some .prod ∧ dHold (stepDrainer x).dr.pc = true ∧
      hrD (stepDrainer x).dr.pc < hrD x.dr.pc) := by
  unfold stepDrainer
  cases hpc : x.dr.pc <;> simp only [hpc, dHold] at hc <;> (try cases hc) <;> simp [hpc, hm, hrD, dHold]

theorem holder_exists (x : MSt) (h : LB x) (hnf : ¬ x.s.mtx = none) : ∃ u, inTopoM x.P x.s.K x.s.h u ∧ hold x u := by
  have hM := h.lj.g.mtx
  cases hm : x.s.mtx with
  | none => exact absurd hm hnf
  | some u =>
    cases u with
    | prod =>
      rcases (hM.blkP h.blk).1 hm with hd | ⟨i, hi, hw⟩
      · exact ⟨.drainer, trivial, hm, hd⟩
      · exact ⟨.writer i, hi, hi, hm, hw⟩
    | cons k j => exact ⟨.cons k j, hM.owner k j hm, hm⟩

/-- the owner of the mutex: its step releases the mutex or brings the release closer -/
theorem hhown (x : MSt) (u : MTid) (h : LB x) (hh : hold x u) :
    (stepM x u).s.mtx = none ∨ (hrank (stepM x u) < hrank x ∧ hold (stepM x u) u) := by
  have hM := h.lj.g.mtx
  cases u with
  | writer i =>
    obtain ⟨hi, hm, hc⟩ := hh
    have hstep : stepM x (.writer i) = stepWriter x i := by simp [stepM, hi]
    rw [hstep]
    rcases hold_writer_step x i hm hc with h1 | ⟨h1, h2, h3⟩
    · exact Or.inl h1
    · right
      obtain ⟨_, _, _, _, _, _, edr, eP⟩ := stepWriter_frame x i
      refine ⟨?_, by rw [eP]; exact hi, h1, h2⟩
      simp only [hrank, h1, hm, edr, eP]
      apply Nat.add_lt_add_left
      apply sumTo_upd_lt x.P _ _ i hi
      · intro a _ hne; rw [stepWriter_others x i a hne]
      · exact h3
  | drainer =>
    obtain ⟨hm, hc⟩ := hh
    show (stepDrainer x).s.mtx = none ∨ _
    rcases hold_drainer_step x hm hc with h1 | ⟨h1, h2, h3⟩
    · exact Or.inl h1
    · right
      obtain ⟨_, _, _, _, _, _, ewr, eP, _⟩ := stepDrainer_frame2 x
      refine ⟨?_, h1, h2⟩
      show hrank (stepDrainer x) < hrank x
      simp only [hrank, h1, hm, ewr, eP]
      omega
  | cons k j =>
    have hm : x.s.mtx = some (.cons k j) := hh
    obtain ⟨hk, hj⟩ := hM.owner k j hm
    have hc := ((hM.blkC h.blk k j hk hj).1).2 hm
    have hstep : stepM x (.cons k j) = { x with s := stepC x.s k j } := by simp [stepM, hk, hj]
    rw [hstep]
    rcases Blk.hold_cons_step x.s k j h.blk hm hc (h.lj.g.good.2.1.2 k j hk hj).idxLe with h1 | ⟨h1, h2⟩
    · exact Or.inl h1
    · right
      refine ⟨?_, h1⟩
      have e1 : (stepC x.s k j).mtx = some (.cons k j) := h1
      have e2 : (stepC x.s k j).cons k j = stepCons x.s k j (x.s.cons k j) := stepC_own _ _ _
      have e3 : ndeps (stepC x.s k j) k = ndeps x.s k := rfl
      simp only [hrank, e1, hm, e2, e3]; exact h2

/-- nobody else can take or release the mutex, or change the owner's distance to its release -/
theorem hhoth (x : MSt) (u v : MTid) (h : LB x) (hh : hold x u) (hne : v ≠ u) :
    hrank (stepM x v) = hrank x ∧ hold (stepM x v) u := by
  have hM := h.lj.g.mtx
  -- the mutex is taken
  have hmtx : ∃ t, x.s.mtx = some t := by
    cases u with
    | writer i => exact ⟨_, hh.2.1⟩
    | drainer => exact ⟨_, hh.1⟩
    | cons k j => exact ⟨_, hh⟩
  obtain ⟨t0, hm0⟩ := hmtx
  cases v with
  | writer i =>
    by_cases hi : i < x.P
    · have hstep : stepM x (.writer i) = stepWriter x i := by simp [stepM, hi]
      rw [hstep]
      obtain ⟨ec, eK, eh, en, ebl, edn, edr, eP⟩ := stepWriter_frame x i
      -- writer `i` does not hold the mutex
      have hnh : wHold (x.wr i).pc = false := by
        apply bool_false_of_ne_true
        intro hw
        have hmp : x.s.mtx = some .prod := (hM.blkP h.blk).2 (Or.inr ⟨i, hi, hw⟩)
        cases u with
        | writer i' => exact hne (by rw [hM.uniqW i i' hi hh.1 hw hh.2.2])
        | drainer => have := hM.uniqD i hi hw; rw [hh.2] at this; cases this
        | cons k j => rw [show x.s.mtx = some (.cons k j) from hh] at hmp; cases hmp
      have hcase := writer_mtx_step x i h.blk (fun hw => by rw [hnh] at hw; cases hw)
      have hmm : (stepWriter x i).s.mtx = x.s.mtx ∧ wHold ((stepWriter x i).wr i).pc = false := by
        rcases hcase with ⟨h1, h2⟩ | ⟨h1, _⟩ | ⟨h1, _⟩
        · exact ⟨h1, by rw [h2]; exact hnh⟩
        · rw [hm0] at h1; cases h1
        · rw [hnh] at h1; cases h1
      have hsum : sumTo x.P (fun a => hrW ((stepWriter x i).wr a).pc) = sumTo x.P (fun a => hrW (x.wr a).pc) := by
        apply sumTo_congr
        intro a _
        by_cases he : a = i
        · subst he; rw [hrW_zero hmm.2, hrW_zero hnh]
        · rw [stepWriter_others x i a he]
      refine ⟨?_, ?_⟩
      · unfold hrank
        rw [hmm.1, edr, eP, ec, hsum]
        cases hm : x.s.mtx with
        | none => rfl
        | some t =>
          cases t with
          | prod => rfl
          | cons k j => simp only [ndeps, eh]
      · cases u with
        | writer i' =>
          have hne' : i' ≠ i := fun e => hne (by rw [e])
          exact ⟨by rw [eP]; exact hh.1, by rw [hmm.1]; exact hh.2.1, by rw [stepWriter_others x i i' hne']; exact hh.2.2⟩
        | drainer => exact ⟨by rw [hmm.1]; exact hh.1, by rw [edr]; exact hh.2⟩
        | cons k j => show (stepWriter x i).s.mtx = some (.cons k j); rw [hmm.1]; exact hh
    · have : stepM x (.writer i) = x := by simp [stepM, hi]
      rw [this]; exact ⟨rfl, hh⟩
  | drainer =>
    show hrank (stepDrainer x) = hrank x ∧ hold (stepDrainer x) u
    obtain ⟨ec, eK, eh, en, ebl, ecur, ewr, eP, ehw⟩ := stepDrainer_frame2 x
    have hnh : dHold x.dr.pc = false := by
      apply bool_false_of_ne_true
      intro hd
      have hmp : x.s.mtx = some .prod := (hM.blkP h.blk).2 (Or.inl hd)
      cases u with
      | writer i' => have := hM.uniqD i' hh.1 hh.2.2; rw [hd] at this; cases this
      | drainer => exact hne rfl
      | cons k j => rw [show x.s.mtx = some (.cons k j) from hh] at hmp; cases hmp
    have hcase := drainer_mtx_step x h.blk (fun hw => by rw [hnh] at hw; cases hw)
    have hmm : (stepDrainer x).s.mtx = x.s.mtx ∧ dHold (stepDrainer x).dr.pc = false := by
      rcases hcase with ⟨h1, h2⟩ | ⟨h1, _⟩ | ⟨h1, _⟩
      · exact ⟨h1, by rw [h2]; exact hnh⟩
      · rw [hm0] at h1; cases h1
      · rw [hnh] at h1; cases h1
    refine ⟨?_, ?_⟩
    · unfold hrank
      rw [hmm.1, ewr, eP, ec, hrD_zero hmm.2, hrD_zero hnh]
      cases hm : x.s.mtx with
      | none => rfl
      | some t =>
        cases t with
        | prod => rfl
        | cons k j => simp only [ndeps, eh]
    · cases u with
      | writer i' => exact ⟨by rw [eP]; exact hh.1, by rw [hmm.1]; exact hh.2.1, by rw [ewr]; exact hh.2.2⟩
      | drainer => exact absurd rfl hne
      | cons k j => show (stepDrainer x).s.mtx = some (.cons k j); rw [hmm.1]; exact hh
  | cons a b =>
    by_cases hv : a < x.s.K ∧ b < x.s.h a
    · have hstep : stepM x (.cons a b) = { x with s := stepC x.s a b } := by simp [stepM, hv]
      rw [hstep]
      obtain ⟨c1, c2⟩ := hM.blkC h.blk a b hv.1 hv.2
      have hnot : x.s.mtx ≠ some (.cons a b) := by
        intro hm
        cases u with
        | writer i' => rw [hh.2.1] at hm; cases hm
        | drainer => rw [hh.1] at hm; cases hm
        | cons k j =>
          rw [show x.s.mtx = some (.cons k j) from hh] at hm
          injection hm with hm; injection hm with e1 e2
          exact hne (by rw [e1, e2])
      have hmm : (stepC x.s a b).mtx = x.s.mtx := by
        show mtxAfterC x.s a b = x.s.mtx
        rcases (cons_mtx_step x.s a b h.blk c1 c2).2.2 with h1 | ⟨h1, _⟩ | ⟨h1, _⟩
        · exact h1
        · rw [hm0] at h1; cases h1
        · exact absurd h1 hnot
      refine ⟨?_, ?_⟩
      · unfold hrank
        show (match (stepC x.s a b).mtx with
          | some .prod => hrD x.dr.pc + sumTo x.P (fun i => hrW (x.wr i).pc)
          | some (.cons k j) => Blk.hrC (ndeps (stepC x.s a b) k) ((stepC x.s a b).cons k j)
          | none => 0) = _
        rw [hmm]
        cases hm : x.s.mtx with
        | none => rfl
        | some t =>
          cases t with
          | prod => rfl
          | cons k j =>
            have hkj : ¬(k = a ∧ j = b) := by
              intro he; apply hnot; rw [hm, he.1, he.2]
            have e2 : (stepC x.s a b).cons k j = x.s.cons k j := stepC_other _ _ _ _ _ hkj
            have e3 : ndeps (stepC x.s a b) k = ndeps x.s k := rfl
            simp only [e2, e3]
      · cases u with
        | writer i' => exact ⟨hh.1, by show (stepC x.s a b).mtx = _; rw [hmm]; exact hh.2.1, hh.2.2⟩
        | drainer => exact ⟨by show (stepC x.s a b).mtx = _; rw [hmm]; exact hh.1, hh.2⟩
        | cons k j => show (stepC x.s a b).mtx = some (.cons k j); rw [hmm]; exact hh
    · have : stepM x (.cons a b) = x := by simp [stepM, hv]
      rw [this]; exact ⟨rfl, hh⟩

/-- a ready thread is enabled whenever the mutex is free -/
theorem hen (x : MSt) (t : MTid) (hr : ready x t) (hf : x.s.mtx = none) : enF x t = true := by
  cases t with
  | writer i =>
    obtain ⟨_, hr'⟩ := hr
    unfold readyW at hr'
    cases hpc : (x.wr i).pc <;> simp_all [enF, enabledM]
  | drainer =>
    have hr' : readyD x := hr
    unfold readyD at hr'
    cases hpc : x.dr.pc <;> simp_all [enF, enabledM]
  | cons k j =>
    obtain ⟨_, _, hr'⟩ := hr
    exact CS.hen_cons x.s k j hr' hf

/-- **C06 core (multi-producer sequencer, blocking wait)**: from every state satisfying the liveness invariant — one
writer thread whose batches are smaller than the ring, or all writers done with nothing stranded — every schedule that is
weakly fair and strongly fair (a thread whose step is enabled infinitely often takes an enabled step infinitely often —
only `lock` / `relock` steps can be disabled) reaches the state where every writer has returned from all `write` calls,
`drain` has returned and every handler thread has terminated. -/
theorem terminates (x0 : MSt) (h0 : LB x0) (σ : Nat → MTid)
    (hwf : Fair.WeakFair (inTopoM x0.P x0.s.K x0.s.h) σ)
    (hsf : Fair.StrongFair stepM (fun x t => enF x t = true) (inTopoM x0.P x0.s.K x0.s.h) σ x0) :
    ∃ n, terminalM (Fair.run stepM σ x0 n) := by
  apply Fair.fair_termination_sf stepM (inTopoM x0.P x0.s.K x0.s.h)
    (fun x => LB x ∧ x.P = x0.P ∧ x.s.K = x0.s.K ∧ x.s.h = x0.s.h) terminalM (fun x t => enF x t = true) ready μ rank
    (fun x => x.s.mtx = none) hold hrank
  · intro s t ⟨hs, e0, e1, e2⟩
    obtain ⟨f1, f2, _, f0, _⟩ := topo_stepM s t
    exact ⟨lb_stepM s t hs, by rw [f0, e0], by rw [f1, e1], by rw [f2, e2]⟩
  · intro s t hs; exact μ_mono s t hs.1
  · intro s ⟨hs, e0, e1, e2⟩ hnt
    obtain ⟨t, ht, hr⟩ := exists_ready s hs hnt
    exact ⟨t, by rw [← e0, ← e1, ← e2]; exact ht, hr⟩
  · intro s t hs hr he; exact hown s t hs.1 hr he
  · intro s t u hs hr hu; exact hoth s t u hs.1 hr hu
  · intro s t _ hr hf; exact hen s t hr hf
  · intro s ⟨hs, e0, e1, e2⟩ hnf
    obtain ⟨u, hu, hh⟩ := holder_exists s hs hnf
    exact ⟨u, by rw [← e0, ← e1, ← e2]; exact hu, hh⟩
  · intro s u hs hh
    rcases hhown s u hs.1 hh with h1 | ⟨h1, h2⟩
    · exact Or.inr (Or.inl h1)
    · exact Or.inr (Or.inr ⟨h1, h2⟩)
  · intro s u v hs hh hne
    obtain ⟨h1, h2⟩ := hhoth s u v hs.1 hh hne
    exact Or.inr (Or.inr ⟨Nat.le_of_eq h1, h2⟩)
  · exact ⟨h0, rfl, rfl, rfl⟩
  · exact hwf
  · exact hsf

/-! ### fairness of lock acquisition only -/

/-- the thread's next step is a mutex acquisition (`lock`, or the re-acquisition after `cvar.wait`) -/
def atLock (x : MSt) : MTid → Bool
  | .writer i => match (x.wr i).pc with
    | .sLock => true
    | _ => false
  | .drainer => match x.dr.pc with
    | .dLock | .eLock => true
    | _ => false
  | .cons k j => match (x.s.cons k j).pc with
    | .bLock | .sLock | .bRelock => true
    | _ => false

def finished (x : MSt) : MTid → Bool
  | .writer i => decide ((x.wr i).pc = .done) || decide ((x.wr i).pc = .panicked)
  | .drainer => decide (x.dr.pc = .done)
  | .cons k j => decide ((x.s.cons k j).pc = .done)

theorem enabled_of_plain (x : MSt) (t : MTid) (h1 : atLock x t = false) (h2 : finished x t = false) :
    enF x t = true := by
  cases t with
  | writer i => cases hpc : (x.wr i).pc <;> simp_all [atLock, finished, enF, enabledM]
  | drainer => cases hpc : x.dr.pc <;> simp_all [atLock, finished, enF, enabledM]
  | cons k j =>
    show CS.cEn x.s k j = true
    unfold CS.cEn
    cases hpc : (x.s.cons k j).pc <;> simp_all [atLock, finished, enabled]

theorem not_finished_of_enabled (x : MSt) (t : MTid) (h : enF x t = true) : finished x t = false := by
  cases t with
  | writer i => cases hpc : (x.wr i).pc <;> simp_all [finished, enF, enabledM]
  | drainer => cases hpc : x.dr.pc <;> simp_all [finished, enF, enabledM]
  | cons k j =>
    have h' : CS.cEn x.s k j = true := h
    unfold CS.cEn at h'
    cases hpc : (x.s.cons k j).pc <;> simp_all [finished, enabled]

/-- at a lock step the fairness notion of enabledness is the model's -/
theorem enF_of_atLock (x : MSt) (t : MTid) (h : atLock x t = true) : enF x t = enabledM x t := by
  cases t with
  | writer i => rfl
  | drainer => cases hpc : x.dr.pc <;> simp_all [atLock, enF]
  | cons k j => rfl

/-- another thread's step does not move this thread's program counter -/
theorem plain_other (x : MSt) (t u : MTid) (hne : u ≠ t) :
    atLock (stepM x u) t = atLock x t ∧ finished (stepM x u) t = finished x t := by
  cases u with
  | writer i =>
    simp only [stepM]; split
    · obtain ⟨ec, _, _, _, _, _, edr, _⟩ := stepWriter_frame x i
      cases t with
      | writer i' =>
        have hne' : i' ≠ i := fun e => hne (by rw [e])
        simp only [atLock, finished, stepWriter_others x i i' hne', and_self]
      | drainer => simp only [atLock, finished, edr, and_self]
      | cons k j => simp only [atLock, finished, ec, and_self]
    · exact ⟨rfl, rfl⟩
  | drainer =>
    obtain ⟨ec, _, _, _, _, _, ewr, _, _⟩ := stepDrainer_frame2 x
    show atLock (stepDrainer x) t = _ ∧ finished (stepDrainer x) t = _
    cases t with
    | writer i' => simp only [atLock, finished, ewr, and_self]
    | drainer => exact absurd rfl hne
    | cons k j => simp only [atLock, finished, ec, and_self]
  | cons a b =>
    simp only [stepM]; split
    · cases t with
      | writer i' => exact ⟨rfl, rfl⟩
      | drainer => exact ⟨rfl, rfl⟩
      | cons k j =>
        have hkj : ¬(k = a ∧ j = b) := by intro he; apply hne; rw [he.1, he.2]
        simp only [atLock, finished, stepC_other _ _ _ _ _ hkj, and_self]
    · exact ⟨rfl, rfl⟩

/-- strong fairness for lock acquisition only: a thread whose `lock` / `relock` step is enabled infinitely often
eventually takes it (while enabled) -/
def LockFair (P : MTid → Prop) (σ : Nat → MTid) (x0 : MSt) : Prop :=
  ∀ t, P t →
    (∀ n, ∃ m, n ≤ m ∧ atLock (Fair.run stepM σ x0 m) t = true ∧ enabledM (Fair.run stepM σ x0 m) t = true) →
    ∀ n, ∃ m, n ≤ m ∧ σ m = t ∧ atLock (Fair.run stepM σ x0 m) t = true ∧ enabledM (Fair.run stepM σ x0 m) t = true

/-- weak fairness (for the steps that are always enabled, including the join of the writer threads) plus strong
fairness of lock acquisition give strong fairness of every step -/
theorem strongFair_of_lockFair (P : MTid → Prop) (σ : Nat → MTid) (x0 : MSt)
    (hwf : Fair.WeakFair P σ) (hlf : LockFair P σ x0) :
    Fair.StrongFair stepM (fun x t => enF x t = true) P σ x0 := by
  intro t hPt hinf n
  by_cases hA : ∀ n, ∃ m, n ≤ m ∧ atLock (Fair.run stepM σ x0 m) t = true ∧ enF (Fair.run stepM σ x0 m) t = true
  · have hA' : ∀ n, ∃ m, n ≤ m ∧ atLock (Fair.run stepM σ x0 m) t = true ∧
        enabledM (Fair.run stepM σ x0 m) t = true := by
      intro n
      obtain ⟨m, hm, h1, h2⟩ := hA n
      exact ⟨m, hm, h1, by rw [← enF_of_atLock _ t h1]; exact h2⟩
    obtain ⟨m, hm, h1, h2, h3⟩ := hlf t hPt hA' n
    exact ⟨m, hm, h1, by show enF _ t = true; rw [enF_of_atLock _ t h2]; exact h3⟩
  · -- from some point on the thread is never at an enabled lock step: whenever enabled it is at a plain step
    have hA' : ∃ N, ∀ m, N ≤ m →
        ¬(atLock (Fair.run stepM σ x0 m) t = true ∧ enF (Fair.run stepM σ x0 m) t = true) := by
      apply Classical.byContradiction
      intro hno
      apply hA
      intro n
      apply Classical.byContradiction
      intro hno2
      exact hno ⟨n, fun m hm hh => hno2 ⟨m, hm, hh⟩⟩
    obtain ⟨N, hN⟩ := hA'
    obtain ⟨m, hm, he⟩ := hinf (n + N)
    have hpl : atLock (Fair.run stepM σ x0 m) t = false := by
      cases hh : atLock (Fair.run stepM σ x0 m) t
      · rfl
      · exact absurd ⟨hh, he⟩ (hN m (by omega))
    have hfin := not_finished_of_enabled _ t he
    obtain ⟨m', hm', hσ⟩ := hwf t hPt m
    -- the thread stays at its plain step until it is scheduled
    have wait : ∀ d m, atLock (Fair.run stepM σ x0 m) t = false → finished (Fair.run stepM σ x0 m) t = false →
        σ (m + d) = t →
        ∃ m'', m ≤ m'' ∧ σ m'' = t ∧ atLock (Fair.run stepM σ x0 m'') t = false ∧
          finished (Fair.run stepM σ x0 m'') t = false := by
      intro d
      induction d with
      | zero => intro m h1 h2 h3; exact ⟨m, Nat.le_refl _, h3, h1, h2⟩
      | succ d ih =>
        intro m h1 h2 h3
        by_cases hs : σ m = t
        · exact ⟨m, Nat.le_refl _, hs, h1, h2⟩
        · obtain ⟨p1, p2⟩ := plain_other (Fair.run stepM σ x0 m) t (σ m) hs
          obtain ⟨m'', h4, h5⟩ := ih (m + 1) (by show atLock (stepM _ _) t = false; rw [p1]; exact h1)
            (by show finished (stepM _ _) t = false; rw [p2]; exact h2)
            (by rw [show m + 1 + d = m + (d + 1) by omega]; exact h3)
          exact ⟨m'', by omega, h5⟩
    obtain ⟨m'', h4, h5, h6, h7⟩ := wait (m' - m) m hpl hfin (by rw [show m + (m' - m) = m' by omega]; exact hσ)
    exact ⟨m'', by omega, h5, enabled_of_plain _ t h6 h7⟩

/-- in a terminal state no thread of the configuration is enabled, and every step is a stutter -/
theorem terminal_not_enabled (x : MSt) (ht : terminalM x) (t : MTid) (hP : inTopoM x.P x.s.K x.s.h t) :
    enF x t = false := by
  cases t with
  | writer i => simp [enF, enabledM, ht.1 i hP]
  | drainer => simp [enF, enabledM, ht.2.1]
  | cons k j =>
    show CS.cEn x.s k j = false
    simp [CS.cEn, enabled, ht.2.2 k j hP.1 hP.2]

theorem terminal_fixed (x : MSt) (ht : terminalM x) (t : MTid) : stepM x t = x := by
  by_cases hP : inTopoM x.P x.s.K x.s.h t
  · exact stutter x t (terminal_not_enabled x ht t hP)
  · cases t with
    | writer i =>
      have : ¬ i < x.P := hP
      simp [stepM, this]
    | drainer => exact absurd trivial hP
    | cons k j =>
      have : ¬ (k < x.s.K ∧ j < x.s.h k) := hP
      simp [stepM, this]

theorem terminal_run (σ : Nat → MTid) (x0 : MSt) (T : Nat) (ht : terminalM (Fair.run stepM σ x0 T)) :
    ∀ d, Fair.run stepM σ x0 (T + d) = Fair.run stepM σ x0 T := by
  intro d
  induction d with
  | zero => rfl
  | succ d ih =>
    show stepM (Fair.run stepM σ x0 (T + d)) (σ (T + d)) = _
    rw [ih]; exact terminal_fixed _ ht _

theorem topo_frun (σ : Nat → MTid) (x : MSt) (i : Nat) :
    (Fair.run stepM σ x i).s.K = x.s.K ∧ (Fair.run stepM σ x i).s.h = x.s.h ∧ (Fair.run stepM σ x i).s.n = x.s.n ∧
    (Fair.run stepM σ x i).P = x.P := by
  induction i with
  | zero => exact ⟨rfl, rfl, rfl, rfl⟩
  | succ i ih =>
    obtain ⟨e1, e2, e3, e4⟩ := ih
    obtain ⟨f1, f2, f3, f4, _⟩ := topo_stepM (Fair.run stepM σ x i) (σ i)
    exact ⟨by show (stepM _ _).s.K = _; rw [f1, e1], by show (stepM _ _).s.h = _; rw [f2, e2],
           by show (stepM _ _).s.n = _; rw [f3, e3], by show (stepM _ _).P = _; rw [f4, e4]⟩

/-- a schedule under which the run terminates is lock-fair -/
theorem lockFair_of_terminates (σ : Nat → MTid) (x0 : MSt) (T : Nat) (ht : terminalM (Fair.run stepM σ x0 T)) :
    LockFair (inTopoM x0.P x0.s.K x0.s.h) σ x0 := by
  intro t hPt hinf n
  exfalso
  obtain ⟨m, hm, hl, he⟩ := hinf T
  have e : Fair.run stepM σ x0 m = Fair.run stepM σ x0 T := by
    have := terminal_run σ x0 T ht (m - T)
    rwa [show T + (m - T) = m by omega] at this
  rw [e] at he hl
  obtain ⟨eK, eh, _, eP⟩ := topo_frun σ x0 T
  have := terminal_not_enabled _ ht t (by rw [eK, eh, eP]; exact hPt)
  rw [enF_of_atLock _ t hl, he] at this; cases this

/-- a finite prefix of an infinite schedule is a schedule of `runM` -/
theorem frun_eq_runM (σ : Nat → MTid) (x : MSt) (i : Nat) :
    Fair.run stepM σ x i = runM x ((List.range i).map σ) := by
  induction i with
  | zero => rfl
  | succ i ih =>
    simp only [Fair.run, ih, runM, List.range_succ, List.map_append, List.foldl_append, List.map, List.foldl]

end BlkM
end RingMulti
