import DcVerif.Model.Window
/-! Helper lemmas for C07: list facts about `lastN`, buffer windows and `memmove`, the representation invariant `Inv`
shared by all storages, and its preservation by the two building blocks of every `push`
(append at `tail` / move the window to the front), which together form the canonical next state `next`.
Nothing here mentions a generated definition; what the generated functions do under `Inv` is `Props/C07Gen.lean`. -/
namespace Lemmas.Window
open Spec.Window Model.Window

variable {α : Type}

/-! ## lists -/

theorem lastN_length (n : Nat) (xs : List α) : (lastN n xs).length = min xs.length n := by
  unfold lastN; simp; omega

theorem lastN_of_le (n : Nat) (xs : List α) (h : xs.length ≤ n) : lastN n xs = xs := by
  unfold lastN
  have : xs.length - n = 0 := by omega
  rw [this]; rfl

theorem lastN_snoc_lt (n : Nat) (xs : List α) (v : α) (h : xs.length < n) :
    lastN n (xs ++ [v]) = lastN n xs ++ [v] := by
  unfold lastN
  have h1 : (xs ++ [v]).length - n = 0 := by simp; omega
  have h2 : xs.length - n = 0 := by omega
  rw [h1, h2]; simp

theorem lastN_snoc_ge (n : Nat) (xs : List α) (v : α) (h : n ≤ xs.length) (hn : 0 < n) :
    lastN n (xs ++ [v]) = (lastN n xs).drop 1 ++ [v] := by
  unfold lastN
  simp only [List.length_append, List.length_cons, List.length_nil, List.drop_drop]
  have : xs.length + (0+1) - n = xs.length - n + 1 := by omega
  rw [this, List.drop_append_of_le_length (by omega)]

/-- writing at `t` and extending the window `[h, t)` to `[h, t+1)` appends the value -/
theorem window_set (buf : List α) (h t : Nat) (v : α) (hl : t < buf.length) (hh : h ≤ t) :
    ((buf.set t v).drop h).take (t + 1 - h) = (buf.drop h).take (t - h) ++ [v] := by
  apply List.ext_getElem
  · simp; omega
  · intro i h1 h2
    simp at h1 h2
    by_cases hi : i < t - h
    · rw [List.getElem_append_left (by simp; omega)]
      simp [List.getElem_set]
      intro hx; omega
    · have : i = t - h := by omega
      subst this
      rw [List.getElem_append_right (by simp; omega)]
      simp [List.getElem_set]
      intro hx; omega

/-- dropping one more from the front of a window -/
theorem window_drop1 (buf : List α) (h len : Nat) :
    ((buf.drop h).take len).drop 1 = (buf.drop (h+1)).take (len - 1) := by
  rw [List.drop_take]; simp [List.drop_drop]

/-- after `memmove buf s 0 n`, the first `n` cells hold the old window `[s, s+n)` -/
theorem memmove_take (buf : List α) (s n : Nat) (h : s + n ≤ buf.length) :
    (memmove buf s 0 n).take n = (buf.drop s).take n := by
  unfold memmove
  have hc : s + n ≤ buf.length ∧ 0 + n ≤ buf.length := by omega
  have hl : ((buf.drop s).take n).length = n := by simp; omega
  simp only [hc, and_self, if_true, List.take_zero, List.nil_append]
  rw [List.take_append_of_le_length (by omega), List.take_of_length_le (by omega)]

/-! ## the representation invariant -/

/-- `w` represents a window of size `n` in a buffer of `c` cells after the push history `xs` -/
structure Inv (n c : Nat) (w : St α) (xs : List α) : Prop where
  sz     : w.size = n
  cp     : w.cap = c
  len    : w.buf.length = c
  capgt  : n < c
  szpos  : 0 < n
  tl     : w.tail ≤ c
  hd     : w.head + min xs.length n = w.tail
  short  : xs.length < n → w.tail = xs.length
  vw     : (w.buf.drop w.head).take (w.tail - w.head) = lastN n xs

/-- the state every constructor builds -/
def init (size cap : Nat) (d : α) : St α :=
  { buf := List.replicate cap d, size := size, cap := cap, head := 0, tail := 0 }

theorem inv_init (n c : Nat) (d : α) (h : n < c) (hs : 0 < n) :
    Inv n c (init n c d) ([] : List α) := by
  constructor <;> (try simp [init, lastN]) <;> (try omega)

/-- append at `tail` when there is room, then slide `head` if the window was full -/
theorem inv_append {n c : Nat} (w : St α) (xs : List α) (v : α) (h : Inv n c w xs) (hroom : w.tail < c) (head' : Nat)
    (hh : head' = if xs.length < n then w.head else w.head + 1) :
    Inv n c { w with buf := w.buf.set w.tail v, tail := w.tail + 1, head := head' } (xs ++ [v]) := by
  obtain ⟨hsz, hcp, h1, h2, h3, h4, h5, h6, h7⟩ := h
  have hht : w.head ≤ w.tail := by omega
  have hws := window_set w.buf w.head w.tail v (by omega) hht
  by_cases hlt : xs.length < n
  · simp only [hlt, if_true] at hh; subst hh
    constructor <;> (try simp) <;> (try omega)
    rw [hws, lastN_snoc_lt _ _ _ hlt, h7]
  · simp only [hlt, if_false] at hh; subst hh
    have hge : n ≤ xs.length := by omega
    have hmin : min xs.length n = n := by omega
    constructor <;> (try simp) <;> (try omega)
    rw [lastN_snoc_ge _ _ _ hge h3, ← h7, window_drop1]
    have e1 : w.tail + 1 - (w.head + 1) = w.tail - w.head := by omega
    have := window_set w.buf (w.head + 1) w.tail v (by omega) (by omega)
    rw [e1] at this
    have e2 : w.tail - (w.head + 1) = w.tail - w.head - 1 := by omega
    rw [e2] at this
    exact this

/-- move the last `n` values to the front -/
theorem inv_rewind {n c : Nat} (w : St α) (xs : List α) (h : Inv n c w xs) (hfull : n ≤ xs.length) :
    Inv n c { w with buf := memmove w.buf (w.tail - n) 0 n, head := 0, tail := n } xs := by
  obtain ⟨hsz, hcp, h1, h2, h3, h4, h5, h6, h7⟩ := h
  have hmin : min xs.length n = n := by omega
  have hhd : w.head = w.tail - n := by omega
  have hts : w.tail - w.head = n := by omega
  constructor <;> (try simp) <;> (try omega)
  rw [memmove_take _ _ _ (by omega), ← h7, hhd]; congr 1; omega

/-- under the invariant the window is filled exactly when `n` values were pushed -/
theorem inv_full_of_tail_cap {n c : Nat} {w : St α} {xs : List α} (h : Inv n c w xs) (ht : c ≤ w.tail) :
    n ≤ xs.length := by
  obtain ⟨hsz, hcp, h1, h2, h3, h4, h5, h6, h7⟩ := h
  apply Classical.byContradiction; intro hn; have := h6 (by omega); omega

/-! ## every push computes the same canonical next state -/
/-- canonical effect of a push that finds room: write at `tail`, advance `tail`, slide `head` if the window was full -/
def appended (n : Nat) (w : St α) (xs : List α) (v : α) : St α :=
  { w with buf := w.buf.set w.tail v, tail := w.tail + 1, head := if xs.length < n then w.head else w.head + 1 }

/-- canonical effect of a rewind: the last `n` values move to the front -/
def rewound (n : Nat) (w : St α) : St α :=
  { w with buf := memmove w.buf (w.tail - n) 0 n, head := 0, tail := n }

/-- canonical effect of `push` -/
def next (n c : Nat) (w : St α) (xs : List α) (v : α) : St α :=
  if w.tail < c then appended n w xs v else appended n (rewound n w) xs v

theorem next_inv {n c : Nat} (w : St α) (xs : List α) (v : α) (h : Inv n c w xs) :
    Inv n c (next n c w xs v) (xs ++ [v]) := by
  unfold next
  by_cases hroom : w.tail < c
  · simp only [hroom, if_true]
    exact inv_append w xs v h hroom _ rfl
  · simp only [hroom, if_false]
    have hfull := inv_full_of_tail_cap h (by omega)
    have hr := inv_rewind w xs h hfull
    exact inv_append _ xs v hr (by have := h.capgt; simp; omega) _ rfl

/-! ## windows of a buffer -/
theorem window_head? (buf : List α) (h k : Nat) (hk : 0 < k) :
    ((buf.drop h).take k).head? = buf[h]? := by
  rw [List.head?_take]; simp; omega

theorem window_getLast? (buf : List α) (h k : Nat) (hk : 0 < k) (hl : h + k ≤ buf.length) :
    ((buf.drop h).take k).getLast? = buf[h + k - 1]? := by
  rw [List.getLast?_eq_getElem?]
  have : ((buf.drop h).take k).length = k := by simp; omega
  rw [this, List.getElem?_take]
  have : k - 1 < k := by omega
  simp [this]
  congr 1; omega

theorem lastN_getLast? (n : Nat) (xs : List α) (hn : 0 < n) : (lastN n xs).getLast? = xs.getLast? := by
  unfold lastN
  rw [List.getLast?_drop]
  by_cases hx : xs.length = 0
  · have : xs = [] := List.length_eq_zero_iff.mp hx
    subst this; simp
  · have : ¬ xs.length ≤ xs.length - n := by omega
    simp [this]


/-! ## what a represented state holds where the accessors look -/
section
variable {n c : Nat} {w : St α} {xs : List α}

theorem inv_tail_zero (h : Inv n c w xs) : w.tail = 0 ↔ xs = [] := by
  obtain ⟨hsz, hcp, h1, h2, h3, h4, h5, h6, h7⟩ := h
  cases xs with
  | nil => have := h6 (by simpa using h3); simp at this; simp [this]
  | cons x xs =>
    have : w.tail ≠ 0 := by
      by_cases hlt : (x :: xs).length < n
      · have := h6 hlt; simp at this; omega
      · simp at hlt h5; omega
    simp [this]

theorem inv_tail_ge (h : Inv n c w xs) : (w.tail ≥ n) ↔ n ≤ xs.length := by
  obtain ⟨hsz, hcp, h1, h2, h3, h4, h5, h6, h7⟩ := h
  constructor
  · intro ht; apply Classical.byContradiction; intro hn; have := h6 (by omega); omega
  · intro hx; omega

/-- the cell at `head` is the oldest retained value -/
theorem inv_head (h : Inv n c w xs) (hne : xs ≠ []) : w.buf[w.head]? = (lastN n xs).head? ∧ w.head < w.buf.length := by
  obtain ⟨hsz, hcp, h1, h2, h3, h4, h5, h6, h7⟩ := h
  have hpos : 0 < xs.length := List.length_pos_iff.mpr hne
  have hk : 0 < w.tail - w.head := by omega
  rw [← h7, window_head? _ _ _ hk]
  exact ⟨rfl, by omega⟩

/-- the cell before `tail` is the most recent value -/
theorem inv_newest (h : Inv n c w xs) (hf : n ≤ xs.length) :
    w.buf[w.tail - 1]? = xs.getLast? ∧ w.tail - 1 < w.buf.length ∧ 0 < w.tail := by
  obtain ⟨hsz, hcp, h1, h2, h3, h4, h5, h6, h7⟩ := h
  rw [← lastN_getLast? n xs h3, ← h7, window_getLast? _ _ _ (by omega) (by omega)]
  have e : w.head + (w.tail - w.head) - 1 = w.tail - 1 := by omega
  rw [e]
  exact ⟨rfl, by omega, by omega⟩
end

end Lemmas.Window
