import DcVerif.Model.Window
/-! Helper lemmas for C07: list facts about `lastN` and buffer windows, the representation invariant `Inv`
shared by all storages, and its preservation by the two building blocks of every `push`
(append at `tail` / move the window to the front). -/
namespace Lemmas.Window
open Spec.Window Model.Window

variable {α : Type}

/-! ## lists -/

theorem lastN_length (n : Nat) (xs : List α) : (lastN n xs).length = min xs.length n := by
  unfold lastN; simp; omega

theorem lastN_of_le (n : Nat) (xs : List α) (h : xs.length ≤ n) : lastN n xs = xs := by
  unfold lastN
  have : xs.length - n = 0 := by omega
  rw [this]; rfl

theorem lastN_snoc_lt (n : Nat) (xs : List α) (v : α) (h : xs.length < n) :
    lastN n (xs ++ [v]) = lastN n xs ++ [v] := by
  unfold lastN
  have h1 : (xs ++ [v]).length - n = 0 := by simp; omega
  have h2 : xs.length - n = 0 := by omega
  rw [h1, h2]; simp

theorem lastN_snoc_ge (n : Nat) (xs : List α) (v : α) (h : n ≤ xs.length) (hn : 0 < n) :
    lastN n (xs ++ [v]) = (lastN n xs).drop 1 ++ [v] := by
  unfold lastN
  simp only [List.length_append, List.length_cons, List.length_nil, List.drop_drop]
  have : xs.length + (0+1) - n = xs.length - n + 1 := by omega
  rw [this, List.drop_append_of_le_length (by omega)]

/-- writing at `t` and extending the window `[h, t)` to `[h, t+1)` appends the value -/
theorem window_set (buf : List α) (h t : Nat) (v : α) (hl : t < buf.length) (hh : h ≤ t) :
    ((buf.set t v).drop h).take (t + 1 - h) = (buf.drop h).take (t - h) ++ [v] := by
  apply List.ext_getElem
  · simp; omega
  · intro i h1 h2
    simp at h1 h2
    by_cases hi : i < t - h
    · rw [List.getElem_append_left (by simp; omega)]
      simp [List.getElem_set]
      intro hx; omega
    · have : i = t - h := by omega
      subst this
      rw [List.getElem_append_right (by simp; omega)]
      simp [List.getElem_set]
      intro hx; omega

/-- dropping one more from the front of a window -/
theorem window_drop1 (buf : List α) (h len : Nat) :
    ((buf.drop h).take len).drop 1 = (buf.drop (h+1)).take (len - 1) := by
  rw [List.drop_take]; simp [List.drop_drop]

/-- after `copyFront buf s len`, the first `len` cells hold the old window `[s, s+len)` -/
theorem copyFront_take (buf : List α) (s len : Nat) (h : s + len ≤ buf.length) :
    (copyFront buf s len).take len = (buf.drop s).take len := by
  unfold copyFront
  have hl : ((buf.drop s).take len).length = len := by simp; omega
  simp only
  rw [List.take_append_of_le_length (by omega), List.take_of_length_le (by omega)]

theorem copyFront_length (buf : List α) (s len : Nat) (h : s + len ≤ buf.length) :
    (copyFront buf s len).length = buf.length := by
  unfold copyFront; simp; omega

/-! ## the representation invariant -/

/-- `w` represents a window of size `n` in a buffer of `c` cells after the push history `xs` -/
structure Inv (n c : Nat) (w : St α) (xs : List α) : Prop where
  sz     : w.size = n
  cp     : w.cap = c
  len    : w.buf.length = c
  capgt  : n < c
  szpos  : 0 < n
  tl     : w.tail ≤ c
  hd     : w.head + min xs.length n = w.tail
  short  : xs.length < n → w.tail = xs.length
  vw     : (w.buf.drop w.head).take (w.tail - w.head) = lastN n xs

theorem inv_init (n c : Nat) (d : α) (h : n < c) (hs : 0 < n) :
    Inv n c (init n c d) ([] : List α) := by
  constructor <;> (try simp [init, lastN]) <;> (try omega)

/-- append at `tail` when there is room, then slide `head` if the window was full -/
theorem inv_append {n c : Nat} (w : St α) (xs : List α) (v : α) (h : Inv n c w xs) (hroom : w.tail < c) (head' : Nat)
    (hh : head' = if xs.length < n then w.head else w.head + 1) :
    Inv n c { w with buf := w.buf.set w.tail v, tail := w.tail + 1, head := head' } (xs ++ [v]) := by
  obtain ⟨hsz, hcp, h1, h2, h3, h4, h5, h6, h7⟩ := h
  have hht : w.head ≤ w.tail := by omega
  have hws := window_set w.buf w.head w.tail v (by omega) hht
  by_cases hlt : xs.length < n
  · simp only [hlt, if_true] at hh; subst hh
    constructor <;> (try simp) <;> (try omega)
    rw [hws, lastN_snoc_lt _ _ _ hlt, h7]
  · simp only [hlt, if_false] at hh; subst hh
    have hge : n ≤ xs.length := by omega
    have hmin : min xs.length n = n := by omega
    constructor <;> (try simp) <;> (try omega)
    rw [lastN_snoc_ge _ _ _ hge h3, ← h7, window_drop1]
    have e1 : w.tail + 1 - (w.head + 1) = w.tail - w.head := by omega
    have := window_set w.buf (w.head + 1) w.tail v (by omega) (by omega)
    rw [e1] at this
    have e2 : w.tail - (w.head + 1) = w.tail - w.head - 1 := by omega
    rw [e2] at this
    exact this

/-- move the last `n` values to the front -/
theorem inv_rewind {n c : Nat} (w : St α) (xs : List α) (h : Inv n c w xs) (hfull : n ≤ xs.length) :
    Inv n c { w with buf := copyFront w.buf (w.tail - n) n, head := 0, tail := n } xs := by
  obtain ⟨hsz, hcp, h1, h2, h3, h4, h5, h6, h7⟩ := h
  have hmin : min xs.length n = n := by omega
  have hhd : w.head = w.tail - n := by omega
  have hts : w.tail - w.head = n := by omega
  constructor <;> (try simp) <;> (try omega)
  · rw [copyFront_length _ _ _ (by omega)]; exact h1
  · rw [copyFront_take _ _ _ (by omega), ← h7, hhd]; congr 1; omega

/-- under the invariant the window is filled exactly when `n` values were pushed -/
theorem inv_full_of_tail_cap {n c : Nat} {w : St α} {xs : List α} (h : Inv n c w xs) (ht : c ≤ w.tail) :
    n ≤ xs.length := by
  obtain ⟨hsz, hcp, h1, h2, h3, h4, h5, h6, h7⟩ := h
  apply Classical.byContradiction; intro hn; have := h6 (by omega); omega

/-! ## every push computes the same canonical next state -/
/-- canonical effect of a push that finds room: write at `tail`, advance `tail`, slide `head` if the window was full -/
def appended (n : Nat) (w : St α) (xs : List α) (v : α) : St α :=
  { w with buf := w.buf.set w.tail v, tail := w.tail + 1, head := if xs.length < n then w.head else w.head + 1 }

/-- canonical effect of a rewind: the last `n` values move to the front -/
def rewound (n : Nat) (w : St α) : St α :=
  { w with buf := copyFront w.buf (w.tail - n) n, head := 0, tail := n }

/-- canonical effect of `push` -/
def next (n c : Nat) (w : St α) (xs : List α) (v : α) : St α :=
  if w.tail < c then appended n w xs v else appended n (rewound n w) xs v

theorem next_inv {n c : Nat} (w : St α) (xs : List α) (v : α) (h : Inv n c w xs) :
    Inv n c (next n c w xs v) (xs ++ [v]) := by
  unfold next
  by_cases hroom : w.tail < c
  · simp only [hroom, if_true]
    exact inv_append w xs v h hroom _ rfl
  · simp only [hroom, if_false]
    have hfull := inv_full_of_tail_cap h (by omega)
    have hr := inv_rewind w xs h hfull
    exact inv_append _ xs v hr (by have := h.capgt; simp; omega) _ rfl

theorem pushArr_eq {n c : Nat} (w : St α) (xs : List α) (v : α) (h : Inv n c w xs) :
    pushArr w v = .ok (next n c w xs v) := by
  have ⟨hsz, hcp, h1, h2, h3, h4, h5, h6, h7⟩ := h
  unfold pushArr next
  by_cases hroom : w.tail < c
  · have hn : ¬ w.tail ≥ w.cap := by omega
    have hb : ¬ w.tail ≥ w.buf.length := by omega
    simp only [hn, if_false, hroom, if_true, storeArr, hb, appended]
    congr 2
    by_cases hlt : xs.length < n
    · have := h6 hlt; simp [hlt]; omega
    · simp [hlt]; split <;> omega
  · have hn : w.tail ≥ w.cap := by omega
    have hfull := inv_full_of_tail_cap h (by omega)
    have hb : ¬ w.tail > w.buf.length := by omega
    have e : w.tail - (w.tail - n) = n := by omega
    simp only [hn, if_true, hroom, if_false, rewindArr, hb, e, hsz, storeArr, rewound, appended]
    have hb2 : ¬ n ≥ (copyFront w.buf (w.tail - n) n).length := by
      rw [copyFront_length _ _ _ (by omega)]; omega
    simp only [hb2, if_false]
    congr 2
    have : ¬ xs.length < n := by omega
    simp [this]

theorem pushUArr_eq {n c : Nat} (w : St α) (xs : List α) (v : α) (h : Inv n c w xs) :
    pushUArr w v = .ok (next n c w xs v) := by
  have ⟨hsz, hcp, h1, h2, h3, h4, h5, h6, h7⟩ := h
  unfold pushUArr next
  by_cases hroom : w.tail < c
  · have hn : ¬ w.tail ≥ w.cap := by omega
    have hb : ¬ w.tail ≥ w.buf.length := by omega
    have hu : ¬ w.tail + 1 < w.head := by omega
    simp only [hn, if_false, hroom, if_true, storeUArr, hb, hu, appended, hsz]
    by_cases hlt : xs.length < n
    · have := h6 hlt
      have hc : ¬ w.tail + 1 - w.head > n := by omega
      simp only [hc, if_false, hlt, if_true]
    · have hc : w.tail + 1 - w.head > n := by omega
      have hd : ¬ w.tail + 1 < n := by omega
      simp only [hc, if_true, hd, if_false, hlt]
      congr 2; omega
  · have hn : w.tail ≥ w.cap := by omega
    have hfull := inv_full_of_tail_cap h (by omega)
    have hb : ¬ w.tail > w.buf.length := by omega
    have hp : ¬ w.tail < n := by omega
    simp only [hn, if_true, hroom, if_false, rewindUArr, hsz, hp, hb, storeUArr, rewound, appended]
    have hb2 : ¬ n ≥ (copyFront w.buf (w.tail - n) n).length := by
      rw [copyFront_length _ _ _ (by omega)]; omega
    have hu : ¬ n + 1 < 0 := by omega
    have hc : n + 1 - 0 > n := by omega
    have hd : ¬ n + 1 < n := by omega
    have hx : ¬ xs.length < n := by omega
    simp only [hb2, if_false, hu, hc, if_true, hd, hx]
    congr 2; omega

theorem pushVecFixed_eq {n c : Nat} (w : St α) (xs : List α) (v : α) (h : Inv n c w xs) :
    pushVecFixed w v = .ok (next n c w xs v) := by
  have ⟨hsz, hcp, h1, h2, h3, h4, h5, h6, h7⟩ := h
  unfold pushVecFixed next
  by_cases hroom : w.tail < c
  · have hn : w.tail < w.cap := by omega
    have hb : ¬ w.tail ≥ w.buf.length := by omega
    have hu : ¬ w.tail + 1 < w.head := by omega
    simp only [hn, if_true, hroom, hb, if_false, hu, appended, hsz]
    congr 2
    by_cases hlt : xs.length < n
    · have := h6 hlt; simp [hlt]; omega
    · simp [hlt]; omega
  · have hn : ¬ w.tail < w.cap := by omega
    have hfull := inv_full_of_tail_cap h (by omega)
    have hhd : w.head = w.tail - n := by omega
    have hb : ¬ w.head + n > w.buf.length := by omega
    have hb2 : ¬ n ≥ (copyFront w.buf w.head n).length := by
      rw [copyFront_length _ _ _ (by omega)]; omega
    have hx : ¬ xs.length < n := by omega
    simp only [hn, if_false, hroom, hsz, hb, hb2, rewound, appended, hx]
    rw [hhd]
    congr 2
    simp

theorem pushUVec_eq {n c : Nat} (w : St α) (xs : List α) (v : α) (h : Inv n c w xs) (h2n : 2 * n ≤ c) :
    pushUVec w v = .ok (next n c w xs v) := by
  have ⟨hsz, hcp, h1, h2, h3, h4, h5, h6, h7⟩ := h
  unfold pushUVec next
  by_cases hroom : w.tail < c
  · have hn : w.tail < w.cap := by omega
    have hb : ¬ w.tail ≥ w.buf.length := by omega
    have hu : ¬ w.tail + 1 < w.head := by omega
    simp only [hn, if_true, hroom, hb, if_false, hu, appended, hsz]
    congr 2
    by_cases hlt : xs.length < n
    · have := h6 hlt; simp [hlt]; omega
    · simp [hlt]; omega
  · have hn : ¬ w.tail < w.cap := by omega
    have hfull := inv_full_of_tail_cap h (by omega)
    have hhd : w.head = w.tail - n := by omega
    have hb : ¬ w.head + n > w.buf.length := by omega
    have ho : ¬ (0 < n ∧ w.head < n) := by omega
    have hb2 : ¬ n ≥ (copyFront w.buf w.head n).length := by
      rw [copyFront_length _ _ _ (by omega)]; omega
    have hx : ¬ xs.length < n := by omega
    simp only [hn, if_false, hroom, hsz, hb, ho, hb2, rewound, appended, hx]
    rw [hhd]
    congr 2
    simp

/-- today's safe vector storage agrees with the others as long as its fast path is taken -/
theorem pushVec_eq_room {n c : Nat} (w : St α) (xs : List α) (v : α) (h : Inv n c w xs) (hroom : w.tail < c) :
    pushVec w v = .ok (next n c w xs v) := by
  have ⟨hsz, hcp, h1, h2, h3, h4, h5, h6, h7⟩ := h
  unfold pushVec next
  have hn : w.tail < w.cap := by omega
  have hb : ¬ w.tail ≥ w.buf.length := by omega
  have hu : ¬ w.tail + 1 < w.head := by omega
  simp only [hn, if_true, hroom, hb, if_false, hu, appended, hsz]
  congr 2
  by_cases hlt : xs.length < n
  · have := h6 hlt; simp [hlt]; omega
  · simp [hlt]; omega

/-! ## what the accessors return under the invariant -/
theorem window_head? (buf : List α) (h k : Nat) (hk : 0 < k) :
    ((buf.drop h).take k).head? = buf[h]? := by
  rw [List.head?_take]; simp; omega

theorem window_getLast? (buf : List α) (h k : Nat) (hk : 0 < k) (hl : h + k ≤ buf.length) :
    ((buf.drop h).take k).getLast? = buf[h + k - 1]? := by
  rw [List.getLast?_eq_getElem?]
  have : ((buf.drop h).take k).length = k := by simp; omega
  rw [this, List.getElem?_take]
  have : k - 1 < k := by omega
  simp [this]
  congr 1; omega

theorem lastN_getLast? (n : Nat) (xs : List α) (hn : 0 < n) : (lastN n xs).getLast? = xs.getLast? := by
  unfold lastN
  rw [List.getLast?_drop]
  by_cases hx : xs.length = 0
  · have : xs = [] := List.length_eq_zero_iff.mp hx
    subst this; simp
  · have : ¬ xs.length ≤ xs.length - n := by omega
    simp [this]

section
variable {n c : Nat} {w : St α} {xs : List α}

theorem inv_size (h : Inv n c w xs) : size w = n := h.sz

theorem inv_empty (h : Inv n c w xs) : Model.Window.empty w = Spec.Window.empty xs := by
  obtain ⟨hsz, hcp, h1, h2, h3, h4, h5, h6, h7⟩ := h
  unfold Model.Window.empty Spec.Window.empty
  cases xs with
  | nil => have := h6 (by simpa using h3); simp at this; simp [this]
  | cons x xs =>
    have : w.tail ≠ 0 := by
      by_cases hlt : (x :: xs).length < n
      · have := h6 hlt; simp at this; omega
      · simp at hlt h5; omega
    simp [this]

theorem inv_tail_ge (h : Inv n c w xs) : (w.tail ≥ n) ↔ n ≤ xs.length := by
  obtain ⟨hsz, hcp, h1, h2, h3, h4, h5, h6, h7⟩ := h
  constructor
  · intro ht; apply Classical.byContradiction; intro hn; have := h6 (by omega); omega
  · intro hx; omega

theorem inv_filled (k : Kind) (h : Inv n c w xs) : Model.Window.filled k w = Spec.Window.filled n xs := by
  have ht := inv_tail_ge h
  obtain ⟨hsz, hcp, h1, h2, h3, h4, h5, h6, h7⟩ := h
  unfold Model.Window.filled Spec.Window.filled
  cases k <;> simp only [hsz, decide_eq_decide] <;> omega

theorem inv_filledForLast (k : Kind) (h : Inv n c w xs) :
    filledForLast k w = .ok (Spec.Window.filled n xs) := by
  have hf := inv_filled k h
  have hfa := inv_filled .arr h
  obtain ⟨hsz, hcp, h1, h2, h3, h4, h5, h6, h7⟩ := h
  unfold filledForLast
  cases k <;> simp only [hf]
  have : ¬ w.tail < w.head := by omega
  simp only [this, if_false]
  unfold Model.Window.filled at hfa
  simp only at hfa
  rw [hfa]

theorem inv_index_head (k : Kind) (h : Inv n c w xs) (hne : xs ≠ []) :
    index k w.buf w.head = ofSpec (Spec.Window.first n xs) := by
  obtain ⟨hsz, hcp, h1, h2, h3, h4, h5, h6, h7⟩ := h
  have hpos : 0 < xs.length := List.length_pos_iff.mpr hne
  have hk : 0 < w.tail - w.head := by omega
  unfold index Spec.Window.first
  rw [← h7, window_head? _ _ _ hk]
  have : w.head < w.buf.length := by omega
  rw [List.getElem?_eq_getElem this]
  rfl

theorem inv_first (k : Kind) (h : Inv n c w xs) : first k w = ofSpec (Spec.Window.first n xs) := by
  unfold Model.Window.first
  have he := inv_empty h
  unfold Model.Window.empty Spec.Window.empty at he
  by_cases hx : xs = []
  · subst hx
    have : w.tail = 0 := by simpa using he
    simp [this, Spec.Window.first, lastN, ofSpec]
  · have : w.tail ≠ 0 := by
      intro h0; rw [h0] at he; simp at he; exact hx he
    simp only [this, if_false]
    exact inv_index_head k h hx

theorem inv_last (k : Kind) (h : Inv n c w xs) : last k w = ofSpec (Spec.Window.last n xs) := by
  unfold Model.Window.last
  rw [inv_filledForLast k h]
  have ht := inv_tail_ge h
  obtain ⟨hsz, hcp, h1, h2, h3, h4, h5, h6, h7⟩ := h
  unfold Spec.Window.filled Spec.Window.last
  by_cases hf : n ≤ xs.length
  · have ht0 : w.tail ≠ 0 := by omega
    simp only [ht0, if_false, hf, if_true]
    unfold index
    rw [← lastN_getLast? n xs h3, ← h7, window_getLast? _ _ _ (by omega) (by omega)]
    have e : w.head + (w.tail - w.head) - 1 = w.tail - 1 := by omega
    rw [e]
    have : w.tail - 1 < w.buf.length := by omega
    rw [List.getElem?_eq_getElem this]
    rfl
  · simp only [hf, if_false]
    rfl

theorem inv_getSlice (k : Kind) (h : Inv n c w xs) : getSlice k w = .ok (lastN n xs) := by
  obtain ⟨hsz, hcp, h1, h2, h3, h4, h5, h6, h7⟩ := h
  unfold getSlice
  have hg : ¬ (w.head > w.tail ∨ w.tail > w.buf.length) := by omega
  cases k <;> simp only [hg, if_false, h7]
  -- the unsafe array clamps the length to `size`
  have e : min (w.tail - w.head) w.size = w.tail - w.head := by omega
  have hb : ¬ w.head + (w.tail - w.head) > w.buf.length := by omega
  simp only [e, hb, if_false, h7]

theorem inv_slice (k : Kind) (h : Inv n c w xs) : slice k w = ofSpec (Spec.Window.view n xs) := by
  unfold slice Spec.Window.view
  rw [inv_filled k h, inv_getSlice k h]
  unfold Spec.Window.filled
  by_cases hf : n ≤ xs.length <;> simp [hf, ofSpec]

theorem inv_vec (k : Kind) (h : Inv n c w xs) : vec k w = ofSpec (Spec.Window.view n xs) := inv_slice k h

/-- `arr::<s>()` for any width `s`: too narrow panics, wider pads with the default value -/
theorem inv_arr_width (k : Kind) (h : Inv n c w xs) (s : Nat) (d : α) :
    arr k w s d = if n ≤ xs.length then (if s < n then .panic else .ok (lastN n xs ++ List.replicate (s - n) d))
                  else .err := by
  unfold arr
  rw [inv_filled k h, inv_getSlice k h]
  unfold Spec.Window.filled
  have hsz := h.sz
  by_cases hf : n ≤ xs.length
  · have hl : (lastN n xs).length = n := by rw [lastN_length]; omega
    simp only [hf, decide_true, if_true, hsz, hl]
    by_cases hs : s < n
    · have : n > s := hs
      simp [this]
    · have h1 : ¬ n > s := by omega
      have h2 : ¬ n > n := by omega
      simp only [h1, h2, if_false]
      rw [List.take_of_length_le (by omega)]
  · simp [hf]

theorem inv_arr (k : Kind) (h : Inv n c w xs) (d : α) : arr k w w.size d = ofSpec (Spec.Window.view n xs) := by
  rw [inv_arr_width k h, h.sz]
  unfold Spec.Window.view
  by_cases hf : n ≤ xs.length <;> simp [hf, ofSpec]

theorem inv_observe (k : Kind) (h : Inv n c w xs) (d : α) :
    observe k w d = Obs.ofSpec (Spec.Window.observe n xs) := by
  unfold Model.Window.observe Obs.ofSpec Spec.Window.observe
  simp only [inv_size h, inv_empty h, inv_filled k h, inv_first k h, inv_last k h, inv_slice k h, inv_vec k h,
    inv_arr k h d]
end

end Lemmas.Window
