import DcVerif.Model.CausalGraph
import DcVerif.Lemmas.GraphDfs
/-! Lemmas about the `CausaloidGraph` model: invariant of graphs built by adds only, the logging loop `loopT` has the
control flow of `Dfs.loop`, reachability stays inside the graph. -/
namespace CausalGraph
open Dfs (V)

/-! ### invariant of add-only histories -/

structure WF (g : CG) : Prop where
  idx : ∀ i, contains g i = true ↔ i < g.upper
  len : g.nodeMap.length = g.upper
  node : ∀ i, i < g.upper → ∃ nd, g.nodeMap.lookup i = some nd
  keys : ∀ kv, kv ∈ g.nodeMap → kv.1 < g.upper
  adj : ∀ e, e ∈ g.adj → e.1 < g.upper ∧ e.2.1 < g.upper
  root : ∀ r, g.root = some r → r < g.upper

theorem wf_empty : WF {} := by
  refine ⟨?_, rfl, ?_, ?_, ?_, ?_⟩
  · intro i; simp [contains]
  · intro i h; simp at h
  · intro e h; simp at h
  · intro e h; simp at h
  · intro r h; simp at h

theorem wf_addNode (g : CG) (nd : Node) (h : WF g) : WF (addNode g nd).1 := by
  refine ⟨?_, ?_, ?_, ?_, ?_, ?_⟩
  · intro i
    have := h.idx i
    simp only [contains, addNode, List.contains_cons] at this ⊢
    by_cases hi : i = g.upper
    · subst hi; simp
    · have : (i == g.upper) = false := by simpa using hi
      simp only [this, Bool.false_or]
      rw [‹g.indexMap.contains i = true ↔ i < g.upper›]; omega
  · simp [addNode, h.len]
  · intro i hi
    simp only [addNode] at hi ⊢
    by_cases hi' : i = g.upper
    · subst hi'; exact ⟨nd, by simp [List.lookup]⟩
    · have hb : (i == g.upper) = false := by simpa using hi'
      obtain ⟨x, hx⟩ := h.node i (by omega)
      exact ⟨x, by simp [List.lookup, hb, hx]⟩
  · intro kv hkv
    simp only [addNode, List.mem_cons] at hkv ⊢
    rcases hkv with rfl | hkv
    · simp
    · have := h.keys kv hkv; omega
  · intro e he
    have := h.adj e he
    simp only [addNode]; omega
  · intro r hr
    have := h.root r hr
    simp only [addNode]; omega

theorem wf_addRoot (g : CG) (nd : Node) (h : WF g) : WF (addRoot g nd).1 := by
  have h' := wf_addNode g nd h
  refine ⟨h'.idx, h'.len, h'.node, h'.keys, h'.adj, ?_⟩
  intro r hr
  simp only [addRoot, addNode] at hr ⊢
  cases hr; omega

theorem wf_addEdge (g g' : CG) (a b w : Nat) (h : WF g) (he : addEdge g a b w = some g') : WF g' := by
  unfold addEdge at he
  split at he; · cases he
  rename_i ha
  split at he; · cases he
  rename_i hb
  split at he; · cases he
  cases he
  refine ⟨h.idx, h.len, h.node, h.keys, ?_, h.root⟩
  intro e hmem
  simp only [List.mem_append, List.mem_singleton] at hmem
  rcases hmem with hmem | rfl
  · exact h.adj e hmem
  · simp only [Bool.not_eq_eq_eq_not] at ha hb
    exact ⟨(h.idx a).1 (by simpa using ha), (h.idx b).1 (by simpa using hb)⟩

theorem wf_step (g : CG) (op : Op) (h : WF g) : WF (step g op) := by
  cases op with
  | add nd => exact wf_addNode g nd h
  | root nd => exact wf_addRoot g nd h
  | edge a b w =>
    simp only [step]
    cases he : addEdge g a b w with
    | none => exact h
    | some g' => exact wf_addEdge g g' a b w h he

theorem wf_foldl (ops : List Op) : ∀ g, WF g → WF (ops.foldl step g) := by
  induction ops with
  | nil => intro g h; exact h
  | cons op ops ih => intro g h; exact ih _ (wf_step g op h)

/-- every graph built by adds only satisfies the invariant -/
theorem wf_build (ops : List Op) : WF (build ops) := wf_foldl ops {} wf_empty

theorem lastIndex_eq_upper {g : CG} (h : WF g) : lastIndex g = g.upper := h.len

/-! ### the logging loop has the control flow of `Dfs.loop` -/

/-- the graph the DFS machine runs on: a missing observation (panic) stops the traversal like an error does -/
def toG (g : CG) (data : List Nat) (idx : Option (List (Nat × Nat))) : Dfs.G where
  out := out g
  eval := fun v => match evalAt g data idx v with | some x => x | none => .e

theorem toG_eval_t (g : CG) (data : List Nat) (idx : Option (List (Nat × Nat))) (v : Nat) :
    (toG g data idx).eval v = .t ↔ evalAt g data idx v = some .t := by
  simp only [toG]
  cases h : evalAt g data idx v with
  | none => simp
  | some x => cases x <;> simp

theorem loopT_toV (g : CG) (data : List Nat) (idx : Option (List (Nat × Nat))) (stop : Nat) :
    ∀ fuel st acc, (loopT (out g) (evalAt g data idx) stop fuel st acc).map (fun p => p.1.toV) =
      Dfs.loop (toG g data idx) stop fuel st := by
  intro fuel
  induction fuel with
  | zero => intro st acc; simp [loopT, Dfs.loop]
  | succ fuel ih =>
    intro st acc
    match st with
    | [] => simp [loopT, Dfs.loop, Res.toV]
    | [] :: rest => simp only [loopT, Dfs.loop]; exact ih rest acc
    | (c :: cs) :: rest =>
      simp only [loopT, Dfs.loop, toG]
      cases h : evalAt g data idx c with
      | none => simp [Res.toV]
      | some x =>
        cases x with
        | e => simp [Res.toV]
        | f => simp [Res.toV]
        | t =>
          by_cases hs : c = stop
          · simp [hs, Res.toV]
          · simp only [hs, if_false]; exact ih _ _

theorem toV_t (r : Res) : r.toV = .t ↔ r = .ok true := by
  cases r with
  | ok b => cases b <;> simp [Res.toV]
  | err => simp [Res.toV]
  | panic => simp [Res.toV]

theorem toV_f (r : Res) : r.toV = .f ↔ r = .ok false := by
  cases r with
  | ok b => cases b <;> simp [Res.toV]
  | err => simp [Res.toV]
  | panic => simp [Res.toV]


/-! ### reachability stays inside the graph -/

/-- reachability along `outgoing_edges` (reflexive, transitive) -/
def Reach (g : CG) (a b : Nat) : Prop := Dfs.Reach (toG g [] none) a b

theorem reach_iff (g : CG) (data : List Nat) (idx : Option (List (Nat × Nat))) (a b : Nat) :
    Dfs.Reach (toG g data idx) a b ↔ Reach g a b := by
  constructor
  · intro h
    induction h with
    | refl v => exact Dfs.Reach.refl v
    | step hb _ ih => exact Dfs.Reach.step (g := toG g [] none) hb ih
  · intro h
    induction h with
    | refl v => exact Dfs.Reach.refl v
    | step hb _ ih => exact Dfs.Reach.step (g := toG g data idx) hb ih

theorem out_lt (g : CG) (a b : Nat) (h : b ∈ out g a) : b < g.upper := by
  simp only [out, List.mem_filter, List.mem_range] at h
  exact h.1

theorem reach_lt (g : CG) (a b : Nat) (h : Reach g a b) (ha : a < g.upper) : b < g.upper := by
  unfold Reach at h
  induction h with
  | refl v => exact ha
  | step hb _ ih => exact ih (out_lt g _ _ hb)

/-- `Reach` from `s` = `s` itself or whatever the initial stack `[out s]` will visit -/
theorem reach_start (g : CG) (data : List Nat) (idx : Option (List (Nat × Nat))) (s v : Nat) :
    Reach g s v ↔ v = s ∨ Dfs.OnStack (toG g data idx) [out g s] v := by
  rw [← reach_iff g data idx]
  constructor
  · intro h
    cases h with
    | refl => left; rfl
    | step hb hr => right; exact ⟨out g s, by simp, _, hb, hr⟩
  · rintro (rfl | ⟨fr, hfr, c, hc, hr⟩)
    · exact Dfs.Reach.refl _
    · simp at hfr; subst hfr
      exact Dfs.Reach.step (g := toG g data idx) hc hr

theorem onStack_lt (g : CG) (data : List Nat) (idx : Option (List (Nat × Nat))) (s v : Nat)
    (h : Dfs.OnStack (toG g data idx) [out g s] v) : v < g.upper := by
  obtain ⟨fr, hfr, c, hc, hr⟩ := h
  simp at hfr; subst hfr
  exact reach_lt g c v ((reach_iff g data idx c v).1 hr) (out_lt g s c hc)

/-- a graph is acyclic when some rank strictly decreases along every edge -/
def Acyclic (g : CG) : Prop := ∃ rank : Nat → Nat, ∀ a b, b ∈ out g a → rank b < rank a

/-! ### what the log contains -/

/-- a panic of the loop is a missing observation of something on the stack -/
theorem loopT_panic (g : CG) (data : List Nat) (idx : Option (List (Nat × Nat))) (stop : Nat) :
    ∀ fuel st acc acc', loopT (out g) (evalAt g data idx) stop fuel st acc = some (.panic, acc') →
      ∃ v, Dfs.OnStack (toG g data idx) st v ∧ evalAt g data idx v = none := by
  intro fuel
  induction fuel with
  | zero => intro st acc acc' h; simp [loopT] at h
  | succ fuel ih =>
    intro st acc acc' h
    match st with
    | [] => simp [loopT] at h
    | [] :: rest =>
      simp only [loopT] at h
      obtain ⟨v, hv, he⟩ := ih rest acc acc' h
      exact ⟨v, (Dfs.onStack_drop_empty _ rest v).2 hv, he⟩
    | (c :: cs) :: rest =>
      simp only [loopT] at h
      cases hev : evalAt g data idx c with
      | none => exact ⟨c, (Dfs.onStack_expand _ c cs rest c).2 (Or.inl rfl), hev⟩
      | some x =>
        cases x with
        | e => simp [hev] at h
        | f => simp [hev] at h
        | t =>
          simp only [hev] at h
          by_cases hs : c = stop
          · simp [hs] at h
          · simp only [hs, if_false] at h
            obtain ⟨v, hv, he⟩ := ih _ _ acc' h
            exact ⟨v, (Dfs.onStack_expand _ c cs rest v).2 (Or.inr hv), he⟩

/-- every node the loop logs was on the stack (or already in the log) -/
theorem loopT_log_sub (g : CG) (data : List Nat) (idx : Option (List (Nat × Nat))) (stop : Nat) :
    ∀ fuel st acc r acc', loopT (out g) (evalAt g data idx) stop fuel st acc = some (r, acc') →
      ∀ v, v ∈ acc' → v ∈ acc ∨ Dfs.OnStack (toG g data idx) st v := by
  intro fuel
  induction fuel with
  | zero => intro st acc r acc' h; simp [loopT] at h
  | succ fuel ih =>
    intro st acc r acc' h v hv
    match st with
    | [] => simp [loopT] at h; left; rw [h.2]; exact hv
    | [] :: rest =>
      simp only [loopT] at h
      rcases ih rest acc r acc' h v hv with h1 | h1
      · exact Or.inl h1
      · exact Or.inr ((Dfs.onStack_drop_empty _ rest v).2 h1)
    | (c :: cs) :: rest =>
      simp only [loopT] at h
      have hc : Dfs.OnStack (toG g data idx) ((c :: cs) :: rest) c := (Dfs.onStack_expand _ c cs rest c).2 (Or.inl rfl)
      have hmem : ∀ {l : List Nat}, l = c :: acc → v ∈ l → v ∈ acc ∨ Dfs.OnStack (toG g data idx) ((c :: cs) :: rest) v := by
        intro l hl hv
        subst hl
        simp at hv
        rcases hv with rfl | hv
        · exact Or.inr hc
        · exact Or.inl hv
      cases hev : evalAt g data idx c with
      | none => simp [hev] at h; left; rw [h.2]; exact hv
      | some x =>
        cases x with
        | e => simp [hev] at h; exact hmem h.2.symm hv
        | f => simp [hev] at h; exact hmem h.2.symm hv
        | t =>
          simp only [hev] at h
          by_cases hs : c = stop
          · simp only [hs, if_true, Option.some.injEq, Prod.mk.injEq] at h; exact hmem (by rw [← h.2, hs]) hv
          · simp only [hs, if_false] at h
            rcases ih _ _ r acc' h v hv with h1 | h1
            · exact hmem rfl h1
            · exact Or.inr ((Dfs.onStack_expand _ c cs rest v).2 (Or.inr h1))

/-- when the loop answers `true` without ever meeting `stop`, it logged everything on the stack, and kept the old log -/
theorem loopT_true_covers (g : CG) (data : List Nat) (idx : Option (List (Nat × Nat))) (stop : Nat) :
    ∀ fuel st acc acc', (∀ v, Dfs.OnStack (toG g data idx) st v → v ≠ stop) →
      loopT (out g) (evalAt g data idx) stop fuel st acc = some (.ok true, acc') →
      (∀ v, v ∈ acc → v ∈ acc') ∧ ∀ v, Dfs.OnStack (toG g data idx) st v → v ∈ acc' := by
  intro fuel
  induction fuel with
  | zero => intro st acc acc' _ h; simp [loopT] at h
  | succ fuel ih =>
    intro st acc acc' hs h
    match st with
    | [] =>
      simp [loopT] at h; subst h
      exact ⟨fun v hv => hv, fun v hv => absurd hv (Dfs.onStack_nil _ v)⟩
    | [] :: rest =>
      simp only [loopT] at h
      obtain ⟨h1, h2⟩ := ih rest acc acc' (fun v hv => hs v ((Dfs.onStack_drop_empty _ rest v).2 hv)) h
      exact ⟨h1, fun v hv => h2 v ((Dfs.onStack_drop_empty _ rest v).1 hv)⟩
    | (c :: cs) :: rest =>
      simp only [loopT] at h
      have hc : Dfs.OnStack (toG g data idx) ((c :: cs) :: rest) c := (Dfs.onStack_expand _ c cs rest c).2 (Or.inl rfl)
      have hne : c ≠ stop := hs c hc
      cases hev : evalAt g data idx c with
      | none => simp [hev] at h
      | some x =>
        cases x with
        | e => simp [hev] at h
        | f => simp [hev] at h
        | t =>
          simp only [hev, hne, if_false] at h
          obtain ⟨h1, h2⟩ := ih _ _ acc' (fun v hv => hs v ((Dfs.onStack_expand _ c cs rest v).2 (Or.inr hv))) h
          refine ⟨fun v hv => h1 v (by simp [hv]), ?_⟩
          intro v hv
          rcases (Dfs.onStack_expand _ c cs rest v).1 hv with rfl | hv'
          · exact h1 v (by simp)
          · exact h2 v hv'

/-- everything the loop logged before the last entry evaluated to `true` -/
theorem loopT_log_true (g : CG) (data : List Nat) (idx : Option (List (Nat × Nat))) (stop : Nat) :
    ∀ fuel st acc acc', (∀ v, v ∈ acc → evalAt g data idx v = some .t) →
      loopT (out g) (evalAt g data idx) stop fuel st acc = some (.ok true, acc') →
      ∀ v, v ∈ acc' → evalAt g data idx v = some .t := by
  intro fuel
  induction fuel with
  | zero => intro st acc acc' _ h; simp [loopT] at h
  | succ fuel ih =>
    intro st acc acc' ha h
    match st with
    | [] => simp [loopT] at h; subst h; exact ha
    | [] :: rest => simp only [loopT] at h; exact ih rest acc acc' ha h
    | (c :: cs) :: rest =>
      simp only [loopT] at h
      cases hev : evalAt g data idx c with
      | none => simp [hev] at h
      | some x =>
        cases x with
        | e => simp [hev] at h
        | f => simp [hev] at h
        | t =>
          have ha' : ∀ v, v ∈ c :: acc → evalAt g data idx v = some .t := by
            intro v hv; simp at hv; rcases hv with rfl | hv
            · exact hev
            · exact ha v hv
          simp only [hev] at h
          by_cases hs : c = stop
          · simp only [hs, if_true, Option.some.injEq, Prod.mk.injEq, true_and] at h; subst h; rw [← hs]; exact ha'
          · simp only [hs, if_false] at h
            exact ih _ _ acc' ha' h


/-! ### activation flags -/

theorem applyVerdict_length (fl : List Bool) (v : Nat) (x : V) : (applyVerdict fl v x).length = fl.length := by
  cases x <;> simp [applyVerdict, setFlag]

theorem applyVerdict_ne (fl : List Bool) (u v : Nat) (x : V) (h : u ≠ v) : (applyVerdict fl u x)[v]? = fl[v]? := by
  cases x <;> simp [applyVerdict, setFlag, List.getElem?_set_ne h]

theorem applyLog_length (ev : Nat → Option V) : ∀ (log : List Nat) (fl : List Bool),
    (applyLog ev fl log).length = fl.length := by
  intro log
  induction log with
  | nil => intro fl; rfl
  | cons u us ih =>
    intro fl
    simp only [applyLog, List.foldl_cons] at ih ⊢
    rw [ih]
    cases ev u with
    | none => rfl
    | some x => exact applyVerdict_length fl u x

/-- a node that is not in the log keeps its activation flag -/
theorem applyLog_not_mem (ev : Nat → Option V) (v : Nat) : ∀ (log : List Nat) (fl : List Bool), v ∉ log →
    (applyLog ev fl log)[v]? = fl[v]? := by
  intro log
  induction log with
  | nil => intro fl _; rfl
  | cons u us ih =>
    intro fl hv
    simp only [List.mem_cons, not_or] at hv
    simp only [applyLog, List.foldl_cons] at ih ⊢
    rw [ih _ hv.2]
    cases ev u with
    | none => rfl
    | some x => exact applyVerdict_ne fl u v x (Ne.symm hv.1)

/-- if everything in the log evaluated to true, every logged node is active afterwards -/
theorem applyLog_all_true (ev : Nat → Option V) (v : Nat) : ∀ (log : List Nat) (fl : List Bool),
    (∀ u, u ∈ log → ev u = some .t) → v ∈ log → v < fl.length → (applyLog ev fl log)[v]? = some true := by
  intro log
  induction log with
  | nil => intro fl _ hv; simp at hv
  | cons u us ih =>
    intro fl hall hv hlen
    have hu := hall u (by simp)
    simp only [applyLog, List.foldl_cons, hu] at ih ⊢
    by_cases hvs : v ∈ us
    · exact ih _ (fun w hw => hall w (by simp [hw])) hvs (by rw [applyVerdict_length]; exact hlen)
    · have : v = u := by simpa [hvs] using hv
      subst this
      have := applyLog_not_mem ev v us (applyVerdict fl v .t) hvs
      simp only [applyLog] at this
      rw [this]
      simp [applyVerdict, setFlag, hlen]
end CausalGraph
