import DcVerif.Model.CsmPrim
/-! Model of `deep_causality/src/types/csm_types/mod.rs` (CSM), mirroring the code as it is today.

* `state_actions : RefCell<HashMap<usize, (&CausalState, &CausalAction)>>` is an association list with the
  `HashMap` behaviour: `upsert` overwrites in place or appends, `remove` erases the key (`Model/CsmPrim.lean`, shared
  with the definitions `tools/rs2lean_csm.py` generates from the source: `Gen/Csm.lean`).
* `CSM::new` and `update_all_states` register every pair of the slice under **the state's own id**
  (`*state.id()`), in slice order, so a later pair with the same id overwrites an earlier one;
  `add_single_state(idx, …)` / `update_single_state(idx, …)` use the **supplied index**, whatever id the
  state carries.
* `eval_single_state(id, data)` evaluates the causaloid on the *supplied* data (`eval_with_data`),
  `eval_all_states` on the data *stored* in each state (`eval`); both return at the first error (evaluation
  error, or `trigger && action.fire().is_err()`), so an action is invoked only when the verdict is `Ok(true)`.
* `eval_all_states` walks the hash map in its iteration order — external nondeterminism: the order is a
  parameter here (the list of ids as enumerated). -/
namespace Model.Csm
open Spec.Csm

variable {σ α δ : Type}

/-- `CSM::len` -/
def len (t : Table σ α) : Nat := t.length
/-- `CSM::is_empty` -/
def isEmpty (t : Table σ α) : Bool := t.isEmpty

/-- the loop of `CSM::new` / `update_all_states`: `state_map.upsert(*state.id(), (state, action))` -/
def ofSlice (key : σ → Nat) (l : List (σ × α)) : Table σ α :=
  l.foldl (fun t sa => upsert t (key sa.1) sa) []

/-- `add_single_state` -/
def addSingle (t : Table σ α) (k : Nat) (v : σ × α) : Table σ α × Out σ α δ :=
  if (lookup t k).isSome then (t, .fail)            -- "State {} already exists."
  else (upsert t k v, .done)

/-- `remove_single_state` -/
def removeSingle (t : Table σ α) (k : Nat) : Table σ α × Out σ α δ :=
  if (lookup t k).isNone then (t, .fail)            -- "does not exists and cannot be removed"
  else (delete t k, .done)

/-- `update_single_state` -/
def updateSingle (t : Table σ α) (k : Nat) (v : σ × α) : Table σ α × Out σ α δ :=
  if (lookup t k).isNone then (t, .fail)            -- "does not exists. Add it first"
  else (upsert t k v, .done)

/-- the body shared by `eval_single_state` and the loop of `eval_all_states`, after `state`/`action` are known:
```
let eval = state.eval…(data);  if eval.is_err() { return Err }
let trigger = eval.expect(..); if trigger && action.fire().is_err() { return Err }
```
-/
def evalEntry (env : Env σ α δ) (s : σ) (a : α) (d : δ) : Out σ α δ :=
  let eval := env.eval s d
  if eval == .err then ⟨false, [.call s d]⟩
  else
    let trigger := eval == .okTrue
    if trigger then
      if !env.fire a then ⟨false, [.call s d, .fire a]⟩ else ⟨true, [.call s d, .fire a]⟩
    else ⟨true, [.call s d]⟩

/-- `eval_single_state(id, data)` -/
def evalSingle (env : Env σ α δ) (t : Table σ α) (k : Nat) (d : δ) : Out σ α δ :=
  match lookup t k with
  | none => .fail                                -- "State {} does not exists."
  | some (s, a) => evalEntry env s a d

/-- `eval_all_states`, for the iteration order `order` (ids not in the table are skipped — a real
enumeration never contains one) -/
def evalAll (env : Env σ α δ) (t : Table σ α) : List Nat → Out σ α δ
  | [] => ⟨true, []⟩
  | k :: rest =>
    match lookup t k with
    | none => evalAll env t rest
    | some (s, a) =>
      let o := evalEntry env s a (env.stored s)
      if o.ok then
        let r := evalAll env t rest
        ⟨r.ok, o.log ++ r.log⟩
      else o

def step (key : σ → Nat) (t : Table σ α) : Op σ α δ → Table σ α × Out σ α δ
  | .new l => (ofSlice key l, .done)
  | .updateAll l => (ofSlice key l, .done)
  | .add k s a => addSingle t k (s, a)
  | .remove k => removeSingle t k
  | .update k s a => updateSingle t k (s, a)
  | .evalSingle env k d => (t, evalSingle env t k d)
  | .evalAll env order => (t, evalAll env t order)

/-- a history, oldest call first -/
def run (key : σ → Nat) (t : Table σ α) : List (Op σ α δ) → Table σ α × List (Out σ α δ)
  | [] => (t, [])
  | op :: rest =>
    let r := step key t op
    let rr := run key r.1 rest
    (rr.1, r.2 :: rr.2)

def keys (t : Table σ α) : List Nat := t.map (·.1)

end Model.Csm
