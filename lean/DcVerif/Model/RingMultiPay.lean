import DcVerif.Model.RingMulti
import DcVerif.Model.RingPay
/-!
Payload layer on top of the **multi-producer** pipeline model (`Model/RingMulti.lean`): slot contents and what each handler
saw — the multi-producer counterpart of `Model/RingPay.lean`, in the same ghost-layer style. `stepMPay` performs the system
step `stepM` and, for a writer's slot write or a handler call, its effect on the slot array (`RingBuffer<T, N>`: index =
sequence mod n). Used for the payload clauses of C04 and C13 and by the trace replay of the driver.

Where the written value comes from. With several writer threads the value stored for a sequence is not a function of the
sequence: it is the next item of the *claimant's* own item stream (`Producer::write(items, f)` hands `f` the slot, the sequence
and the item). So the configuration carries `pay writer m seq` — the value writer `writer` stores when it writes its `m`-th
event (counted from 0 over all its `write` calls) to sequence `seq` — which covers "function of (writer, sequence)" as well as
the harness' `((writer+1) << 32) | counter`; the layer keeps the per-writer event counter `cnt`. For the theorems the layer
records, as ghost state, *the value written for a sequence*: `val : Nat → Nat` (updated at every slot write) and the log `wlog`
of all slot writes `(sequence, writer, value)`. The property theorems are then stated against a function of the sequence alone
(`val`), exactly as for the single producer (`c.pay`), and three separate facts tie `val` to the writers: every sequence is
written at most once, by a holder of a claim containing it; `val q` is the value of that one write; and that value is the
`pay` of the writer's `m`-th event (`Lemmas/RingMultiPay.lean`: `MOnce`, `MLogInv`).
-/
namespace RingMultiPay
open Ring RingMulti RingPay

/-- what the pipeline does with payloads: the value a writer stores for its `m`-th event when it lands on sequence `q`
(`pay writer m q`), which handlers are mutable, and how a mutable handler transforms the event -/
structure MPCfg where
  pay  : Nat → Nat → Nat → Nat
  mutH : Nat → Nat → Bool
  tf   : Nat → Nat → Nat → Nat

/-- the handler side of the configuration in the shape of `RingPay.PCfg`, so that `expectUpTo` / `expectBelow` / `Topo` and the
consumer-side lemmas of `Lemmas/RingPay.lean` are reused as they are (they never read `pay`) -/
def MPCfg.hc (c : MPCfg) : PCfg := { pay := fun _ => 0, mutH := c.mutH, tf := c.tf }

structure MPaySt where
  x    : MSt
  slot : Nat → Nat := fun _ => 0
  seen : Nat → Nat → List (Nat × Nat) := fun _ _ => []   -- per handler: (sequence, payload seen), in order
  cnt  : Nat → Nat := fun _ => 0                          -- per writer: events written so far (the item stream position)
  val  : Nat → Nat := fun _ => 0                          -- ghost: the value written for a sequence
  wlog : List (Nat × Nat × Nat) := []                     -- ghost: every slot write (sequence, writer, value), in order

/-- one step: the system step of `Model/RingMulti.lean` plus its effect on the slots (a writer's slot write; a handler call,
which for a mutable handler stores the transformed event back) -/
def stepMPay (c : MPCfg) (s : MPaySt) : MTid → MPaySt
  | .writer i =>
    let w := s.x.wr i
    if i < s.x.P ∧ w.pc = .write ∧ w.w ≤ w.hi then
      let v := c.pay i (s.cnt i) w.w
      { s with x := stepM s.x (.writer i), slot := updN s.slot (w.w % s.x.s.n) v,
               cnt := updN s.cnt i (s.cnt i + 1), val := updN s.val w.w v, wlog := s.wlog ++ [(w.w, i, v)] }
    else { s with x := stepM s.x (.writer i) }
  | .drainer => { s with x := stepM s.x .drainer }
  | .cons k j =>
    if k < s.x.s.K ∧ j < s.x.s.h k then
      let cc := s.x.s.cons k j
      if cc.pc = .handle ∧ cc.i ≤ cc.avail then
        let v := s.slot (cc.i % s.x.s.n)
        { s with x := stepM s.x (.cons k j),
                 seen := updL s.seen k j (s.seen k j ++ [(cc.i, v)]),
                 slot := if c.mutH k j then updN s.slot (cc.i % s.x.s.n) (c.tf k j v) else s.slot }
      else { s with x := stepM s.x (.cons k j) }
    else s

def runMPay (c : MPCfg) (s : MPaySt) (sched : List MTid) : MPaySt := sched.foldl (stepMPay c) s

def mkMPay (n K : Nat) (h : Nat → Nat) (blocking : Bool) (batches : List (List Nat)) : MPaySt :=
  { x := mkM n K h blocking batches }

/-- the layer is a ghost: its projection is the system step -/
theorem stepMPay_x (c : MPCfg) (s : MPaySt) (t : MTid) : (stepMPay c s t).x = stepM s.x t := by
  cases t with
  | writer i => simp only [stepMPay]; split <;> rfl
  | drainer => rfl
  | cons k j =>
    simp only [stepMPay]
    split
    · split <;> rfl
    · rename_i h; simp [stepM, h]

/-- rebuild the function-indexed parts from tables and drop the ghost log (for long trace replays) -/
def compactMPay (s : MPaySt) : MPaySt :=
  let arr := ((List.range s.x.s.n).map s.slot).toArray
  let carr := ((List.range s.x.P).map s.cnt).toArray
  { x := compactM s.x, slot := fun i => arr.getD i 0, cnt := fun i => carr.getD i 0 }

end RingMultiPay
