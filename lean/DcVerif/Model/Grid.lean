import DcVerif.Gen.GridAddr
import DcVerif.Spec.Grid
/-! Model glue for C17: running `set`/`get` lines on the *generated* `Gen.Grid.ArraySafeGrid` /
`ArrayUnsafeGrid` (regenerated from the Rust source on every run). A panic leaves the grid as it was
(the bounds checks of `a[i][j]… = v` precede the store). -/
namespace Model.Grid
open Gen.Grid Spec.Grid

def dim : Kind → Nat
  | .k1 => 1
  | .k2 => 2
  | .k3 => 3
  | .k4 => 4

/-- the `PointIndex` a coordinate list denotes: the constructor of the list's length -/
def ptOf : Key → Pt
  | [x] => Pt.new1d x
  | [x, y] => Pt.new2d x y
  | [x, y, z] => Pt.new3d x y z
  | [x, y, z, t] => Pt.new4d x y z t
  | _ => Pt.new1d 0

def exts (e : Ext) : List Nat := [e.W, e.H, e.D, e.C]

/-- the two generated implementations behind one interface -/
structure Impl (σ : Type) where
  new : Kind → σ
  get : Ext → σ → Pt → Option Int
  set : Ext → σ → Pt → Int → Option σ

def safeImpl : Impl ArraySafeGrid := ⟨ArraySafeGrid.new, ArraySafeGrid.get, ArraySafeGrid.set⟩
def unsafeImpl : Impl ArrayUnsafeGrid := ⟨ArrayUnsafeGrid.new, ArrayUnsafeGrid.get, ArrayUnsafeGrid.set⟩

def step {σ : Type} (I : Impl σ) (e : Ext) (g : σ) : Op → σ × Ans
  | .set p v => match I.set e g (ptOf p) v with
    | some g' => (g', .ok)
    | none => (g, .panic)
  | .get p => match I.get e g (ptOf p) with
    | some v => (g, .val v)
    | none => (g, .panic)

/-- oldest first; the answers in the same order -/
def run {σ : Type} (I : Impl σ) (e : Ext) (g : σ) : List Op → σ × List Ans
  | [] => (g, [])
  | op :: rest =>
    let r := step I e g op
    let rr := run I e r.1 rest
    (rr.1, r.2 :: rr.2)

end Model.Grid
