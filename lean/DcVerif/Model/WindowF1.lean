import DcVerif.Model.Window
/-! The safe vector storage **as it was when the known finding F1 was recorded** (`storage_vec.rs` of /repo at the time
`Gen/Window.lean` was first generated): a frozen copy of the generated `vec…` definitions. It is not used by any theorem.
Its only purpose is to let the driver recognise F1: a run of the real `VectorStorage` counts as the *known* finding only if
the implementation answers exactly what this frozen model answers (and differs from the specification only in the
window-bound fields). The live model `Gen.Window.vec…` follows the source, so it would agree with *any* changed
`storage_vec.rs`; without the frozen copy a new defect of the vector storage could hide behind F1.
Delete this file (and the `pin` field of the driver) when F1 is repaired in /repo. -/
set_option linter.unusedVariables false
namespace Model.WindowF1
open Model.Window

variable {α : Type}

/-- storage_safe/storage_vec.rs :: VectorStorage::new -/
def vecNew (size multiple : Nat) (d : α) : Out (St α) :=
  .ok { buf := List.replicate (size * multiple) d, size := size, cap := size * multiple, head := 0, tail := 0 }

/-- storage_safe/storage_vec.rs :: <VectorStorage as WindowStorage>::push -/
def vecPush (self : St α) (value : α) : Out (St α) :=
  if self.tail < self.cap then
    if self.tail ≥ self.buf.length then .panic else
    if self.tail + 1 < self.head then .panic else
    if self.tail + 1 - self.head > self.size then
      .ok { self with buf := self.buf.set self.tail value, head := self.head + 1, tail := self.tail + 1 }
    else
      .ok { self with buf := self.buf.set self.tail value, tail := self.tail + 1 }
  else
    if self.head > self.head + self.size then .panic else
    if self.head + self.size > self.buf.length then .panic else
    if self.head + self.size - self.head > self.buf.length then .panic else
    if self.size ≥ self.buf.length then .panic else
    .ok { self with buf := (memmove self.buf self.head 0 (self.head + self.size - self.head)).set self.size value, head := 0, tail := self.size + 1 }

/-- storage_safe/storage_vec.rs :: <VectorStorage as WindowStorage>::first -/
def vecFirst (self : St α) : Out (α) :=
  if self.tail = 0 then
    .err
  else
    match self.buf[self.head]? with
    | none => .panic
    | some x1 =>
      .ok x1

/-- storage_safe/storage_vec.rs :: <VectorStorage as WindowStorage>::filled -/
def vecFilled (self : St α) : Out (Bool) :=
  .ok (decide (self.tail ≥ self.size))

/-- storage_safe/storage_vec.rs :: <VectorStorage as WindowStorage>::last -/
def vecLast (self : St α) : Out (α) :=
  match vecFilled self with
  | .err => .err
  | .panic => .panic
  | .ub => .ub
  | .ok b1 =>
    if ¬ b1 = true then
      .err
    else
      if self.tail < 1 then .panic else
      match self.buf[self.tail - 1]? with
      | none => .panic
      | some x2 =>
        .ok x2

/-- storage_safe/storage_vec.rs :: <VectorStorage as WindowStorage>::tail -/
def vecTail (self : St α) : Out (Nat) :=
  .ok self.tail

/-- storage_safe/storage_vec.rs :: <VectorStorage as WindowStorage>::size -/
def vecSize (self : St α) : Out (Nat) :=
  .ok self.size

/-- storage_safe/storage_vec.rs :: <VectorStorage as WindowStorage>::get_slice -/
def vecGetSlice (self : St α) : Out (List α) :=
  if self.head > self.tail then .panic else
  if self.tail > self.buf.length then .panic else
  .ok ((self.buf.drop self.head).take (self.tail - self.head))

/-- storage.rs :: WindowStorage::empty (default method) for VectorStorage -/
def vecEmpty (self : St α) : Out (Bool) :=
  match vecTail self with
  | .err => .err
  | .panic => .panic
  | .ub => .ub
  | .ok n1 =>
    .ok (decide (n1 = 0))

/-- storage.rs :: WindowStorage::arr (default method) for VectorStorage -/
def vecArr (self : St α) (S : Nat) (d : α) : Out (List α) :=
  match vecFilled self with
  | .err => .err
  | .panic => .panic
  | .ub => .ub
  | .ok b1 =>
    if ¬ b1 = true then
      .err
    else
      match vecGetSlice self with
      | .err => .err
      | .panic => .panic
      | .ub => .ub
      | .ok l2 =>
        match vecSize self with
        | .err => .err
        | .panic => .panic
        | .ub => .ub
        | .ok n3 =>
          if n3 > S then .panic else
          if n3 > l2.length then .panic else
          if (l2.take n3).length ≠ n3 then .panic else
          .ok (l2.take n3 ++ (List.replicate S d).drop n3)

/-- storage.rs :: WindowStorage::slice (default method) for VectorStorage -/
def vecSlice (self : St α) : Out (List α) :=
  match vecFilled self with
  | .err => .err
  | .panic => .panic
  | .ub => .ub
  | .ok b1 =>
    if ¬ b1 = true then
      .err
    else
      match vecGetSlice self with
      | .err => .err
      | .panic => .panic
      | .ub => .ub
      | .ok l2 =>
        .ok l2

/-- storage.rs :: WindowStorage::vec (default method) for VectorStorage -/
def vecVec (self : St α) : Out (List α) :=
  match vecFilled self with
  | .err => .err
  | .panic => .panic
  | .ub => .ub
  | .ok b1 =>
    if ¬ b1 = true then
      .err
    else
      match vecGetSlice self with
      | .err => .err
      | .panic => .panic
      | .ub => .ub
      | .ok l2 =>
        .ok l2

/-- the observation of `Model.Window.observe`, computed by the frozen definitions -/
def observe (w : St α) (d : α) : Obs α :=
  { size := vecSize w, empty := vecEmpty w, filled := vecFilled w, first := vecFirst w, last := vecLast w,
    slice := vecSlice w, vec := vecVec w, arr := vecArr w w.size d }

end Model.WindowF1
