/-! Vocabulary shared by the *generated* model of the sliding-window storages (`Gen/Window.lean`, written by
`tools/rs2lean_window.py` from the Rust source) and the theorems about it. This file is the hand-written, assumed
part: what a call can end in, what a storage consists of, and what `copy_within` / `ptr::copy` do to a buffer.
Everything else of the C07 model is generated. core only, no Mathlib. -/
namespace Model.Window

/-- outcome of a call -/
inductive Out (β : Type) where
  | ok (b : β)   -- returned normally (`Ok(b)` for the fallible accessors)
  | err          -- `Err(String)`
  | panic        -- bounds check / overflow check / `assert!` failed
  | ub           -- precondition of an unchecked operation violated
deriving DecidableEq, Repr

/-- a storage: the over-allocated buffer (`arr: [T; CAPACITY]` resp. `vec: Vec<T>`), the window size, the capacity
(the field `capacity` of the vector storages, the const parameter `CAPACITY` of the array storages) and the window
bounds `head`/`tail` inside the buffer -/
structure St (α : Type) where
  buf  : List α
  size : Nat
  cap  : Nat
  head : Nat
  tail : Nat
deriving DecidableEq, Repr

variable {α : Type}

/-- `copy_within(s..s+n, d)` / `ptr::copy(p+s, p+d, n)`: memmove of `n` cells from index `s` to index `d`.
The generated code reaches it only behind the guards `s + n ≤ length` and `d + n ≤ length` (otherwise the Rust call
panics resp. is undefined); outside them the buffer is returned unchanged, which makes the length law unconditional. -/
def memmove (buf : List α) (s d n : Nat) : List α :=
  if s + n ≤ buf.length ∧ d + n ≤ buf.length then
    buf.take d ++ ((buf.drop s).take n ++ buf.drop (d + n))
  else buf

@[simp] theorem memmove_length (buf : List α) (s d n : Nat) : (memmove buf s d n).length = buf.length := by
  unfold memmove
  split
  · simp; omega
  · rfl

end Model.Window
