import DcVerif.Model.RingMulti
import DcVerif.Gen.Orderings
/-!
# Happens-before for the slot accesses of the multi-producer pipeline: vector clocks as ghost state on `Model/RingMulti`

Interleaving semantics (one facade operation per step, `RingMulti.stepM`) plus **vector clocks over slot accesses**
(DESIGN.md §5.4), as `Model/RingHB.lean` does for the single producer. A clock has one entry per *writer thread*
(`VC.pw a` = number of slot writes of writer `a` known — a writer's own slot writes are totally ordered by its program
order, so "knows the first `j` writes of writer `a`" is one number) and one entry per handler (`VC.ha k j` = number of slot
accesses of handler `(k,j)` known, as in `RingHB`). Which sequence the `m`-th write of writer `a` was is read off the ghost
log `MSt.written` (`wlog`), so "clock `v` knows the write of sequence `q`" is `KnowsW`.

Threads with a clock: every writer (`vcW`), the draining thread (`vcD`), every handler (`vcC`). Locations with a clock: the
cursor (`lcCur`), the high and the low watermark (`lcHw`, `lcLw`), every handler cursor (`lcH`) and every **word** of the
bitmap (`lcB ix`, indexed by the word index the generated `Gen.BitMap.{set,is_set,unset}_index` computes — the granularity at
which the facade reports `fetch_or` / `fetch_and` / `load`).

What transfers knowledge — and nothing else does:
* a plain **store** (`AtomicSequenceOrdered::set`: handler cursors, the low watermark) with ordering `o`: the location's clock
  *becomes* the storing thread's clock if `o.isRelease`, the empty clock otherwise;
* a **load** (`AtomicSequenceOrdered::get`, `BitMap::is_set`) with ordering `o`: joins the location's clock into the thread's if
  `o.isAcquire`;
* a **read-modify-write** (`compare_exchange` success on the cursor / the high watermark, `fetch_or`, `fetch_and`) with
  ordering `o`: first the acquire side (as a load), then, if `o.isRelease`, the thread's clock is *joined into* the location's
  clock; if not, the location's clock stays (an RMW continues the release sequences it reads from, whatever its ordering);
* a **failed** `compare_exchange` is a load with the failure ordering.

All seven orderings are parameters (`Ords`); the instance the theorems are about is `srcOrds`, taken from
`Gen.Orderings` (regenerated from `atomic_sequence_ordered.rs` and `bit_map.rs` on every run).

Not used (each omission only removes happens-before edges, which is sound for "every conflicting pair is ordered"): the mutex
and condvar of the blocking strategy, the `is_done` flag, spawn / join edges (the draining thread's `join` of the writers).
-/
namespace RingMultiHB
open Ring RingMulti Gen.Orderings

/-- vector clock over slot accesses -/
structure VC where
  pw : Nat → Nat := fun _ => 0             -- slot writes of writer thread `a` known
  ha : Nat → Nat → Nat := fun _ _ => 0     -- slot accesses of handler `(k,j)` known

def VC.join (a b : VC) : VC := ⟨fun i => max (a.pw i) (b.pw i), fun k j => max (a.ha k j) (b.ha k j)⟩
def VC.incH (a : VC) (k j : Nat) : VC :=
  ⟨a.pw, fun k' j' => if k' = k ∧ j' = j then a.ha k' j' + 1 else a.ha k' j'⟩
def VC.incW (a : VC) (i : Nat) : VC := ⟨fun i' => if i' = i then a.pw i' + 1 else a.pw i', a.ha⟩

/-- clock attached to a location by a plain store with ordering `o` of a thread whose clock is `thread` -/
def storeClock (o : Ord) (thread : VC) : VC := if o.isRelease then thread else {}
/-- clock of a thread after a load (or the acquire side of an RMW) with ordering `o` from a location carrying `loc` -/
def loadClock (o : Ord) (thread loc : VC) : VC := if o.isAcquire then thread.join loc else thread
/-- clock of a location after an RMW with ordering `o` by a thread whose clock (after the acquire side) is `thread'` -/
def rmwClock (o : Ord) (thread' loc : VC) : VC := if o.isRelease then loc.join thread' else loc

/-- the memory orderings of the seven kinds of atomic operation the multi-producer pipeline performs -/
structure Ords where
  get     : Ord   -- `AtomicSequenceOrdered::get`
  set     : Ord   -- `AtomicSequenceOrdered::set`
  casOk   : Ord   -- `compare_and_swap`, success
  casFail : Ord   -- `compare_and_swap`, failure
  bLoad   : Ord   -- `BitMap::is_set`   (`load`)
  bOr     : Ord   -- `BitMap::set`      (`fetch_or`)
  bAnd    : Ord   -- `BitMap::unset`    (`fetch_and`)

/-- the orderings the source uses today -/
def srcOrds : Ords :=
  { get := seqGet, set := seqSet, casOk := seqCasOk, casFail := seqCasFail, bLoad := bmLoad, bOr := bmOr, bAnd := bmAnd }

/-- system state + ghost clocks -/
structure HMSt where
  x     : MSt
  vcW   : Nat → VC := fun _ => {}               -- writer threads
  vcD   : VC := {}                              -- draining thread
  vcC   : Nat → Nat → VC := fun _ _ => {}       -- handler threads
  lcCur : VC := {}                              -- cursor
  lcHw  : VC := {}                              -- high watermark
  lcLw  : VC := {}                              -- low watermark
  lcH   : Nat → Nat → VC := fun _ _ => {}       -- handler cursors
  lcB   : Nat → VC := fun _ => {}               -- bitmap words

def updV (f : Nat → Nat → VC) (k j : Nat) (v : VC) : Nat → Nat → VC :=
  fun k' j' => if k' = k ∧ j' = j then v else f k' j'
def updV1 (f : Nat → VC) (i : Nat) (v : VC) : Nat → VC := fun i' => if i' = i then v else f i'

/-- clock of the location the `d`-th dependency of a stage-`k` handler lives in -/
def depClock (s : HMSt) (k d : Nat) : VC := if k = 0 then s.lcCur else s.lcH (k-1) d

/-! ## handlers (as in `RingHB`; stage 0 waits on the multi-producer cursor) -/

def consV (get : Ord) (s : HMSt) (k j : Nat) : VC :=
  let c := s.x.s.cons k j
  match c.pc with
  | .readOwn => loadClock get (s.vcC k j) (s.lcH k j)
  | .waitLoad => if c.idx < ndeps s.x.s k then loadClock get (s.vcC k j) (depClock s k c.idx) else s.vcC k j
  | .handle => if c.i ≤ c.avail then (s.vcC k j).incH k j else s.vcC k j
  | _ => s.vcC k j

def consL (set : Ord) (s : HMSt) (k j : Nat) : VC :=
  match (s.x.s.cons k j).pc with
  | .publish => storeClock set (s.vcC k j)
  | _ => s.lcH k j

/-! ## writers -/

/-- word of the bitmap an operation on sequence `q` touches (`f` = the generated index function of that operation) -/
def wordIx (x : MSt) (f : Gen.BitMap.BitMap → Nat → Nat) (q : Nat) : Nat := bmIndex x f q

/-- new clock of writer thread `i` after its step -/
def writerV (o : Ords) (s : HMSt) (i : Nat) : VC :=
  let w := s.x.wr i; let v := s.vcW i
  match w.pc with
  | .readHw => loadClock o.get v s.lcHw
  | .capLoad => if w.idx < ngate s.x.s then loadClock o.get v (s.lcH (s.x.s.K - 1) w.idx) else v
  | .casHw => if s.x.hw = w.hwSeen then loadClock o.casOk v s.lcHw else loadClock o.casFail v s.lcHw
  | .write => if w.w ≤ w.hi then v.incW i else v
  | .setBit => if w.nbit ≤ w.hi then loadClock o.bOr v (s.lcB (wordIx s.x Gen.BitMap.set_index w.nbit)) else v
  | .readLw => loadClock o.get v s.lcLw
  | .scan =>
      if w.good < w.hi then loadClock o.bLoad v (s.lcB (wordIx s.x Gen.BitMap.is_set_index (w.good + 1))) else v
  | .unsetBit => if w.u ≤ w.good then loadClock o.bAnd v (s.lcB (wordIx s.x Gen.BitMap.unset_index w.u)) else v
  | .casCur => if s.x.s.cursor = w.cur then loadClock o.casOk v s.lcCur else loadClock o.casFail v s.lcCur
  | .reloadCur => loadClock o.get v s.lcCur
  | _ => v

/-- the cursor's clock after a step of writer `i`: a successful `compare_and_swap` is an RMW -/
def writerCur (o : Ords) (s : HMSt) (i : Nat) : VC :=
  match (s.x.wr i).pc with
  | .casCur => if s.x.s.cursor = (s.x.wr i).cur then rmwClock o.casOk (writerV o s i) s.lcCur else s.lcCur
  | _ => s.lcCur

def writerHw (o : Ords) (s : HMSt) (i : Nat) : VC :=
  match (s.x.wr i).pc with
  | .casHw => if s.x.hw = (s.x.wr i).hwSeen then rmwClock o.casOk (writerV o s i) s.lcHw else s.lcHw
  | _ => s.lcHw

/-- `low_watermark.set(good)` is a plain store -/
def writerLw (o : Ords) (s : HMSt) (i : Nat) : VC :=
  match (s.x.wr i).pc with
  | .setLw => storeClock o.set (s.vcW i)
  | _ => s.lcLw

/-- `fetch_or` / `fetch_and` on a bitmap word are RMWs -/
def writerB (o : Ords) (s : HMSt) (i : Nat) : Nat → VC :=
  let w := s.x.wr i
  match w.pc with
  | .setBit =>
      if w.nbit ≤ w.hi then
        let ix := wordIx s.x Gen.BitMap.set_index w.nbit
        updV1 s.lcB ix (rmwClock o.bOr (writerV o s i) (s.lcB ix))
      else s.lcB
  | .unsetBit =>
      if w.u ≤ w.good then
        let ix := wordIx s.x Gen.BitMap.unset_index w.u
        updV1 s.lcB ix (rmwClock o.bAnd (writerV o s i) (s.lcB ix))
      else s.lcB
  | _ => s.lcB

/-! ## the draining thread (loads only; it accesses no slot) -/

def drainV (o : Ords) (s : HMSt) : VC :=
  let d := s.x.dr
  match d.pc with
  | .readCur => loadClock o.get s.vcD s.lcCur
  | .drainLoad => if d.idx < ngate s.x.s then loadClock o.get s.vcD (s.lcH (s.x.s.K - 1) d.idx) else s.vcD
  | _ => s.vcD

/-- ghost step on top of `RingMulti.stepM` -/
def stepMH (o : Ords) (s : HMSt) : MTid → HMSt
  | .writer i =>
    if i < s.x.P then
      { s with x := stepWriter s.x i, vcW := updV1 s.vcW i (writerV o s i), lcCur := writerCur o s i,
               lcHw := writerHw o s i, lcLw := writerLw o s i, lcB := writerB o s i }
    else s
  | .drainer => { s with x := stepDrainer s.x, vcD := drainV o s }
  | .cons k j =>
    if k < s.x.s.K ∧ j < s.x.s.h k then
      { s with x := { s.x with s := stepC s.x.s k j },
               vcC := updV s.vcC k j (consV o.get s k j), lcH := updV s.lcH k j (consL o.set s k j) }
    else s

/-- the step with the orderings the source uses today -/
def stepSrc : HMSt → MTid → HMSt := stepMH srcOrds

def runMH (o : Ords) (s : HMSt) (sched : List MTid) : HMSt := sched.foldl (stepMH o) s
def runSrc (s : HMSt) (sched : List MTid) : HMSt := sched.foldl stepSrc s

/-- initial state: the pipeline of `RingMulti.mkM`, all clocks empty -/
def mkMH (n K : Nat) (h : Nat → Nat) (blocking : Bool) (batches : List (List Nat)) : HMSt :=
  { x := mkM n K h blocking batches }

/-! ## knowledge of slot writes, obligations -/

/-- the sequences writer `a` has written to slots, in its program order (from the ghost log `MSt.written`) -/
def wlog (W : List (Nat × Nat)) (a : Nat) : List Nat := (W.filter (fun e => e.2 == a)).map (·.1)

/-- clock `v` knows the slot write of sequence `q`: it is the `m`-th write (counting from 0) of some writer `a`, and `v`
knows more than `m` writes of `a` -/
def KnowsW (W : List (Nat × Nat)) (v : VC) (q : Nat) : Prop := ∃ a m, (wlog W a)[m]? = some q ∧ m < v.pw a

/-- "clock `v` covers counter value `b` as seen from stage `k`": the slot write of every sequence `1 … b` (R1; and the
write of the previous occupant of every such slot), every access up to `b` of every handler of every stage `< k` (R2),
every handler's accesses up to `b - n` (R3 / R4) -/
structure CoversM (W : List (Nat × Nat)) (K : Nat) (h : Nat → Nat) (n : Nat) (v : VC) (k : Nat) (b : Nat) : Prop where
  pw   : ∀ q, 1 ≤ q → q ≤ b → KnowsW W v q
  prev : ∀ k' j', k' < k → k' < K → j' < h k' → b ≤ v.ha k' j'
  old  : ∀ k' j', k' < K → j' < h k' → b ≤ v.ha k' j' + n

/-- the race-freedom obligations, stated on a state (they are checked *before* the access step) -/
structure RaceFreeM (s : HMSt) : Prop where
  /-- R1, R2, R4: a handler about to handle `i` knows the slot write of `i` (of every sequence up to `i`, hence also of
  `i - n`), every access of `i` by every handler of every earlier stage, and every handler's access of `i - n` -/
  reader : ∀ k j, k < s.x.s.K → j < s.x.s.h k → (s.x.s.cons k j).pc = .handle →
             (s.x.s.cons k j).i ≤ (s.x.s.cons k j).avail →
             CoversM s.x.written s.x.s.K s.x.s.h s.x.s.n (s.vcC k j) k (s.x.s.cons k j).i
  /-- R3: a writer about to write `w` knows every handler's access of `w - n` -/
  writer : ∀ a, a < s.x.P → (s.x.wr a).pc = .write → (s.x.wr a).w ≤ (s.x.wr a).hi →
             ∀ k j, k < s.x.s.K → j < s.x.s.h k → (s.x.wr a).w ≤ (s.vcW a).ha k j + s.x.s.n
  /-- writer / writer across laps: a writer about to write `w` knows the slot write of every sequence at least one lap
  below `w` (in particular of `w - n`, `w - 2n`, …: every earlier write to the same slot, whichever writer made it) -/
  writerW : ∀ a, a < s.x.P → (s.x.wr a).pc = .write → (s.x.wr a).w ≤ (s.x.wr a).hi →
             ∀ q, 1 ≤ q → q + s.x.s.n ≤ (s.x.wr a).w → KnowsW s.x.written (s.vcW a) q

end RingMultiHB
