/-!
# The Disruptor pipeline with the single-producer sequencer, at the granularity of its synchronisation operations

One model step = one operation of the `verif_sync` facade of the real code (a load / store of a sequence
counter, `is_done`, a mutex lock / unlock, a condvar wait / notify) or one logged non-synchronising action
(a handler call, a slot write), or an *internal* step that only moves a thread's program counter.

Mirrors, line by line:
* `BatchEventProcessor::run` (consumer/batch_event_processor.rs) — `readOwn … publish`, then `signal`;
* `SpinLoopWaitStrategy::wait_for`, `BlockingWaitStrategy::wait_for` / `signal` (wait_strategy/*.rs);
* `get_min_cursor_sequence` (utils/cursor_sequence.rs) — one load per dependency, running minimum;
* `SingleProducerSequencer::next / publish / drain / Drop` and `Producer::write` (producer/single_producer.rs);
* the wiring of `RustDisruptorBuilder` (dsl/rust_disruptor_builder.rs): stage 0 waits on the producer cursor,
  stage `k+1` on all handler cursors of stage `k`, the producer is gated by the last stage only.

State is function-indexed (`cons k j`), every thread is a pc machine. Blocking: `mtx` is the owner of the wait
strategy's mutex; a `lock` step of a thread that finds it taken is a stutter; `cvwait` releases the mutex and
clears the thread's `woken` flag; `notify` sets the flag of every thread; `relock` needs the flag and the free
mutex. Sequence numbers are `Nat`; the only unsigned subtractions of the source are `count - 1` in `next`
(batches are ≥ 1, kept as a hypothesis) and `next_write_sequence.saturating_sub(1)` in `drain` (= `Nat` `-`).
-/
namespace Ring

inductive Tid
  | prod
  | cons (k j : Nat)
deriving DecidableEq, Repr

/-- consumer program counter -/
inductive CPc
  | readOwn       -- `cursor.get()`                         : load own cursor
  | bLock         -- blocking `wait_for`: `guard.lock()`
  | bAlert        -- blocking: `check_alert()` under the lock : load is_done
  | waitLoad      -- `get_min_cursor_sequence`: load dependency `idx`; internal when all are loaded
  | checkAvail    -- internal: `available >= sequence` ?
  | checkAlert    -- spin: `check_alert()`                  : load is_done
  | bUnlockGo     -- blocking: return Some(available)       : unlock
  | bWait         -- blocking: `cvar.wait(blocked)`         : release + park
  | bRelock       -- blocking: woken, re-acquire the mutex
  | bUnlockRetry  -- blocking: `_guard` dropped             : unlock, loop
  | bUnlockExit   -- blocking: return None                  : unlock
  | handle        -- `handle_event(i)`; internal when `i > available`
  | publish       -- `cursor.set(available)`                : store own cursor
  | sLock | sNotify | sUnlock   -- blocking `barrier.signal()`
  | done
deriving DecidableEq, Repr

structure Cons where
  pc    : CPc := .readOwn
  next  : Nat := 0
  avail : Nat := 0
  acc   : Option Nat := none
  idx   : Nat := 0
  i     : Nat := 0
  cur   : Nat := 0            -- the handler's published cursor (shared, written by this thread only)
  log   : List Nat := []      -- ghost: sequences handed to the handler, in order
deriving Repr

structure St where
  n        : Nat                 -- ring size
  K        : Nat                 -- number of barrier stages
  h        : Nat → Nat           -- handlers per stage
  blocking : Bool := false
  cursor   : Nat := 0            -- producer cursor
  isDone   : Bool := false
  mtx      : Option Tid := none  -- owner of the wait strategy's mutex
  woken    : Nat → Nat → Bool := fun _ _ => false
  cons     : Nat → Nat → Cons

def minOpt (a : Option Nat) (v : Nat) : Option Nat :=
  match a with | none => some v | some m => some (Nat.min m v)

/-- number of dependencies and the d-th dependency of a stage-k consumer (the builder's wiring) -/
def ndeps (s : St) (k : Nat) : Nat := if k = 0 then 1 else s.h (k-1)
def dep (s : St) (k d : Nat) : Nat := if k = 0 then s.cursor else (s.cons (k-1) d).cur

/-- the consumer's new local state; `me` is its thread id (needed for the mutex) -/
def stepCons (s : St) (k j : Nat) (c : Cons) : Cons :=
  match c.pc with
  | .readOwn =>
      if s.blocking then { c with next := c.cur + 1, pc := .bLock }
      else { c with next := c.cur + 1, pc := .waitLoad, acc := none, idx := 0 }
  | .bLock => if s.mtx = none then { c with pc := .bAlert } else c
  | .bAlert =>
      if s.isDone then { c with pc := .bUnlockExit } else { c with pc := .waitLoad, acc := none, idx := 0 }
  | .waitLoad =>
      if c.idx < ndeps s k then
        { c with acc := minOpt c.acc (dep s k c.idx), idx := c.idx + 1 }
      else { c with avail := c.acc.getD 0, pc := .checkAvail }
  | .checkAvail =>
      if c.avail ≥ c.next then
        (if s.blocking then { c with pc := .bUnlockGo } else { c with pc := .handle, i := c.next })
      else (if s.blocking then { c with pc := .bWait } else { c with pc := .checkAlert })
  | .checkAlert =>
      if s.isDone then { c with pc := .done } else { c with pc := .waitLoad, acc := none, idx := 0 }
  | .bUnlockGo => { c with pc := .handle, i := c.next }
  | .bWait => { c with pc := .bRelock }
  | .bRelock => if s.woken k j ∧ s.mtx = none then { c with pc := .bUnlockRetry } else c
  | .bUnlockRetry => { c with pc := .bLock }
  | .bUnlockExit => { c with pc := .done }
  | .handle =>
      if c.i ≤ c.avail then { c with log := c.log ++ [c.i], i := c.i + 1 } else { c with pc := .publish }
  | .publish => { c with cur := c.avail, pc := if s.blocking then .sLock else .readOwn }
  | .sLock => if s.mtx = none then { c with pc := .sNotify } else c
  | .sNotify => { c with pc := .sUnlock }
  | .sUnlock => { c with pc := .readOwn }
  | .done => c

def upd (f : Nat → Nat → Cons) (k j : Nat) (c : Cons) : Nat → Nat → Cons :=
  fun k' j' => if k' = k ∧ j' = j then c else f k' j'

/-- effect of consumer `(k,j)`'s step on the mutex -/
def mtxAfterC (s : St) (k j : Nat) : Option Tid :=
  match (s.cons k j).pc with
  | .bLock | .sLock => if s.mtx = none then some (.cons k j) else s.mtx
  | .bRelock => if s.woken k j ∧ s.mtx = none then some (.cons k j) else s.mtx
  | .bUnlockGo | .bUnlockRetry | .bUnlockExit | .sUnlock | .bWait => none
  | _ => s.mtx

/-- effect on the wake-up flags: `cvwait` clears the own flag, `notify_all` sets all -/
def wokenAfterC (s : St) (k j : Nat) : Nat → Nat → Bool :=
  match (s.cons k j).pc with
  | .bWait => fun k' j' => if k' = k ∧ j' = j then false else s.woken k' j'
  | .sNotify => fun _ _ => true
  | _ => s.woken

def stepC (s : St) (k j : Nat) : St :=
  { s with cons := upd s.cons k j (stepCons s k j (s.cons k j)),
           mtx := mtxAfterC s k j, woken := wokenAfterC s k j }

/-! ## the single producer: `write` for every batch of `todo`, then `drain`, then `Drop` -/

inductive PPc
  | start       -- internal: next batch (`next`: take cached/next_write, compute start/end) or go drain
  | gateCheck   -- internal: `while min_sequence + buffer_size < end`
  | gateLoad    -- load gating sequence `idx`; internal when all are loaded
  | write       -- slot write of `w`; internal when the batch is written
  | publish     -- `cursor.set(hi)`
  | pLock | pNotify | pUnlock       -- blocking `signal()` of `publish`
  | drainInit   -- internal: `current = next_write_sequence.saturating_sub(1)`
  | drainLoad   -- load gating sequence `idx`; internal when all are loaded
  | drainCheck  -- internal: `min < current` ?
  | dLock | dNotify | dUnlock       -- blocking `signal()` inside the drain loop
  | setDone     -- `is_done.store(true)`
  | eLock | eNotify | eUnlock       -- blocking `signal()` after it
  | dropDone    -- `Drop`: `is_done.store(true)` again
  | fLock | fNotify | fUnlock       -- blocking `signal()` of `Drop`
  | done
deriving DecidableEq, Repr

structure Prod where
  pc        : PPc := .start
  todo      : List Nat := []
  nextWrite : Nat := 0
  cached    : Nat := 0
  min       : Nat := 0
  start     : Nat := 0
  stop      : Nat := 0
  w         : Nat := 0
  acc       : Option Nat := none
  idx       : Nat := 0
  current   : Nat := 0
  written   : List Nat := []     -- ghost: sequences written to slots, in order
  count     : Nat := 0           -- `count` argument of the current `next` call
  claims    : List (Nat × Nat × Nat) := []   -- ghost: (start, end, requested count) of every returned `next`
deriving Repr

structure PSt where
  s : St
  p : Prod

/-- gating sequences of the producer = cursors of the last stage -/
def ngate (s : St) : Nat := s.h (s.K - 1)
def gate (s : St) (d : Nat) : Nat := (s.cons (s.K - 1) d).cur

def stepProd (x : PSt) : PSt :=
  let p := x.p; let s := x.s
  match p.pc with
  | .start =>
      match p.todo with
      | [] => { x with p := { p with pc := .drainInit } }
      | b :: rest =>
        { x with p := { p with todo := rest, min := p.cached, start := p.nextWrite,
                                stop := p.nextWrite + (b - 1), count := b, pc := .gateCheck } }
  | .gateCheck =>
      if p.min + s.n < p.stop then { x with p := { p with pc := .gateLoad, acc := none, idx := 0 } }
      else
        let cl := p.claims ++ [(p.start, p.stop, p.count)]
        { x with p := { p with cached := p.min, nextWrite := p.stop + 1, w := p.start, pc := .write, claims := cl } }
  | .gateLoad =>
      if p.idx < ngate s then
        { x with p := { p with acc := minOpt p.acc (gate s p.idx), idx := p.idx + 1 } }
      else { x with p := { p with min := p.acc.getD 0, pc := .gateCheck } }
  | .write =>
      if p.w ≤ p.stop then { x with p := { p with w := p.w + 1, written := p.written ++ [p.w] } }
      else { x with p := { p with pc := .publish } }
  | .publish => { s := { s with cursor := p.stop }, p := { p with pc := if s.blocking then .pLock else .start } }
  | .pLock => if s.mtx = none then { s := { s with mtx := some .prod }, p := { p with pc := .pNotify } } else x
  | .pNotify => { s := { s with woken := fun _ _ => true }, p := { p with pc := .pUnlock } }
  | .pUnlock => { s := { s with mtx := none }, p := { p with pc := .start } }
  -- `take()` also resets the cell to 0; it is never read again (`drain` consumes the sequencer), so the model keeps the
  -- value as the ghost "number of sequences claimed"
  | .drainInit => { x with p := { p with current := p.nextWrite - 1, pc := .drainLoad, acc := none, idx := 0 } }
  | .drainLoad =>
      if p.idx < ngate s then
        { x with p := { p with acc := minOpt p.acc (gate s p.idx), idx := p.idx + 1 } }
      else { x with p := { p with min := p.acc.getD 0, pc := .drainCheck } }
  | .drainCheck =>
      if p.min < p.current then
        (if s.blocking then { x with p := { p with pc := .dLock } }
         else { x with p := { p with pc := .drainLoad, acc := none, idx := 0 } })
      else { x with p := { p with pc := .setDone } }
  | .dLock => if s.mtx = none then { s := { s with mtx := some .prod }, p := { p with pc := .dNotify } } else x
  | .dNotify => { s := { s with woken := fun _ _ => true }, p := { p with pc := .dUnlock } }
  | .dUnlock => { s := { s with mtx := none }, p := { p with pc := .drainLoad, acc := none, idx := 0 } }
  | .setDone => { s := { s with isDone := true }, p := { p with pc := if s.blocking then .eLock else .dropDone } }
  | .eLock => if s.mtx = none then { s := { s with mtx := some .prod }, p := { p with pc := .eNotify } } else x
  | .eNotify => { s := { s with woken := fun _ _ => true }, p := { p with pc := .eUnlock } }
  | .eUnlock => { s := { s with mtx := none }, p := { p with pc := .dropDone } }
  | .dropDone => { s := { s with isDone := true }, p := { p with pc := if s.blocking then .fLock else .done } }
  | .fLock => if s.mtx = none then { s := { s with mtx := some .prod }, p := { p with pc := .fNotify } } else x
  | .fNotify => { s := { s with woken := fun _ _ => true }, p := { p with pc := .fUnlock } }
  | .fUnlock => { s := { s with mtx := none }, p := { p with pc := .done } }
  | .done => x

/-- one step of the whole system: the scheduled thread moves (threads outside the topology do nothing) -/
def stepX (x : PSt) : Tid → PSt
  | .prod => stepProd x
  | .cons k j => if k < x.s.K ∧ j < x.s.h k then { x with s := stepC x.s k j } else x

/-- run a schedule -/
def runX (x : PSt) (sched : List Tid) : PSt := sched.foldl stepX x

/-- initial state of a pipeline: ring size `n`, `K` stages with `h k` handlers, the batches to write -/
def mk (n K : Nat) (h : Nat → Nat) (blocking : Bool) (batches : List Nat) : PSt :=
  { s := { n := n, K := K, h := h, blocking := blocking, cons := fun _ _ => {} }, p := { todo := batches } }

end Ring
