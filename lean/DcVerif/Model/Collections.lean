import DcVerif.Model.Reasoning
/-! Model for C12: the five container types the extensions implement the reasoning traits for
(`deep_causality/src/extensions/*/mod.rs` through `deep_causality_macros/src/collections.rs`), and
`CausableReasoning` over a collection of causaloids (`protocols/causable/mod.rs`).

* `make_get_all_items!` (`[T]`, `Vec`, `VecDeque`): `for item in self { all.push(&item) }` — the sequence.
* `make_get_all_map_items!` (`BTreeMap`, `HashMap`): `self.values().collect()` — ascending key order for the
  B-tree; for the hash map whatever order the table enumerates (external nondeterminism: a parameter here, the
  harness reports it).
* `make_len!` / `make_is_empty!`: the container's own `len()` / `is_empty()`.
* every other method is a trait default method over `get_all_items()` (and `len()`): `Model.Reasoning` for
  assumptions / inferences / observations, the definitions below for causaloids. -/
namespace Model.Collections

variable {α : Type}

/-! ## containers -/

/-- `BTreeMap::insert` on the sorted association list -/
def binsert : List (Nat × α) → Nat → α → List (Nat × α)
  | [], k, v => [(k, v)]
  | (j, w) :: r, k, v =>
    if k < j then (k, v) :: (j, w) :: r
    else if k = j then (k, v) :: r
    else (j, w) :: binsert r k v

/-- `HashMap::insert` on an association list -/
def hinsert : List (Nat × α) → Nat → α → List (Nat × α)
  | [], k, v => [(k, v)]
  | (j, w) :: r, k, v => if j = k then (k, v) :: r else (j, w) :: hinsert r k v

def hget : List (Nat × α) → Nat → Option α
  | [], _ => none
  | (j, v) :: r, k => if j = k then some v else hget r k

/-- a map built by inserting the pairs in sequence -/
def btreeOf (kvs : List (Nat × α)) : List (Nat × α) := kvs.foldl (fun m kv => binsert m kv.1 kv.2) []
def hashOf (kvs : List (Nat × α)) : List (Nat × α) := kvs.foldl (fun m kv => hinsert m kv.1 kv.2) []

inductive Container (α : Type) where
  | slice (l : List α)
  | vec (l : List α)
  | deque (l : List α)
  /-- built from the insertion sequence `kvs` -/
  | btree (kvs : List (Nat × α))
  /-- built from the insertion sequence `kvs`; `order` = the keys in the order `values()` enumerates them -/
  | hash (kvs : List (Nat × α)) (order : List Nat)

/-- `get_all_items()` -/
def items : Container α → List α
  | .slice l => l
  | .vec l => l
  | .deque l => l
  | .btree kvs => (btreeOf kvs).map (·.2)
  | .hash kvs order => order.filterMap (hget (hashOf kvs))

/-- `len()` — the container's own -/
def len : Container α → Nat
  | .slice l => l.length
  | .vec l => l.length
  | .deque l => l.length
  | .btree kvs => (btreeOf kvs).length
  | .hash kvs _ => (hashOf kvs).length

def isEmpty (c : Container α) : Bool := len c == 0

/-- the enumeration order of a hash map is a permutation of its keys (checked by the driver on every answer) -/
def WellFormed : Container α → Prop
  | .hash kvs order => order.Perm ((hashOf kvs).map (·.1))
  | _ => True

/-! ## causaloids in a collection (`CausableReasoning`) -/

/-- outcome of a reasoning call: `Ok(b)`, `Err(CausalityError)`, or a panic (`expect("failed to get value")`) -/
inductive Res where
  | ok (b : Bool)
  | err
  | panic
deriving DecidableEq, Repr

/-- a singleton causaloid: its activation cell (= its id here; clones share it) and its causal function's kind -/
structure Single where
  id : Nat
  kind : Nat
deriving DecidableEq, Repr

/-- a member of a collection: a singleton, or a causaloid wrapping a `Vec` of singletons (`CausalType::Collection`) -/
inductive Cause where
  | single (s : Single)
  | coll (id : Nat) (inner : List Single)
deriving DecidableEq, Repr

abbrev Cells := Nat → Bool

def Cells.set (c : Cells) (i : Nat) (b : Bool) : Cells := fun j => if j = i then b else c j

section Causable
variable {δ : Type}
-- `eval`: what the causal function of a kind answers on a data value; `none` = `Err`
variable (eval : Nat → δ → Option Bool)

/-- `verify_single_cause`: `let res = (causal_fn)(obs)?; *active = res; Ok(res)` -/
def verifySingle (s : Single) (d : δ) (cells : Cells) : Res × Cells :=
  match eval s.kind d with
  | none => (.err, cells)
  | some b => (.ok b, cells.set s.id b)

/-- the loop of `reason_all_causes` over singletons, from position `i` -/
def loopSingles : List Single → Nat → List δ → Cells → Res × Cells
  | [], _, _, cells => (.ok true, cells)
  | s :: r, i, data, cells =>
    match data[i]? with
    | none => (.panic, cells)                               -- `data.get(i).expect("failed to get value")`
    | some d =>
      match verifySingle eval s d cells with
      | (.ok true, c) => loopSingles r (i + 1) data c
      | (x, c) => (x, c)                                     -- `?` on Err, `return Ok(false)` on false

/-- `reason_all_causes` of the inner `Vec<Causaloid>` of a collection causaloid (all singletons) -/
def reasonSingles (inner : List Single) (data : List δ) (cells : Cells) : Res × Cells :=
  if inner.isEmpty then (.err, cells)                        -- "Causality collection is empty"
  else loopSingles eval inner 0 data cells

/-- the loop of `reason_all_causes` over the members, from position `i`:
singleton → `verify_single_cause(data[i])`, otherwise `verify_all_causes(data, None)` = inner `reason_all_causes(data)` -/
def loopCauses : List Cause → Nat → List δ → Cells → Res × Cells
  | [], _, _, cells => (.ok true, cells)
  | .single s :: r, i, data, cells =>
    match data[i]? with
    | none => (.panic, cells)
    | some d =>
      match verifySingle eval s d cells with
      | (.ok true, c) => loopCauses r (i + 1) data c
      | (x, c) => (x, c)
  | .coll _ inner :: r, i, data, cells =>
    match reasonSingles eval inner data cells with
    | (.ok true, c) => loopCauses r (i + 1) data c
    | (x, c) => (x, c)

/-- `reason_all_causes(data)` on a collection whose `get_all_items()` is `items` -/
def reasonAll (items : List Cause) (data : List δ) (cells : Cells) : Res × Cells :=
  if items.isEmpty then (.err, cells) else loopCauses eval items 0 data cells

end Causable

/-- `is_active`: the cell for a singleton; `number_active() > 0` of the inner collection for a collection causaloid -/
def isActive (cells : Cells) : Cause → Bool
  | .single s => cells s.id
  | .coll _ inner => (inner.filter (fun s => cells s.id)).length > 0

/-- `get_all_causes_true`: early `return false` -/
def allCausesTrue (cells : Cells) : List Cause → Bool
  | [] => true
  | c :: r => if !isActive cells c then false else allCausesTrue cells r

def getAllActive (cells : Cells) (items : List Cause) : List Cause := items.filter (isActive cells)
def getAllInactive (cells : Cells) (items : List Cause) : List Cause := items.filter (fun c => !isActive cells c)
def numberActive (cells : Cells) (items : List Cause) : Nat := (items.filter (isActive cells)).length
/-- `(count / total) * 100` with `total = self.len()` -/
def percentActive (cells : Cells) (items : List Cause) (len : Nat) : Rat :=
  (numberActive cells items : Rat) / (len : Rat) * 100

/-- `explain()`: `cause.explain().unwrap()` for every member — panics unless every member (and, for a collection
causaloid, every inner member) is active; otherwise lists the singletons in order -/
def explainIds (cells : Cells) : List Cause → Option (List Nat)
  | [] => some []
  | .single s :: r =>
    if cells s.id then (explainIds cells r).map (fun t => s.id :: t) else none
  | .coll _ inner :: r =>
    if inner.all (fun s => cells s.id) && !inner.isEmpty then (explainIds cells r).map (fun t => inner.map (·.id) ++ t)
    else none

def Cause.id : Cause → Nat
  | .single s => s.id
  | .coll i _ => i

end Model.Collections
