import DcVerif.Spec.Reasoning
/-! Model of the collection-reasoning default methods, mirroring the code as it is today:
`deep_causality/src/protocols/{assumable,inferable,observable}/mod.rs`,
`types/reasoning_types/{assumption/assumable.rs, inference, observation}`, `utils/math_utils.rs::abs_num`.

Every method works on `get_all_items()`, i.e. on the list of members in the container's iteration order
(`extensions/*`: slices, `Vec`, `VecDeque` in sequence order, maps through `values()`).

Floating point: counts are `usize as f64` (exact below 2^53), percentages are computed here as exact rationals
(`Rat`) — the driver recomputes the `f64` bit patterns with the same operation order; the member predicates
compare `f64` values and are parameters here (`cmp` = `f64::total_cmp`, `approx` = the 4-decimal truncating
comparison, `ge` = `>=`, `eq` = `==`), instantiated on real floats by the driver. -/
namespace Model.Reasoning

/-! ## Assumption (`assumption/assumable.rs`) -/

/-- the two `Arc<RwLock<bool>>` flags -/
structure Flags where
  tested : Bool := false
  valid : Bool := false
deriving DecidableEq, Repr, Inhabited

/-- an assumption: its function (on data of type `δ`) and its flags -/
structure Assumption (δ : Type) where
  fn : δ → Bool
  flags : Flags := {}

variable {δ : Type}

/-- `verify_assumption`: `res = fn(data); tested = true; if res { valid = true }; res` -/
def Assumption.verify (a : Assumption δ) (d : δ) : Assumption δ × Bool :=
  let res := a.fn d
  let tested := true
  let valid := if res then true else a.flags.valid
  ({ a with flags := { tested := tested, valid := valid } }, res)

/-! ## AssumableReasoning (`protocols/assumable/mod.rs`) -/
section Assumable
variable {ι : Type} (tested valid : ι → Bool)

/-- `all_assumptions_tested`: `for elem { if !elem.assumption_tested() { return false } } true` -/
def allTested : List ι → Bool
  | [] => true
  | a :: r => if !tested a then false else allTested r

/-- `all_assumptions_valid` -/
def allValid : List ι → Bool
  | [] => true
  | a :: r => if !valid a then false else allValid r

/-- `number_assumption_valid`: `.filter(|a| a.assumption_valid()).count()` -/
def numberValid (items : List ι) : Nat := (items.filter valid).length

/-- `percent_assumption_valid`: `(number / len) * 100.0` -/
def percentValid (items : List ι) : Rat := ((numberValid valid items : Nat) : Rat) / (items.length : Rat) * 100

def getAllInvalid (items : List ι) : List ι := items.filter (fun a => !valid a)
def getAllValid (items : List ι) : List ι := items.filter (fun a => valid a)
def getAllTested (items : List ι) : List ι := items.filter (fun a => tested a)
def getAllUntested (items : List ι) : List ι := items.filter (fun a => !tested a)

end Assumable

/-- `verify_all_assumptions`: `for a in items { a.verify_assumption(data); }` -/
def verifyAll (items : List (Assumption δ)) (d : δ) : List (Assumption δ) :=
  items.map (fun a => (a.verify d).1)

/-- `items[i].verify_assumption(data)` on a member of a collection -/
def verifyAt (items : List (Assumption δ)) (i : Nat) (d : δ) : List (Assumption δ) × Option Bool :=
  match items[i]? with
  | none => (items, none)
  | some a => (items.set i (a.verify d).1, some (a.verify d).2)

/-- calls on a collection of assumptions -/
inductive AOp (δ : Type) where
  | verifyAll (d : δ)
  | verifyAt (i : Nat) (d : δ)

def astep (items : List (Assumption δ)) : AOp δ → List (Assumption δ)
  | .verifyAll d => verifyAll items d
  | .verifyAt i d => (verifyAt items i d).1

def arun (items : List (Assumption δ)) : List (AOp δ) → List (Assumption δ)
  | [] => items
  | op :: rest => arun (astep items op) rest

/-! ## Inferable (`protocols/inferable/mod.rs`) -/

structure Inference (κ : Type) where
  obs : κ
  thr : κ
  eff : κ
  tgt : κ
deriving DecidableEq, Repr

section Inferable
variable {κ : Type} (cmp : κ → κ → Ordering) (approx : κ → κ → Bool)

/-- `(observation.total_cmp(&threshold) == Ordering::Greater) && approx_equal(effect, target, 4)` -/
def isInferable (i : Inference κ) : Bool := (cmp i.obs i.thr == .gt) && approx i.eff i.tgt
/-- `(observation.total_cmp(&threshold) == Ordering::Less) && approx_equal(effect, target, 4)` -/
def isInverseInferable (i : Inference κ) : Bool := (cmp i.obs i.thr == .lt) && approx i.eff i.tgt
/-- the member predicate of the `non_inferable` family: `is_inferable() && is_inverse_inferable()` -/
def isNonInferable (i : Inference κ) : Bool := isInferable cmp approx i && isInverseInferable cmp approx i

def getAllInferable (items : List (Inference κ)) := items.filter (isInferable cmp approx)
def getAllInverseInferable (items : List (Inference κ)) := items.filter (isInverseInferable cmp approx)
def getAllNonInferable (items : List (Inference κ)) := items.filter (isNonInferable cmp approx)

/-- `all_inferable`: early `return false` -/
def allInferable : List (Inference κ) → Bool
  | [] => true
  | e :: r => if !isInferable cmp approx e then false else allInferable r
def allInverseInferable : List (Inference κ) → Bool
  | [] => true
  | e :: r => if !isInverseInferable cmp approx e then false else allInverseInferable r
/-- `all_non_inferable`: `for e { if e.is_inverse_inferable() && e.is_inferable() { return true } } false`
(sic: "all" answers *any*) -/
def allNonInferable : List (Inference κ) → Bool
  | [] => false
  | e :: r => if isInverseInferable cmp approx e && isInferable cmp approx e then true else allNonInferable r

def numberInferable (items : List (Inference κ)) : Nat := (items.filter (isInferable cmp approx)).length
def numberInverseInferable (items : List (Inference κ)) : Nat :=
  (items.filter (isInverseInferable cmp approx)).length
def numberNonInferable (items : List (Inference κ)) : Nat := (items.filter (isNonInferable cmp approx)).length

def percentOf (k n : Nat) : Rat := (k : Rat) / (n : Rat) * 100
def percentInferable (items : List (Inference κ)) : Rat := percentOf (numberInferable cmp approx items) items.length
def percentInverseInferable (items : List (Inference κ)) : Rat :=
  percentOf (numberInverseInferable cmp approx items) items.length
def percentNonInferable (items : List (Inference κ)) : Rat :=
  percentOf (numberNonInferable cmp approx items) items.length

/-- `abs_num`: `if val > 0 { val } else { -1 * val }` -/
def absNum (v : Rat) : Rat := if v > 0 then v else -1 * v

/-- `Inferable::conjoint_delta` of one member: `abs_num(1.0 − observation)`; `val` = the number a member value stands for -/
def itemConjointDelta (val : κ → Rat) (i : Inference κ) : Rat := absNum (1 - val i.obs)

/-- `conjoint_delta` of a collection: `abs_num(1 − (total − non_inferable) / total)` -/
def conjointDelta (items : List (Inference κ)) : Rat :=
  let total : Rat := (items.length : Rat)
  let nonInferable : Rat := (numberNonInferable cmp approx items : Rat)
  let cum := total - nonInferable
  absNum (1 - cum / total)

end Inferable

/-! ## Observable (`protocols/observable/mod.rs`) -/

structure Observation (κ : Type) where
  obs : κ
  eff : κ
deriving DecidableEq, Repr

section Observable
variable {κ : Type} (ge : κ → κ → Bool) (eq : κ → κ → Bool)

/-- `(observation >= target_threshold) && (observed_effect == target_effect)` -/
def effectObserved (thr e : κ) (o : Observation κ) : Bool := ge o.obs thr && eq o.eff e

def numberObservation (items : List (Observation κ)) (thr e : κ) : Nat :=
  (items.filter (effectObserved ge eq thr e)).length
/-- `len as f64 − number_observation` (a float subtraction: no wrap-around; an `Int` here) -/
def numberNonObservation (items : List (Observation κ)) (thr e : κ) : Int :=
  (items.length : Int) - (numberObservation ge eq items thr e : Int)
/-- `number_observation / len` — scale 0…1 -/
def percentObservation (items : List (Observation κ)) (thr e : κ) : Rat :=
  (numberObservation ge eq items thr e : Rat) / (items.length : Rat)
/-- `1.0 − percent_observation` -/
def percentNonObservation (items : List (Observation κ)) (thr e : κ) : Rat :=
  1 - percentObservation ge eq items thr e

end Observable

end Model.Reasoning
