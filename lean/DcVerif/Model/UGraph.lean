import DcVerif.Spec.DiGraph
/-! Model of `ultragraph::UltraMatrixGraph<T>` (`ultragraph/src/storage/matrix_graph/*.rs`) on top of
petgraph 0.7.1's `MatrixGraph<bool, u64, Directed, Option<u64>, u32>` (`petgraph/src/matrix_graph.rs`).
Shared by C08, C09, C15 (DESIGN.md §5.1).

What is mirrored, line by line:
* petgraph `IdStorage` (`upper_bound`, `removed_ids` — an `IndexSet` used as a stack: `insert` appends, `pop`
  takes the most recent one; removing `upper_bound-1` shrinks `upper_bound` instead),
* the adjacency matrix as the list of its non-null cells `(row, column, weight)`; `neighbors` = ascending
  columns, `neighbors_directed(_, Incoming)` = ascending rows; `nb_edges` as petgraph counts it (`update_edge`
  `+1`, `remove_edge` `-1`, `remove_node` **no change**, `clear` `0`); growth of the matrix
  (`extend_capacity_for_edge`) is the identity on cells and not modelled (exercised by the harness with initial
  capacities 0–4),
* ultragraph's `node_map`, `index_map` (`AHashMap`s as association lists) and `root_index`, with every guard.
A panic of the real code (`unwrap` on `None`, `assert!`, overflow-checked `-`) is the output `.panic`.

`Version.legacy` is the code before the repairs F2 (`remove_edge` erased both end points from `index_map`) and
F3 (`remove_node` left petgraph's edge counter stale); `Version.repaired` is the code with
`fixes/F2-remove-edge.diff` and `fixes/F3-number-edges.diff` applied — the one the driver replays. -/
namespace Model.UGraph
open Spec.DiGraph

/-! ## `AHashMap<usize, _>` as association list -/
def mGet {β : Type} (m : List (Nat × β)) (k : Nat) : Option β := (m.find? (fun e => e.1 == k)).map (·.2)
def mInsert {β : Type} (m : List (Nat × β)) (k : Nat) (v : β) : List (Nat × β) :=
  (k, v) :: m.filter (fun e => e.1 != k)
def mRemove {β : Type} (m : List (Nat × β)) (k : Nat) : List (Nat × β) := m.filter (fun e => e.1 != k)

/-! ## petgraph `IdStorage` -/
structure IdStore where
  upper : Nat := 0
  removed : List Nat := []     -- head = most recently inserted
deriving DecidableEq, Repr

namespace IdStore
/-- `elements[id].is_some()` -/
def isLive (s : IdStore) (id : Nat) : Bool := decide (id < s.upper) && !s.removed.contains id

/-- `IdStorage::add` -/
def add (s : IdStore) : IdStore × Nat :=
  match s.removed with
  | id :: rest => ({ s with removed := rest }, id)
  | [] => ({ s with upper := s.upper + 1 }, s.upper)

/-- `IdStorage::remove`; `elements[id].take().unwrap()` panics on a dead id -/
def remove (s : IdStore) (id : Nat) : Option IdStore :=
  if !s.isLive id then none
  else if s.upper - id == 1 then some { s with upper := s.upper - 1 }
  else some { s with removed := id :: s.removed }

/-- `IdStorage::len` = `upper_bound - removed_ids.len()` (checked) -/
def len (s : IdStore) : Option Nat :=
  if s.removed.length ≤ s.upper then some (s.upper - s.removed.length) else none

/-- `iter_ids` -/
def liveIds (s : IdStore) : List Nat := (List.range s.upper).filter (fun i => !s.removed.contains i)
end IdStore

end Model.UGraph

/-- the graph: petgraph's `MatrixGraph` (`ids`, `adj`, `nbEdges`) plus ultragraph's maps and root -/
structure Model.UGraph where
  ids : Model.UGraph.IdStore := {}
  adj : List Spec.DiGraph.Edge := []    -- non-null matrix cells (row, column, weight)
  nbEdges : Nat := 0
  nodeMap : List (Nat × Nat) := []      -- NodeIndex ↦ value
  indexMap : List (Nat × Nat) := []     -- public index ↦ NodeIndex
  root : Option Nat := none
deriving DecidableEq, Repr

namespace Model.UGraph
open Spec Spec.DiGraph

inductive Version | legacy | repaired
deriving DecidableEq, Repr

/-- every constructor (`new`, `default`, `with_capacity c`, …) yields the same abstract state -/
def init : UGraph := {}

/-! ### petgraph `MatrixGraph` operations -/
/-- `has_edge` -/
def hasCell (g : UGraph) (a b : Nat) : Bool := g.adj.any (fun e => e.1 == a && e.2.1 == b)
/-- `neighbors(a)` / `neighbors_directed(a, Outgoing)`: ascending columns of row `a` -/
def rowOf (g : UGraph) (a : Nat) : List Nat := sortNat ((g.adj.filter (fun e => e.1 == a)).map (·.2.1))
/-- `neighbors_directed(a, Incoming)`: ascending rows of column `a` -/
def colOf (g : UGraph) (a : Nat) : List Nat := sortNat ((g.adj.filter (fun e => e.2.1 == a)).map (·.1))

/-- `add_edge` = `update_edge` + `assert!(old.is_none())` -/
def petAddEdge (g : UGraph) (a b w : Nat) : Option UGraph :=
  if g.hasCell a b then none
  else some { g with adj := g.adj ++ [(a, b, w)], nbEdges := g.nbEdges + 1 }

/-- `remove_edge`: `mem::take(cell).unwrap()`, `nb_edges -= 1` -/
def petRemoveEdge (g : UGraph) (a b : Nat) : Option UGraph :=
  if !g.hasCell a b then none
  else if g.nbEdges == 0 then none
  else some { g with adj := g.adj.filter (fun e => !(e.1 == a && e.2.1 == b)), nbEdges := g.nbEdges - 1 }

/-- `remove_node`: clears `(a,id)` and `(id,a)` for every live `id`; `nb_edges` untouched -/
def petRemoveNode (g : UGraph) (a : Nat) : Option UGraph :=
  let liveIds := g.ids.liveIds
  let adj' := g.adj.filter (fun e => !((e.1 == a && liveIds.contains e.2.1) || (e.2.1 == a && liveIds.contains e.1)))
  match g.ids.remove a with
  | none => none
  | some ids' => some { g with ids := ids', adj := adj' }

/-- a `for (a, b) in cells { graph.remove_edge(a, b) }` loop -/
def removeCells (g : UGraph) : List (Nat × Nat) → Option UGraph
  | [] => some g
  | (a, b) :: rest => match petRemoveEdge g a b with
    | none => none
    | some g' => removeCells g' rest

/-! ### vocabulary of the generated definitions (`Gen/UGraphFns.lean`, written by `tools/rs2lean_ugraphfns.py`)
The remaining petgraph operations under their own names (so far inlined in the functions below), `Result<_, UltraGraphError>`
without its message, and the control-flow helpers of the translation. A generated function is a `do` block in the `Option`
monad: `none` = the call panics. -/
/-- `MatrixGraph::default()` / `new()`: no nodes, no cells -/
def petNew : UGraph := {}
/-- `MatrixGraph::with_capacity(c)`: the capacity only sizes the matrix (growth = identity on cells, see the header) -/
def petWithCapacity (_c : Nat) : UGraph := {}
/-- `add_node`: `NodeIndex::new(self.nodes.add(weight))`; the node weight (`true`) is not modelled -/
def petAddNode (g : UGraph) : UGraph × Nat :=
  let (ids', id) := g.ids.add
  ({ g with ids := ids' }, id)
/-- `node_count` = `IdStorage::len` (a checked subtraction) -/
def petNodeCount (g : UGraph) : Option Nat := g.ids.len
/-- `edge_count` = `nb_edges` -/
def petEdgeCount (g : UGraph) : Nat := g.nbEdges
/-- `clear`: allocator, matrix and edge counter reset; ultragraph's maps are not petgraph's business -/
def petClear (g : UGraph) : UGraph := { g with adj := [], ids := {}, nbEdges := 0 }

/-- `Result<α, UltraGraphError>`; the error message is not modelled -/
inductive Res (α : Type) where
  | ok (v : α) | err
deriving DecidableEq, Repr
def Res.isOk {α : Type} : Res α → Bool
  | .ok _ => true
  | .err => false
def Res.toOption {α : Type} : Res α → Option α
  | .ok v => some v
  | .err => none
/-- `Option::ok_or(err)` / `ok_or_else(|| err)` -/
def okOr {α : Type} : Option α → Res α
  | some v => .ok v
  | none => .err
/-- `for x in l { body }` where `body` updates the state `s` and may panic -/
def forEach {α σ : Type} : List α → σ → (σ → α → Option σ) → Option σ
  | [], s, _ => some s
  | x :: xs, s, f => match f s x with
    | none => none
    | some s' => forEach xs s' f
/-- `assert!(c)` / `debug_assert!(c)` (debug assertions are on in the harness build) -/
def assertThat (c : Bool) : Option Unit := if c then some () else none
/-- `a - b` on unsigned integers with overflow checks on -/
def checkedSub (a b : Nat) : Option Nat := if b ≤ a then some (a - b) else none

/-! ### `graph_like.rs` -/
def containsNode (g : UGraph) (i : Nat) : Bool := (mGet g.indexMap i).isSome

def getNode (g : UGraph) (i : Nat) : Option Nat :=
  if !g.containsNode i then none
  else match mGet g.indexMap i with
    | none => none            -- `.expect` after the `contains` check
    | some k => mGet g.nodeMap k

def addNode (g : UGraph) (v : Nat) : UGraph × Nat :=
  let (ids', id) := g.ids.add
  ({ g with ids := ids', nodeMap := mInsert g.nodeMap id v, indexMap := mInsert g.indexMap id id }, id)

def containsEdge (g : UGraph) (a b : Nat) : Bool :=
  if !g.containsNode a || !g.containsNode b then false
  else match mGet g.indexMap a, mGet g.indexMap b with
    | some k, some l => g.hasCell k l
    | _, _ => false

def removeNode (ver : Version) (g : UGraph) (i : Nat) : UGraph × Out :=
  if !g.containsNode i then (g, .err)
  else match mGet g.indexMap i with
    | none => (g, .panic)
    | some k =>
      -- F3 repair: incident edges are removed through `graph.remove_edge` first
      let g2 : Option UGraph := match ver with
        | .legacy => some g
        | .repaired => match removeCells g ((g.rowOf k).map (fun b => (k, b))) with
          | none => none
          | some g1 => removeCells g1 ((g1.colOf k).map (fun a => (a, k)))
      match g2 with
      | none => (g, .panic)
      | some g2 => match petRemoveNode g2 k with
        | none => (g, .panic)
        | some g3 => ({ g3 with nodeMap := mRemove g3.nodeMap k, indexMap := mRemove g3.indexMap k }, .ok)

def addEdgeW (g : UGraph) (a b w : Nat) : UGraph × Out :=
  if !g.containsNode a then (g, .err)
  else if !g.containsNode b then (g, .err)
  else if g.containsEdge a b then (g, .err)
  else match mGet g.indexMap a, mGet g.indexMap b with
    | some k, some l => match petAddEdge g k l w with
      | some g' => (g', .ok)
      | none => (g, .panic)
    | _, _ => (g, .panic)

def removeEdge (ver : Version) (g : UGraph) (a b : Nat) : UGraph × Out :=
  if !g.containsNode a then (g, .err)
  else if !g.containsNode b then (g, .err)
  else if !g.containsEdge a b then (g, .err)
  else match mGet g.indexMap a, mGet g.indexMap b with
    | some k, some l => match petRemoveEdge g k l with
      | some g' => match ver with
        | .legacy => ({ g' with indexMap := mRemove (mRemove g'.indexMap a) b }, .ok)   -- F2
        | .repaired => (g', .ok)
      | none => (g, .panic)
    | _, _ => (g, .panic)

/-! ### `graph_root.rs`, `graph_storage.rs`, `graph_algorithms.rs::outgoing_edges` -/
def addRoot (g : UGraph) (v : Nat) : UGraph × Nat :=
  let (g1, idx) := g.addNode v
  ({ g1 with root := some idx, indexMap := mInsert g1.indexMap idx idx }, idx)

def clear (g : UGraph) : UGraph :=
  { g with adj := [], ids := {}, nbEdges := 0, nodeMap := [], indexMap := [], root := none }

/-- `get_all_edges`: for every key of `node_map` its neighbours (hash order; sorted by the harness) -/
def allEdges (g : UGraph) : List (Nat × Nat) :=
  g.nodeMap.flatMap (fun e => (g.rowOf e.1).map (fun b => (e.1, b)))

/-- `graph_algorithms.rs::shortest_path`: the two `contains_node` guards, then petgraph's `astar` (zero
heuristic, cost = edge weight, goal `finish == stop`) whose answer is an *input* here: `astar` is an external
dependency that is not modelled step by step but validated on every run by the proved oracle of C15. -/
def shortestPath (g : UGraph) (astar : Option (List Nat)) (a b : Nat) : Option (List Nat) :=
  if !g.containsNode a then none
  else if !g.containsNode b then none
  else astar

def step (ver : Version) (g : UGraph) : Op → UGraph × Out
  | .addNode v => let (g', i) := g.addNode v; (g', .idx i)
  | .addRoot v => let (g', i) := g.addRoot v; (g', .idx i)
  | .removeNode i => g.removeNode ver i
  | .addEdge a b => g.addEdgeW a b 0
  | .addEdgeW a b w => g.addEdgeW a b w
  | .removeEdge a b => g.removeEdge ver a b
  | .clear => (g.clear, .ok)
  | .containsNode i => (g, .bool (g.containsNode i))
  | .getNode i => (g, .optNat (g.getNode i))
  | .containsEdge a b => (g, .bool (g.containsEdge a b))
  | .size | .numNodes => match g.ids.len with
    | some n => (g, .nat n)
    | none => (g, .panic)
  | .isEmpty => match g.ids.len with
    | some n => (g, .bool (n == 0))
    | none => (g, .panic)
  | .numEdges => (g, .nat g.nbEdges)
  | .allNodes => match g.ids.len with    -- `Vec::with_capacity(self.graph.node_count())`: the count is evaluated
    | some _ => (g, .nats (sortNat (g.nodeMap.map (·.2))))
    | none => (g, .panic)
  | .allEdges => (g, .pairs (sortPairs g.allEdges))
  | .outgoing a => if !g.containsNode a then (g, .err) else (g, .nats (g.rowOf a))
  | .containsRoot => (g, .bool g.root.isSome)
  | .getRootNode => match g.root with
    | none => (g, .optNat none)
    | some r => (g, .optNat (mGet g.nodeMap r))
  | .getRootIndex => (g, .optNat g.root)
  | .getLastIndex => match g.ids.len with
    | none => (g, .panic)
    | some n => if n == 0 then (g, .err) else (g, .nat g.nodeMap.length)

/-- run a history (oldest first), collecting the outputs -/
def run (ver : Version) (g : UGraph) : List Op → UGraph × List Out
  | [] => (g, [])
  | op :: rest =>
    let (g', o) := step ver g op
    let (g'', os) := run ver g' rest
    (g'', o :: os)

/-- the abstraction function: forget allocator, second map and counter -/
def abs (g : UGraph) : DiGraph := { nodes := g.nodeMap, edges := g.adj, root := g.root }

end Model.UGraph
