import DcVerif.Gen.Adjustable
import DcVerif.Spec.Adjustable
/-! Model glue for C16: the four *generated* node types (`Gen.Adjustable`, regenerated from the Rust source on
every run) behind one sum type, with the canonical coordinate order of `Spec.Adjustable`. -/
namespace Model.Adjustable
open Gen.Adjustable Spec.Adjustable

inductive Node where
  | data (n : Data)
  | time (n : Time)
  | space (n : Space)
  | spaceTime (n : SpaceTime)
deriving DecidableEq, Repr

def Node.kind : Node → Kind
  | .data _ => .data
  | .time _ => .time
  | .space _ => .space
  | .spaceTime _ => .spaceTime

/-- canonical order: `[data]`, `[time_unit]`, `[x, y, z]`, `[x, y, z, time_unit]` -/
def Node.coords : Node → List Int
  | .data n => [n.data]
  | .time n => [n.time_unit]
  | .space n => [n.x, n.y, n.z]
  | .spaceTime n => [n.x, n.y, n.z, n.time_unit]

def Node.ofCoords : Kind → List Int → Option Node
  | .data, [d] => some (.data { data := d })
  | .time, [t] => some (.time { time_unit := t })
  | .space, [x, y, z] => some (.space { x := x, y := y, z := z })
  | .spaceTime, [x, y, z, t] => some (.spaceTime { x := x, y := y, z := z, time_unit := t })
  | _, _ => none

def lift {α : Type} (f : α → Node) (r : α × Bool) : Node × Bool := (f r.1, r.2)

/-- the generated `update` / `adjust` of the node's kind -/
def Node.apply (n : Node) (op : Op) (grid : Pt → Int) : Node × Bool :=
  match n, op with
  | .data n, .update => lift .data (n.update grid)
  | .data n, .adjust => lift .data (n.adjust grid)
  | .time n, .update => lift .time (n.update grid)
  | .time n, .adjust => lift .time (n.adjust grid)
  | .space n, .update => lift .space (n.update grid)
  | .space n, .adjust => lift .space (n.adjust grid)
  | .spaceTime n, .update => lift .spaceTime (n.update grid)
  | .spaceTime n, .adjust => lift .spaceTime (n.adjust grid)

def ptOf (c : Nat × Nat × Nat × Nat) : Pt := { x := c.1, y := c.2.1, z := c.2.2.1, t := c.2.2.2 }

/-- what the grid holds at the cells the spec says a node of this kind reads -/
def newValues (k : Kind) (grid : Pt → Int) : List Int := (cells k).map (fun c => grid (ptOf c))

end Model.Adjustable
