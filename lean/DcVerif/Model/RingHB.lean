import DcVerif.Model.Ring
import DcVerif.Gen.Orderings
/-!
# Happens-before for the slot accesses of the single-producer pipeline: vector clocks as ghost state on `Model/Ring`

Interleaving semantics (one facade operation per step, `Ring.stepX`) plus **vector clocks over slot accesses**
(DESIGN.md §5.4). Every thread touches sequences in increasing order, so "what a thread knows about thread `u`" is a
prefix of `u`'s slot accesses, i.e. one number: `VC.pw` = number of producer slot writes known, `VC.ha k j` = number of
accesses of handler `(k,j)` known. Every thread carries a clock (`vcP`, `vcC k j`); every sequence counter carries the
clock published by its last store (`lcCur` for the producer cursor, `lcH k j` for handler cursors).

What transfers knowledge — and nothing else does:
* a **store** of a sequence counter (`AtomicSequenceOrdered::set`) with ordering `set`: if `set.isRelease` the location's
  clock *becomes* the storing thread's clock, otherwise it becomes empty (a plain store heads no release sequence);
* a **load** of a sequence counter (`AtomicSequenceOrdered::get`) with ordering `get`: if `get.isAcquire` the location's
  clock is joined into the loading thread's clock, otherwise nothing happens.

`set` / `get` are parameters of `stepH`; the instance the theorems are about is `stepSrc`, which takes them from
`Gen.Orderings.seqSet` / `Gen.Orderings.seqGet`, i.e. from `atomic_sequence_ordered.rs` as it is today
(`Model/RingLabel.lean` attaches the same two names to the same program points, and the trace replay compares them with
the ordering every facade call of the real code reported).

Deliberately **not** used (each omission only removes happens-before edges, so it can only make race freedom harder to
prove — it is sound for the claim "every conflicting pair is ordered"):
* the mutex of the blocking wait strategy (`lock`/`unlock`/`cvwait`/`relock`) and `notify_all` transfer nothing: the
  program points `bLock … bUnlockExit`, `sLock/sNotify/sUnlock`, `pLock … fUnlock` only move program counters;
* the `is_done` flag (`store(true, SeqCst)`, `load(Relaxed)`) transfers nothing (`bAlert`, `checkAlert`, `setDone`, `dropDone`);
* thread spawn / join edges (all clocks start empty, no slot has been touched when the threads start).
-/
namespace RingHB
open Ring Gen.Orderings

/-- vector clock over slot accesses -/
structure VC where
  pw : Nat := 0                            -- producer slot writes known
  ha : Nat → Nat → Nat := fun _ _ => 0     -- slot accesses of handler (k,j) known

def VC.join (a b : VC) : VC := ⟨max a.pw b.pw, fun k j => max (a.ha k j) (b.ha k j)⟩
def VC.incH (a : VC) (k j : Nat) : VC :=
  ⟨a.pw, fun k' j' => if k' = k ∧ j' = j then a.ha k' j' + 1 else a.ha k' j'⟩
def VC.incP (a : VC) : VC := ⟨a.pw + 1, a.ha⟩

/-- clock attached to a location by a store with ordering `o` of a thread whose clock is `thread` -/
def storeClock (o : Ord) (thread : VC) : VC := if o.isRelease then thread else {}
/-- clock of a thread after a load with ordering `o` from a location carrying `loc` -/
def loadClock (o : Ord) (thread loc : VC) : VC := if o.isAcquire then thread.join loc else thread

/-- system state + ghost clocks -/
structure HSt where
  x     : PSt
  vcP   : VC := {}                              -- producer thread
  vcC   : Nat → Nat → VC := fun _ _ => {}       -- handler threads
  lcCur : VC := {}                              -- producer cursor (location)
  lcH   : Nat → Nat → VC := fun _ _ => {}       -- handler cursors (locations)

def updV (f : Nat → Nat → VC) (k j : Nat) (v : VC) : Nat → Nat → VC :=
  fun k' j' => if k' = k ∧ j' = j then v else f k' j'

/-- clock of the location the `d`-th dependency of a stage-`k` handler lives in (the builder's wiring, as `Ring.dep`) -/
def depClock (s : HSt) (k d : Nat) : VC := if k = 0 then s.lcCur else s.lcH (k-1) d

/-- new clock of handler `(k,j)` after its step: `readOwn` loads its own cursor, `waitLoad` loads dependency `idx`
(both `AtomicSequenceOrdered::get`), `handle` is the slot access; every other program point leaves the clock alone -/
def consV (get : Ord) (s : HSt) (k j : Nat) : VC :=
  let c := s.x.s.cons k j
  match c.pc with
  | .readOwn => loadClock get (s.vcC k j) (s.lcH k j)
  | .waitLoad => if c.idx < ndeps s.x.s k then loadClock get (s.vcC k j) (depClock s k c.idx) else s.vcC k j
  | .handle => if c.i ≤ c.avail then (s.vcC k j).incH k j else s.vcC k j
  | _ => s.vcC k j

/-- new clock attached to the cursor of handler `(k,j)` after its step: `publish` is `cursor.set(available)` -/
def consL (set : Ord) (s : HSt) (k j : Nat) : VC :=
  match (s.x.s.cons k j).pc with
  | .publish => storeClock set (s.vcC k j)
  | _ => s.lcH k j

/-- new clock of the producer thread: `gateLoad` / `drainLoad` load a last-stage cursor, `write` is the slot access -/
def prodV (get : Ord) (s : HSt) : VC :=
  let p := s.x.p
  match p.pc with
  | .gateLoad | .drainLoad =>
      if p.idx < ngate s.x.s then loadClock get s.vcP (s.lcH (s.x.s.K - 1) p.idx) else s.vcP
  | .write => if p.w ≤ p.stop then s.vcP.incP else s.vcP
  | _ => s.vcP

/-- new clock attached to the producer cursor: `publish` is `cursor.set(hi)` -/
def prodL (set : Ord) (s : HSt) : VC :=
  match s.x.p.pc with
  | .publish => storeClock set s.vcP
  | _ => s.lcCur

/-- ghost step on top of `Ring.stepX`; `set` / `get` = orderings of every cursor store / load -/
def stepH (set get : Ord) (s : HSt) : Tid → HSt
  | .prod => { s with x := stepProd s.x, vcP := prodV get s, lcCur := prodL set s }
  | .cons k j =>
    if k < s.x.s.K ∧ j < s.x.s.h k then
      { s with x := { s.x with s := stepC s.x.s k j },
               vcC := updV s.vcC k j (consV get s k j), lcH := updV s.lcH k j (consL set s k j) }
    else s

/-- the step with the orderings the source uses today (regenerated from `atomic_sequence_ordered.rs` on every run) -/
def stepSrc : HSt → Tid → HSt := stepH seqSet seqGet

def runH (set get : Ord) (s : HSt) (sched : List Tid) : HSt := sched.foldl (stepH set get) s
def runSrc (s : HSt) (sched : List Tid) : HSt := sched.foldl stepSrc s

/-- initial state: the pipeline of `Ring.mk`, all clocks empty -/
def mkH (n K : Nat) (h : Nat → Nat) (blocking : Bool) (batches : List Nat) : HSt := { x := mk n K h blocking batches }

/-- "clock `v` covers counter value `b` as seen from stage `k`": the producer's writes up to `b` (R1), every access up to `b`
of every handler of every stage `< k` (R2), everybody's accesses up to `b - n` (R3/R4) -/
structure Covers (K : Nat) (h : Nat → Nat) (n : Nat) (v : VC) (k : Nat) (b : Nat) : Prop where
  pw   : 1 ≤ b → b + 1 ≤ v.pw
  prev : ∀ k' j', k' < k → k' < K → j' < h k' → b ≤ v.ha k' j'
  old  : ∀ k' j', k' < K → j' < h k' → b ≤ v.ha k' j' + n

/-- the race-freedom obligations, stated on a state (they are checked *before* the access step) -/
structure RaceFree (s : HSt) : Prop where
  /-- R1, R2, R4: a handler about to handle `i` knows the producer's write of `i`, every access of `i` by every handler
  of every earlier stage, and everybody's access of `i - n` -/
  reader : ∀ k j, k < s.x.s.K → j < s.x.s.h k → (s.x.s.cons k j).pc = .handle →
             (s.x.s.cons k j).i ≤ (s.x.s.cons k j).avail →
             Covers s.x.s.K s.x.s.h s.x.s.n (s.vcC k j) k (s.x.s.cons k j).i
  /-- R3: the producer about to write `w` knows everybody's access of `w - n` -/
  writer : s.x.p.pc = .write → s.x.p.w ≤ s.x.p.stop →
             ∀ k j, k < s.x.s.K → j < s.x.s.h k → s.x.p.w ≤ s.vcP.ha k j + s.x.s.n

end RingHB
