import DcVerif.Model.GraphDfs
/-! Nested causaloids (C02, C11): `Causaloid` = singleton | collection wrapper | graph wrapper, to any depth.

Mirrors, line by line,
* `types/reasoning_types/causaloid/{mod,causable}.rs` — `verify_single_cause` (the activation flag is written only
  after the causal function succeeded; wrappers have neither `causal_fn` nor `context_causal_fn`, so the call panics),
  `verify_all_causes` (dispatch on the causal type), `is_active` (singleton: the flag; wrapper: `number_active() > 0`);
* `protocols/causable/mod.rs` — `reason_all_causes` over a collection (empty → error; item `i` singleton → `data[i]`,
  panic when absent; item wrapper → `verify_all_causes(data, None)`; first non-true verdict wins), `number_active`,
  `percent_active`, `get_all_causes_true`, `get_all_(in)active_causes`;
* `protocols/causable_graph/graph_reasoning.rs` — `reason_all_causes` / `reason_from_to_cause` (no root → error, empty
  data → error, start node **always** through `verify_single_cause`, `get_obs` is called for every child *before* the
  singleton/wrapper dispatch, wrapper children get `verify_all_causes(data, data_index)`, stack of child iterators, no
  visited set, early exit on `child == stop_index` with `stop_index = node count`);
* `graph_reasoning_utils.rs::get_obs` (by id, or through the data index; panics when absent);
* `causaloid_graph/causable_graph.rs` — `all_active`, `number_active`, `percent_active`.

`Option V`: `none` = no verdict (the code panics, or — cyclic graphs only — does not finish within `fuel`).
The *verdict* of a causaloid never depends on activation flags, therefore verdicts (`verifyAll`, …) are pure functions and
the side effects are a separate evaluation log (`logAll`, …: which activation cells were evaluated, in which order, with
which outcome). Clones share their `Arc<RwLock<bool>>`: cells are explicit (`cell : Nat`), a clone is the same value. -/
namespace Causal
open Dfs (V)

/-- the causal functions the harness installs: the observation is an integer-valued `f64`; `obs mod 3` encodes the verdict
    (`0` false, `1` true, `2` error). `inv` swaps true/false, `ctx c` adds the marker stored in the context the causaloid
    was built with (`none`: built with `context = None`, the code panics on `expect`). -/
inductive Fn
  | plain
  | inv
  | ctx (c : Option Nat)
  deriving DecidableEq, Repr, Inhabited

def decode (n : Nat) : V := if n % 3 = 1 then .t else if n % 3 = 0 then .f else .e

def neg : V → V
  | .t => .f
  | .f => .t
  | .e => .e

/-- `mk c` = marker stored in context number `c` (the environment of contexts). -/
def Fn.apply (mk : Nat → Nat) : Fn → Nat → Option V
  | .plain, obs => some (decode obs)
  | .inv, obs => some (neg (decode obs))
  | .ctx (some c), obs => some (decode (obs + mk c))
  | .ctx none, _ => none

inductive Causaloid
  | single (cell id : Nat) (fn : Fn)
  | coll (id : Nat) (items : List Causaloid)
  | graph (id : Nat) (nodes : List Causaloid) (edges : List (Nat × Nat)) (root : Option Nat)
  deriving Repr, Inhabited

abbrev Idx := Option (List (Nat × Nat))   -- `Option<&HashMap<id, index>>`
abbrev Event := Nat × V                    -- singleton with this cell was evaluated with this outcome

def Causaloid.id : Causaloid → Nat
  | .single _ id _ => id
  | .coll id _ => id
  | .graph id _ _ _ => id

def Causaloid.isSingleton : Causaloid → Bool
  | .single .. => true
  | _ => false

/-- `graph_reasoning_utils::get_obs`; `none` = one of the two `expect`s fails -/
def getObs (id : Nat) (data : List Nat) : Idx → Option Nat
  | none => data[id]?
  | some m => (m.lookup id).bind (data[·]?)

/-- `verify_single_cause`: verdict (`none` = panic: wrapper, or contextual causaloid without context) -/
def verifySingle (mk : Nat → Nat) : Causaloid → Nat → Option V
  | .single _ _ fn, obs => fn.apply mk obs
  | _, _ => none

/-- what `verify_single_cause` does to the flags: the cell is written iff the function returned `Ok` -/
def singleLog (mk : Nat → Nat) : Causaloid → Nat → List Event
  | .single cell _ fn, obs => match fn.apply mk obs with
    | some v => [(cell, v)]
    | none => []
  | _, _ => []

/-- `if cause.is_singleton() { verify_single_cause(obs) } else { verify_all_causes(..) }` with the observation lookup
    (`obs = none`: the lookup panicked — only consulted on the singleton branch by collections, *always* by graphs) -/
def dispatch (mk : Nat → Nat) (c : Causaloid) (obs : Option Nat) (nested : Option V) : Option V :=
  match c with
  | .single _ _ fn => obs.bind (fn.apply mk)
  | _ => nested

def dispatchLog (mk : Nat → Nat) (c : Causaloid) (obs : Option Nat) (nested : List Event) : List Event :=
  match c with
  | .single .. => match obs with
    | some o => singleLog mk c o
    | none => []
  | _ => nested

/-- `outgoing_edges(a)`: petgraph's `MatrixGraph::neighbors` = ascending column order; duplicates are rejected by `add_edge` -/
def outOf (n : Nat) (edges : List (Nat × Nat)) (a : Nat) : List Nat :=
  (List.range n).filter (fun b => edges.contains (a, b))

/-- the `while let Some(children) = stack.last_mut()` loop with panicking node evaluations (`ev c = none`) -/
def loopO (out : Nat → List Nat) (ev : Nat → Option V) (stop : Nat) : Nat → List (List Nat) → Option V
  | 0, _ => none
  | _+1, [] => some .t
  | fuel+1, [] :: rest => loopO out ev stop fuel rest
  | fuel+1, (c :: cs) :: rest =>
    match ev c with
    | none => none
    | some .e => some .e
    | some .f => some .f
    | some .t => if c = stop then some .t else loopO out ev stop fuel (out c :: cs :: rest)

/-- the children the same loop evaluates, in order (the last one is the one that stopped it, if any) -/
def visited (out : Nat → List Nat) (ev : Nat → Option V) (stop : Nat) : Nat → List (List Nat) → List Nat
  | 0, _ => []
  | _+1, [] => []
  | fuel+1, [] :: rest => visited out ev stop fuel rest
  | fuel+1, (c :: cs) :: rest =>
    c :: (match ev c with
      | some .t => if c = stop then [] else visited out ev stop fuel (out c :: cs :: rest)
      | _ => [])

/-- `CausableGraphReasoning::reason_all_causes` given the verdict `start` of `verify_single_cause` on the root (with its
    observation lookup) and the verdict table `tbl` of all nodes in child position -/
def reasonGraph (fuel n : Nat) (edges : List (Nat × Nat)) (root : Option Nat) (data : List Nat)
    (start : Option V) (tbl : List (Option V)) : Option V :=
  match root with
  | none => some .e                              -- "Graph does not contains root causaloid"
  | some r =>
    if data.isEmpty then some .e                 -- "Data are empty (len ==0)."
    else if n ≤ r then some .e                   -- "Graph does not contains start causaloid"
    else match start with
      | none => none
      | some .e => some .e
      | some .f => some .f
      | some .t => loopO (outOf n edges) (fun v => (tbl[v]?).bind id) n fuel [outOf n edges r]

def logGraph (fuel n : Nat) (edges : List (Nat × Nat)) (root : Option Nat) (data : List Nat)
    (start : Option V) (startLog : List Event) (tbl : List (Option V)) (logs : List (List Event)) : List Event :=
  match root with
  | none => []
  | some r =>
    if data.isEmpty then []
    else if n ≤ r then []
    else match start with
      | some .t => startLog ++
          (visited (outOf n edges) (fun v => (tbl[v]?).bind id) n fuel [outOf n edges r]).flatMap (fun v => logs.getD v [])
      | _ => startLog

/-- the start node of `reason_from_to_cause`: `get_obs` then `verify_single_cause` whatever the causal type -/
def startVerdict (mk : Nat → Nat) (c : Causaloid) (data : List Nat) (idx : Idx) : Option V :=
  (getObs c.id data idx).bind (verifySingle mk c)

def startLog (mk : Nat → Nat) (c : Causaloid) (data : List Nat) (idx : Idx) : List Event :=
  match getObs c.id data idx with
  | some o => singleLog mk c o
  | none => []

mutual
/-- `Causable::verify_all_causes(data, data_index)` -/
def verifyAll (mk : Nat → Nat) (fuel : Nat) : Causaloid → List Nat → Idx → Option V
  | .single .., _, _ => some .e                 -- "Causaloid is singleton. Call verify_single_cause instead."
  | .coll _ items, data, _ =>
    if items.isEmpty then some .e               -- "Causality collection is empty"
    else reasonFrom mk fuel items data 0
  | .graph _ nodes edges root, data, idx =>
    reasonGraph fuel nodes.length edges root data
      ((root.bind (nodes[·]?)).bind (fun c => startVerdict mk c data idx)) (nodeTable mk fuel nodes data idx)
/-- the `for (i, cause) in items.enumerate()` loop of `CausableReasoning::reason_all_causes` from position `i` on -/
def reasonFrom (mk : Nat → Nat) (fuel : Nat) : List Causaloid → List Nat → Nat → Option V
  | [], _, _ => some .t
  | c :: cs, data, i =>
    match dispatch mk c data[i]? (verifyAll mk fuel c data none) with
    | none => none
    | some .e => some .e
    | some .f => some .f
    | some .t => reasonFrom mk fuel cs data (i + 1)
/-- verdict of every node of a graph when reached as a child: `get_obs(id)` first, then the dispatch -/
def nodeTable (mk : Nat → Nat) (fuel : Nat) : List Causaloid → List Nat → Idx → List (Option V)
  | [], _, _ => []
  | c :: cs, data, idx =>
    (match getObs c.id data idx with
     | none => none
     | some o => dispatch mk c (some o) (verifyAll mk fuel c data idx)) :: nodeTable mk fuel cs data idx
end

mutual
/-- the singleton evaluations `verify_all_causes` performs, in order, up to the point where it returns or panics -/
def logAll (mk : Nat → Nat) (fuel : Nat) : Causaloid → List Nat → Idx → List Event
  | .single .., _, _ => []
  | .coll _ items, data, _ => logFrom mk fuel items data 0
  | .graph _ nodes edges root, data, idx =>
    logGraph fuel nodes.length edges root data
      ((root.bind (nodes[·]?)).bind (fun c => startVerdict mk c data idx))
      (((root.bind (nodes[·]?)).map (fun c => startLog mk c data idx)).getD [])
      (nodeTable mk fuel nodes data idx) (nodeLogs mk fuel nodes data idx)
def logFrom (mk : Nat → Nat) (fuel : Nat) : List Causaloid → List Nat → Nat → List Event
  | [], _, _ => []
  | c :: cs, data, i =>
    dispatchLog mk c data[i]? (logAll mk fuel c data none) ++
      (match dispatch mk c data[i]? (verifyAll mk fuel c data none) with
       | some .t => logFrom mk fuel cs data (i + 1)
       | _ => [])
def nodeLogs (mk : Nat → Nat) (fuel : Nat) : List Causaloid → List Nat → Idx → List (List Event)
  | [], _, _ => []
  | c :: cs, data, idx =>
    (match getObs c.id data idx with
     | none => []
     | some o => dispatchLog mk c (some o) (logAll mk fuel c data idx)) :: nodeLogs mk fuel cs data idx
end

/-- `CausableReasoning::reason_all_causes(data)` directly on a collection -/
def reasonColl (mk : Nat → Nat) (fuel : Nat) (items : List Causaloid) (data : List Nat) : Option V :=
  if items.isEmpty then some .e else reasonFrom mk fuel items data 0

def logColl (mk : Nat → Nat) (fuel : Nat) (items : List Causaloid) (data : List Nat) : List Event :=
  logFrom mk fuel items data 0

/-- `CausableGraphReasoning::reason_all_causes(data, data_index)` directly on a graph -/
def reasonAllGraph (mk : Nat → Nat) (fuel : Nat) (nodes : List Causaloid) (edges : List (Nat × Nat)) (root : Option Nat)
    (data : List Nat) (idx : Idx) : Option V :=
  reasonGraph fuel nodes.length edges root data
    ((root.bind (nodes[·]?)).bind (fun c => startVerdict mk c data idx)) (nodeTable mk fuel nodes data idx)

def logAllGraph (mk : Nat → Nat) (fuel : Nat) (nodes : List Causaloid) (edges : List (Nat × Nat)) (root : Option Nat)
    (data : List Nat) (idx : Idx) : List Event :=
  logAll mk fuel (.graph 0 nodes edges root) data idx

/-! ### activation state -/

abbrev Cells := Nat → Bool

def Cells.init : Cells := fun _ => false

/-- one evaluation of the singleton owning `cell`: `Ok(b)` stores `b`, `Err` leaves the flag alone -/
def applyEvent (s : Cells) (e : Event) : Cells :=
  match e.2 with
  | .t => fun c => if c = e.1 then true else s c
  | .f => fun c => if c = e.1 then false else s c
  | .e => s

def applyLog (s : Cells) (log : List Event) : Cells := log.foldl applyEvent s

mutual
/-- `Causable::is_active` -/
def isActive (s : Cells) : Causaloid → Bool
  | .single cell _ _ => s cell
  | .coll _ items => decide (0 < countActive s items)        -- `number_active() > 0f64`
  | .graph _ nodes _ _ => decide (0 < countActive s nodes)
/-- `…filter(|c| c.is_active()).count()` -/
def countActive (s : Cells) : List Causaloid → Nat
  | [] => 0
  | c :: cs => (if isActive s c then 1 else 0) + countActive s cs
end

/-- `get_all_causes_true` / `all_active` -/
def allActive (s : Cells) (cs : List Causaloid) : Bool := cs.all (isActive s)

/-- `percent_active` = `(count / total) * 100`, here over the rationals (the driver redoes it in `f64`) -/
def percentActive (s : Cells) (cs : List Causaloid) : Rat := ((countActive s cs : Rat) / (cs.length : Rat)) * 100

/-! ### histories: evaluation / reasoning calls over one persistent set of cells -/

inductive Op
  | single (c : Causaloid) (obs : Nat)                                   -- `c.verify_single_cause(obs)`
  | all (c : Causaloid) (data : List Nat) (idx : Idx)                    -- `c.verify_all_causes(data, idx)`
  | coll (items : List Causaloid) (data : List Nat)                      -- `items.reason_all_causes(data)`
  | graph (nodes : List Causaloid) (edges : List (Nat × Nat)) (root : Option Nat) (data : List Nat) (idx : Idx)
                                                                         -- `graph.reason_all_causes(data, idx)`

/-- the singleton evaluations one call performs, in order -/
def opLog (mk : Nat → Nat) (fuel : Nat) : Op → List Event
  | .single c obs => singleLog mk c obs
  | .all c data idx => logAll mk fuel c data idx
  | .coll items data => logColl mk fuel items data
  | .graph nodes edges root data idx => logAllGraph mk fuel nodes edges root data idx

/-- all singleton evaluations of a history, oldest first -/
def events (mk : Nat → Nat) (fuel : Nat) (ops : List Op) : List Event := ops.flatMap (opLog mk fuel)

/-- the activation cells after a history, starting with every causaloid inactive -/
def run (mk : Nat → Nat) (fuel : Nat) (ops : List Op) : Cells := applyLog Cells.init (events mk fuel ops)

end Causal
