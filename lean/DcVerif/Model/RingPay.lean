import DcVerif.Model.Ring
/-!
Payload layer on top of the single-producer pipeline model (`Model/Ring.lean`): slot contents and what each handler saw.
A ghost layering in the style of `Model/RingHB.lean`: `stepPay` performs the system step and, for a slot write or a handler
call, its effect on the slot array (`RingBuffer<T, N>`: index = sequence mod n). Used for the payload clauses of C04 and C13.
-/
namespace RingPay
open Ring

/-- what the pipeline does with payloads: the value written for a sequence, which handlers are mutable, and how a mutable
handler transforms the event -/
structure PCfg where
  pay  : Nat → Nat
  mutH : Nat → Nat → Bool
  tf   : Nat → Nat → Nat → Nat

structure PaySt where
  x    : PSt
  slot : Nat → Nat := fun _ => 0
  seen : Nat → Nat → List (Nat × Nat) := fun _ _ => []   -- per handler: (sequence, payload seen), in order

def updN (f : Nat → Nat) (i v : Nat) : Nat → Nat := fun i' => if i' = i then v else f i'
def updL (f : Nat → Nat → List (Nat × Nat)) (k j : Nat) (l : List (Nat × Nat)) : Nat → Nat → List (Nat × Nat) :=
  fun k' j' => if k' = k ∧ j' = j then l else f k' j'

/-- one step: the system step of `Model/Ring.lean` plus its effect on the slots (producer slot write; handler call, which
for a mutable handler stores the transformed event back) -/
def stepPay (c : PCfg) (s : PaySt) : Tid → PaySt
  | .prod =>
    if s.x.p.pc = .write ∧ s.x.p.w ≤ s.x.p.stop then
      { s with x := stepX s.x .prod, slot := updN s.slot (s.x.p.w % s.x.s.n) (c.pay s.x.p.w) }
    else { s with x := stepX s.x .prod }
  | .cons k j =>
    if k < s.x.s.K ∧ j < s.x.s.h k then
      let cc := s.x.s.cons k j
      if cc.pc = .handle ∧ cc.i ≤ cc.avail then
        let v := s.slot (cc.i % s.x.s.n)
        { x := stepX s.x (.cons k j),
          seen := updL s.seen k j (s.seen k j ++ [(cc.i, v)]),
          slot := if c.mutH k j then updN s.slot (cc.i % s.x.s.n) (c.tf k j v) else s.slot }
      else { s with x := stepX s.x (.cons k j) }
    else s

def runPay (c : PCfg) (s : PaySt) (sched : List Tid) : PaySt := sched.foldl (stepPay c) s

theorem stepPay_x (c : PCfg) (s : PaySt) (t : Tid) : (stepPay c s t).x = stepX s.x t := by
  cases t with
  | prod => simp only [stepPay]; split <;> rfl
  | cons k j =>
    simp only [stepPay]
    split
    · split <;> rfl
    · rename_i h; simp [stepX, h]

/-- sequences handler state `cc` has finished handling -/
def progress (cc : Cons) : Nat :=
  if cc.pc = .handle then cc.i - 1 else if cc.pc = .publish then cc.avail else cc.cur

/-- the value a slot must hold for sequence `q` when the mutable handlers of stages `< K'` whose progress has reached `q`
have been applied (stage order) -/
def expectUpTo (c : PCfg) (s : St) : Nat → Nat → Nat → Nat
  | 0, _, v => v
  | K' + 1, q, v =>
    let v' := expectUpTo c s K' q v
    if c.mutH K' 0 ∧ 1 ≤ q ∧ q ≤ progress (s.cons K' 0) then c.tf K' 0 v' else v'

/-- … and when *all* mutable handlers of stages `< k` have been applied: what a handler of stage `k` must see -/
def expectBelow (c : PCfg) : Nat → Nat → Nat
  | 0, v => v
  | k + 1, v => let v' := expectBelow c k v; if c.mutH k 0 then c.tf k 0 v' else v'

/-- number of sequences written so far -/
def wNext (p : Prod) : Nat := if p.pc = .write ∨ p.pc = .publish then p.w else p.nextWrite

/-- topology hypothesis of the property: a stage with a mutable handler has exactly that handler -/
def Topo (c : PCfg) (s : St) : Prop := ∀ k j, k < s.K → j < s.h k → c.mutH k j = true → s.h k = 1

def mkPay (n K : Nat) (h : Nat → Nat) (blocking : Bool) (batches : List Nat) : PaySt :=
  { x := mk n K h blocking batches }


end RingPay
