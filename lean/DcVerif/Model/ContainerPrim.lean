import DcVerif.Model.Collections
/-! Vocabulary of `tools/rs2lean_containers.py` (C12): what the *std* containers themselves answer — the part the
macro-generated adapters of `deep_causality_macros` are written against. Assumed, not verified (std is outside /repo);
exercised by the correspondence run of C12 on all five container types.

* `len` / `is_empty`: the container's own count of elements (sequences) or entries (maps).
* `iter`: `for x in &c`, `c.iter()` on `[T]`, `Vec<T>`, `VecDeque<T>` — front to back. (The translator refuses it on a map.)
* `values`: `BTreeMap::values()` — ascending key order; `HashMap::values()` — the order of the table, which the model takes as
  a parameter (`order`) and the run reports. (The translator refuses it on a sequence.) -/
namespace Model.ContainerPrim
open Model.Collections

variable {α : Type}

inductive Kind where
  | slice | vec | deque | btree | hash
deriving DecidableEq, Repr

def kindOf : Container α → Kind
  | .slice _ => .slice
  | .vec _ => .vec
  | .deque _ => .deque
  | .btree _ => .btree
  | .hash _ _ => .hash

namespace Prim

def len : Container α → Nat
  | .slice l => l.length
  | .vec l => l.length
  | .deque l => l.length
  | .btree kvs => (btreeOf kvs).length
  | .hash kvs _ => (hashOf kvs).length

/-- std: `is_empty()` is `len() == 0` for all five -/
def is_empty (c : Container α) : Bool := len c == 0

def iter : Container α → List α
  | .slice l => l
  | .vec l => l
  | .deque l => l
  | .btree _ => []
  | .hash _ _ => []

def values : Container α → List α
  | .btree kvs => (btreeOf kvs).map (·.2)
  | .hash kvs order => order.filterMap (hget (hashOf kvs))
  | _ => []

end Prim
end Model.ContainerPrim
