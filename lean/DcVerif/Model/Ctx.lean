import DcVerif.Model.UGraph
import DcVerif.Spec.Context
/-! Model of `deep_causality::Context` (`deep_causality/src/types/context_types/context_graph/*.rs`) for C09:
a base `UltraGraph` of contextoids, an optional map of extra `UltraGraph`s with a selected one
(`extra_context_id`, `0` = none), and the two index maps. Every method of `ContextuableGraph`,
`ExtendableContextuableGraph` and `Indexable` is mirrored line by line, including the redundant guards and the
quirk that `extra_ctx_check_exists(0)` holds (so `extra_ctx_set_current_id(0)` is accepted: it deselects).
A contextoid is represented by its id; a `RelationKind` by its discriminant (`weight as u64`).
The graphs are `Model.UGraph` in the repaired version (F2/F3 fixed). -/
namespace Model

structure Ctx where
  base : UGraph := {}
  extras : Option (List (Nat × UGraph)) := none    -- `Option<HashMap<u64, UltraGraph>>`
  count : Nat := 0                                  -- number_of_extra_contexts
  current : Nat := 0                                -- extra_context_id
  curMap : List (Nat × Nat) := []
  prevMap : List (Nat × Nat) := []
deriving DecidableEq, Repr

namespace Ctx
open Spec.DiGraph (Out)
open Model.UGraph (mGet mInsert Version)

export Spec.Context (Op)

def init : Ctx := {}

/-- result of `get_current_extra_context(_mut)` -/
inductive Sel where
  | err | panic | ok (g : UGraph)

/-- `extra_ctx_check_exists` -/
def checkExists (c : Ctx) (k : Nat) : Bool := decide (k ≤ c.count)

/-- `get_current_extra_context` / `_mut` -/
def getCurrent (c : Ctx) : Sel :=
  if c.current == 0 then .err
  else if !c.checkExists c.current then .err
  else match c.extras with
    | none => .panic                       -- `.expect("Failed to get a reference to extra_contexts")`
    | some m => match mGet m c.current with
      | none => .err
      | some g => .ok g

/-- writing through the `&mut` obtained from `get_current_extra_context_mut` -/
def putCurrent (c : Ctx) (g : UGraph) : Ctx :=
  { c with extras := c.extras.map (fun m => m.map (fun e => if e.1 == c.current then (e.1, g) else e)) }

/-- `UltraGraph::number_nodes/size` etc. answer through petgraph's `len` (may panic in the model) -/
def lenOut (g : UGraph) (f : Nat → Out) : Out :=
  match g.ids.len with
  | some n => f n
  | none => .panic

def extraContainsNode (c : Ctx) (i : Nat) : Bool :=
  match c.getCurrent with
  | .ok g => g.containsNode i
  | _ => false           -- `Err(_) => false` (a panic of `expect` is not reachable, see `getCurrent`)

def step (c : Ctx) : Op → Ctx × Out
  /- contextuable_graph.rs -/
  | .addNode v => let (g, i) := c.base.addNode v; ({ c with base := g }, .idx i)
  | .containsNode i => (c, .bool (c.base.containsNode i))
  | .getNode i => (c, .optNat (c.base.getNode i))
  | .removeNode i =>
    if !c.base.containsNode i then (c, .err)
    else match c.base.removeNode .repaired i with
      | (g, .ok) => ({ c with base := g }, .ok)
      | (_, .panic) => (c, .panic)
      | (_, _) => (c, .err)
  | .addEdge a b w =>
    if !c.base.containsNode a then (c, .err)
    else if !c.base.containsNode b then (c, .err)
    else match c.base.addEdgeW a b w with
      | (g, .ok) => ({ c with base := g }, .ok)
      | (_, .panic) => (c, .panic)
      | (_, _) => (c, .err)
  | .containsEdge a b => (c, .bool (c.base.containsEdge a b))
  | .removeEdge a b =>
    if !c.base.containsNode a then (c, .err)
    else if !c.base.containsNode b then (c, .err)
    else match c.base.removeEdge .repaired a b with
      | (g, .ok) => ({ c with base := g }, .ok)
      | (_, .panic) => (c, .panic)
      | (_, _) => (c, .err)
  | .size => (c, lenOut c.base .nat)
  | .isEmpty => (c, lenOut c.base (fun n => .bool (n == 0)))
  | .nodeCount => (c, lenOut c.base .nat)
  | .edgeCount => (c, .nat c.base.nbEdges)
  /- extendable_contextuable_graph.rs: management -/
  | .xAddNew dflt =>
    let m := c.extras.getD []          -- `if self.extra_contexts.is_none() { … = Some(HashMap::new()) }`
    let n := c.count + 1
    let c' := { c with extras := some (mInsert m n UGraph.init), count := n }
    (if dflt then { c' with current := n } else c', .nat n)
  | .xCheckExists k => (c, .bool (c.checkExists k))
  | .xGetCurrent => (c, .nat c.current)
  | .xSetCurrent k => if !c.checkExists k then (c, .err) else ({ c with current := k }, .ok)
  | .xUnset => ({ c with current := 0 }, .ok)
  /- extendable_contextuable_graph.rs: the selected extra context -/
  | .xAddNode v => match c.getCurrent with
    | .ok g => let (g', i) := g.addNode v; (c.putCurrent g', .idx i)
    | .err => (c, .err)
    | .panic => (c, .panic)
  | .xContainsNode i => (c, .bool (c.extraContainsNode i))
  | .xGetNode i => match c.getCurrent with
    | .ok g => (match g.getNode i with
      | some v => (c, .optNat (some v))
      | none => (c, .err))
    | .err => (c, .err)
    | .panic => (c, .panic)
  | .xRemoveNode i => match c.getCurrent with
    | .ok g => (match g.removeNode .repaired i with
      | (g', .ok) => (c.putCurrent g', .ok)
      | (_, .panic) => (c, .panic)
      | (_, _) => (c, .err))
    | .err => (c, .err)
    | .panic => (c, .panic)
  | .xAddEdge a b w =>
    if !c.extraContainsNode a then (c, .err)
    else if !c.extraContainsNode b then (c, .err)
    else match c.getCurrent with
      | .ok g => (match g.addEdgeW a b w with
        | (g', .ok) => (c.putCurrent g', .ok)
        | (_, .panic) => (c, .panic)
        | (_, _) => (c, .err))
      | .err => (c, .err)
      | .panic => (c, .panic)
  | .xContainsEdge a b =>
    if !c.extraContainsNode a then (c, .bool false)
    else if !c.extraContainsNode b then (c, .bool false)
    else match c.getCurrent with
      | .ok g => (c, .bool (g.containsEdge a b))
      | _ => (c, .bool false)
  | .xRemoveEdge a b =>
    if !c.extraContainsNode a then (c, .err)
    else if !c.extraContainsNode b then (c, .err)
    else match c.getCurrent with
      | .ok g => (match g.removeEdge .repaired a b with
        | (g', .ok) => (c.putCurrent g', .ok)
        | (_, .panic) => (c, .panic)
        | (_, _) => (c, .err))
      | .err => (c, .err)
      | .panic => (c, .panic)
  | .xSize | .xNodeCount => match c.getCurrent with
    | .ok g => (c, lenOut g .nat)
    | .err => (c, .err)
    | .panic => (c, .panic)
  | .xIsEmpty => match c.getCurrent with
    | .ok g => (c, lenOut g (fun n => .bool (n == 0)))
    | .err => (c, .err)
    | .panic => (c, .panic)
  | .xEdgeCount => match c.getCurrent with
    | .ok g => (c, .nat g.nbEdges)
    | .err => (c, .err)
    | .panic => (c, .panic)
  /- indexable.rs -/
  | .getIndex key cur => (c, .optNat (if cur then mGet c.curMap key else mGet c.prevMap key))
  | .setIndex key idx cur =>
    (if cur then { c with curMap := mInsert c.curMap key idx } else { c with prevMap := mInsert c.prevMap key idx }, .ok)

/-- run a history (oldest first), collecting the outputs -/
def run (c : Ctx) : List Op → Ctx × List Out
  | [] => (c, [])
  | op :: rest =>
    let (c', o) := step c op
    let (c'', os) := run c' rest
    (c'', o :: os)

/-- the graph an index denotes: `0` = base context, `k ≥ 1` = extra context `k` -/
def component (c : Ctx) (k : Nat) : Option UGraph :=
  if k == 0 then some c.base
  else match c.extras with
    | none => none
    | some m => mGet m k

end Ctx
end Model
