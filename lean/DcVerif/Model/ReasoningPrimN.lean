import DcVerif.Model.GraphDfs
/-! Second vocabulary for the definitions generated from `graph_reasoning.rs` (`Gen/ReasoningN.lean`, the same text as
`Gen/Reasoning.lean`): graphs whose nodes may be *wrappers* (C02). Same names as `Model/ReasoningPrim.lean` +
`Model/CausalGraph.lean`, so that the generated text type-checks unchanged under `open NestedGraph`:

* `Node`: what the graph code asks of a causaloid — `id()`, `is_singleton()` (`single`), `verify_single_cause(obs)`
  (`fn.apply`, the abstract causal function; `Err` = `V.e`) and `verify_all_causes(data, data_index)` (`va`, abstract: the
  recursive call into the wrapped structure);
* `CG`: an add-only `CausaloidGraph` — nodes `0 … n-1` in insertion order, the edge list, the root; `contains_causaloid(i)` =
  `i < n`, `get_causaloid` = the `i`-th node, `outgoing_edges(a)` = `Err` off the graph, else the neighbours in ascending
  order (petgraph's matrix row), `get_last_index()` = the node count (`Err` on the empty graph), `size` = `n`.
Assumed (the same assumptions as for `Model/ReasoningPrim.lean`), exercised by the correspondence runs of C02 / C11. core only. -/
namespace NestedGraph
open Dfs (V)

/-- outcome of a reasoning call: `Ok(b)`, `Err(_)`, or a reached failing `expect` / `unwrap` -/
inductive Res
  | ok (b : Bool)
  | err
  | panic
  deriving DecidableEq, Repr

structure NFn where
  apply : Nat → V

structure Node where
  id : Nat
  fn : NFn
  single : Bool
  va : List Nat → Option (List (Nat × Nat)) → V

def Node.isSingleton (nd : Node) : Bool := nd.single
def Node.verifyAll (nd : Node) (data : List Nat) (idx : Option (List (Nat × Nat))) : V := nd.va data idx

structure CG where
  nodes : List Node
  edges : List (Nat × Nat)
  root : Option Nat

def nodeCount (g : CG) : Nat := g.nodes.length
def contains (g : CG) (i : Nat) : Bool := decide (i < g.nodes.length)
def getNode (g : CG) (i : Nat) : Option Node := g.nodes[i]?
def out (g : CG) (a : Nat) : List Nat := (List.range g.nodes.length).filter (fun b => g.edges.contains (a, b))
def outEdges (g : CG) (a : Nat) : Option (List Nat) := if contains g a then some (out g a) else none
def lastIndexR (g : CG) : Option Nat := if nodeCount g = 0 then none else some (nodeCount g)

end NestedGraph
