import DcVerif.Model.GraphDfs
/-! Model of `CausaloidGraph` reasoning over graphs of *singleton* causaloids (C01, C10).

Mirrors, line by line,
* `ultragraph/src/storage/matrix_graph/{graph_like,graph_root,graph_algorithms}.rs` for the operations used here
  (`add_node`, `add_root_node`, `add_edge[_with_weight]`, `contains_node`, `get_node`, `get_last_index`, `outgoing_edges`),
  restricted to histories without removals (petgraph's `IdStorage` then hands out 0, 1, 2, …; `upper` is its next id),
* `deep_causality/src/protocols/causable_graph/graph_reasoning_utils.rs::get_obs`,
* `deep_causality/src/protocols/causable_graph/graph_reasoning.rs` (`reason_single_cause`, `reason_all_causes`,
  `reason_subgraph_from_cause`, `reason_from_to_cause`, `reason_shortest_path_between_causes`) with all guard clauses,
* `causaloid/causable.rs::verify_single_cause` (the activation flag is written only after the function succeeded).

A panic of the code (`expect` on a missing observation, on a failed verification …) is the result `panic`.
The causal functions are the harness's verdict decoders (`harness/src/c01.rs`): `obs mod 3` = 0 true, 1 false, 2 error.
core only. -/
namespace CausalGraph
open Dfs (V)

/-- the causal `fn` items of the harness -/
inductive Fn
  | plain            -- decode obs
  | inv              -- decode obs, boolean inverted
  | ctx (m : Nat)    -- contextual: decode (obs + marker read from the context)
  deriving DecidableEq, Repr

def decode (k : Nat) : V := if k % 3 = 0 then .t else if k % 3 = 1 then .f else .e

def Fn.apply : Fn → Nat → V
  | .plain, o => decode o
  | .inv, o => match decode o with | .t => .f | .f => .t | .e => .e
  | .ctx m, o => decode (o + m)

structure Node where
  id : Nat
  fn : Fn
  deriving Repr

/-- `UltraMatrixGraph<Causaloid>` without removals -/
structure CG where
  upper : Nat := 0                        -- petgraph node storage: next fresh index = node_count
  nodeMap : List (Nat × Node) := []       -- node_map : NodeIndex → T (newest first)
  indexMap : List Nat := []               -- keys of index_map : usize → NodeIndex
  adj : List (Nat × Nat × Nat) := []      -- (from, to, weight), insertion order, no duplicate (from, to)
  root : Option Nat := none               -- root_index
  deriving Repr

/-- `graph.node_count()` (`size`, `is_empty`) -/
def nodeCount (g : CG) : Nat := g.upper

def contains (g : CG) (i : Nat) : Bool := g.indexMap.contains i

/-- `get_node` -/
def getNode (g : CG) (i : Nat) : Option Node := if contains g i then g.nodeMap.lookup i else none

/-- `add_node`: returns the graph and the public index -/
def addNode (g : CG) (nd : Node) : CG × Nat :=
  ({ g with upper := g.upper + 1, nodeMap := (g.upper, nd) :: g.nodeMap, indexMap := g.upper :: g.indexMap }, g.upper)

/-- `add_root_node`: `add_node`, overwrite `root_index`, re-insert the key into `index_map` (no effect on a map) -/
def addRoot (g : CG) (nd : Node) : CG × Nat :=
  let (g', i) := addNode g nd
  ({ g' with root := some i }, i)

def hasEdge (g : CG) (a b : Nat) : Bool := g.adj.any fun e => e.1 == a && e.2.1 == b

def containsEdge (g : CG) (a b : Nat) : Bool := contains g a && contains g b && hasEdge g a b

/-- `add_edge_with_weight` (`add_edge` = weight 0); `none` = `Err` (graph unchanged) -/
def addEdge (g : CG) (a b w : Nat) : Option CG :=
  if !contains g a then none
  else if !contains g b then none
  else if containsEdge g a b then none
  else some { g with adj := g.adj ++ [(a, b, w)] }

/-- `outgoing_edges(a)`: the columns of row `a` in ascending order -/
def out (g : CG) (a : Nat) : List Nat := (List.range g.upper).filter (hasEdge g a)

def weight (g : CG) (a b : Nat) : Option Nat := (g.adj.find? fun e => e.1 == a && e.2.1 == b).map (·.2.2)

/-- `get_last_index` of a non-empty graph: `node_map.len()` -/
def lastIndex (g : CG) : Nat := g.nodeMap.length

/-! ### graphs built by adds only -/

inductive Op
  | add (nd : Node)
  | root (nd : Node)
  | edge (a b w : Nat)
  deriving Repr

def step (g : CG) : Op → CG
  | .add nd => (addNode g nd).1
  | .root nd => (addRoot g nd).1
  | .edge a b w => (addEdge g a b w).getD g

def build (ops : List Op) : CG := ops.foldl step {}

/-! ### observations and verdicts -/

/-- `get_obs(cause_id, data, data_index)`; `none` = one of the two `expect`s panics -/
def getObs (id : Nat) (data : List Nat) (idx : Option (List (Nat × Nat))) : Option Nat :=
  match idx with
  | some m =>
    match m.lookup id with
    | some k => data[k]?
    | none => none
  | none => data[id]?

/-- the observation routed to node `v` -/
def obsAt (g : CG) (data : List Nat) (idx : Option (List (Nat × Nat))) (v : Nat) : Option Nat :=
  match getNode g v with
  | none => none
  | some nd => getObs nd.id data idx

/-- verdict of node `v` on the observation routed to it; `none` = the code panics before calling the function -/
def evalAt (g : CG) (data : List Nat) (idx : Option (List (Nat × Nat))) (v : Nat) : Option V :=
  match getNode g v with
  | none => none
  | some nd =>
    match getObs nd.id data idx with
    | none => none
    | some o => some (nd.fn.apply o)

/-- what a reasoning call returns: `Ok(b)`, `Err(_)`, or a panic -/
inductive Res
  | ok (b : Bool)
  | err
  | panic
  deriving DecidableEq, Repr

def Res.toV : Res → V
  | .ok true => .t
  | .ok false => .f
  | .err => .e
  | .panic => .e

/-- the `while let Some(children) = stack.last_mut()` loop of `reason_from_to_cause`, with the log of the nodes whose
    causal function was called (newest first). Same control flow as `Dfs.loop` (`loopT_toV`). -/
def loopT (out : Nat → List Nat) (ev : Nat → Option V) (stop : Nat) :
    Nat → List (List Nat) → List Nat → Option (Res × List Nat)
  | 0, _, _ => none
  | _+1, [], acc => some (.ok true, acc)
  | fuel+1, [] :: rest, acc => loopT out ev stop fuel rest acc
  | fuel+1, (c :: cs) :: rest, acc =>
    match ev c with
    | none => some (.panic, acc)
    | some .e => some (.err, c :: acc)
    | some .f => some (.ok false, c :: acc)
    | some .t => if c = stop then some (.ok true, c :: acc) else loopT out ev stop fuel (out c :: cs :: rest) (c :: acc)

/-- `reason_from_to_cause`: result and the nodes evaluated, in order. `none` = fuel exhausted (the code would still run). -/
def reasonFromTo (fuel : Nat) (g : CG) (start stop : Nat) (data : List Nat) (idx : Option (List (Nat × Nat))) :
    Option (Res × List Nat) :=
  if nodeCount g = 0 then some (.err, [])
  else if data.isEmpty then some (.err, [])
  else if !contains g start then some (.err, [])
  else
    match evalAt g data idx start with
    | none => some (.panic, [])
    | some .e => some (.err, [start])
    | some .f => some (.ok false, [start])
    | some .t =>
      (loopT (out g) (evalAt g data idx) stop fuel [out g start] [start]).map fun p => (p.1, p.2.reverse)

/-- `reason_all_causes` -/
def reasonAll (fuel : Nat) (g : CG) (data : List Nat) (idx : Option (List (Nat × Nat))) : Option (Res × List Nat) :=
  match g.root with
  | none => some (.err, [])
  | some r =>
    if nodeCount g = 0 then some (.panic, [])      -- `get_last_index().expect(…)`
    else reasonFromTo fuel g r (lastIndex g) data idx

/-- `reason_subgraph_from_cause` -/
def reasonSub (fuel : Nat) (g : CG) (start : Nat) (data : List Nat) (idx : Option (List (Nat × Nat))) :
    Option (Res × List Nat) :=
  if nodeCount g = 0 then some (.err, [])
  else reasonFromTo fuel g start (lastIndex g) data idx

/-- the `for obs in data.iter()` loop of `reason_single_cause` (`data.len() > 1`): an error of the function is a panic -/
def singleLoop (fn : Fn) : List Nat → Res × List Nat
  | [] => (.ok true, [])
  | o :: os =>
    match fn.apply o with
    | .e => (.panic, [o])
    | .f => (.ok false, [o])
    | .t => let (r, l) := singleLoop fn os; (r, o :: l)

/-- `reason_single_cause`: result and the observations the node's function was called with, in order -/
def reasonSingle (g : CG) (i : Nat) (data : List Nat) : Res × List Nat :=
  if !contains g i then (.err, [])
  else if data.isEmpty then (.err, [])
  else
    match getNode g i with
    | none => (.panic, [])
    | some nd =>
      match data with
      | [o] => ((match nd.fn.apply o with | .t => .ok true | .f => .ok false | .e => .err), [o])
      | _ => singleLoop nd.fn data

/-- the `for index in shortest_path` loop of `reason_shortest_path_between_causes` -/
def pathEval (ev : Nat → Option V) : List Nat → Res × List Nat
  | [] => (.ok true, [])
  | c :: cs =>
    match ev c with
    | none => (.panic, [])
    | some .e => (.err, [c])
    | some .f => (.ok false, [c])
    | some .t => let (r, l) := pathEval ev cs; (r, c :: l)

/-- `reason_shortest_path_between_causes`; `path` = what `shortest_path` (petgraph `astar`) answered — external
    nondeterminism (ties), validated by the driver against `FW.dist`. Note: `data` is *not* checked for emptiness. -/
def reasonShortest (g : CG) (s t : Nat) (data : List Nat) (idx : Option (List (Nat × Nat)))
    (path : Option (List Nat)) : Res × List Nat :=
  if nodeCount g = 0 then (.err, [])
  else if !contains g s then (.err, [])
  else if !contains g t then (.err, [])
  else if s = t then (.err, [])                       -- `get_shortest_path`: start == stop
  else
    match path with
    | none => (.err, [])                              -- "No path found"
    | some p => pathEval (evalAt g data idx) p

/-! ### activation flags (`Arc<RwLock<bool>>` of every node, written by `verify_single_cause` on success only) -/

def setFlag (flags : List Bool) (v : Nat) (b : Bool) : List Bool := flags.set v b

/-- effect of one evaluation of node `v` with verdict `x` -/
def applyVerdict (flags : List Bool) (v : Nat) : V → List Bool
  | .t => setFlag flags v true
  | .f => setFlag flags v false
  | .e => flags

/-- flags after the nodes of `log` were evaluated in order -/
def applyLog (ev : Nat → Option V) (flags : List Bool) (log : List Nat) : List Bool :=
  log.foldl (fun fl v => match ev v with | some x => applyVerdict fl v x | none => fl) flags

end CausalGraph
