import DcVerif.Model.CausalGraph
/-! Vocabulary the generated definitions of `Gen/Reasoning.lean` (`tools/rs2lean_reasoning.py`) are written against, on top of
`Model/CausalGraph.lean` (`CG`, `nodeCount`, `contains`, `getNode`, `out`, `lastIndex`, `Node`, `Fn.apply`, `Res`, `Dfs.V`).
These are the *assumed* meanings of the calls that leave the translated files (the graph store `CausaloidGraph` over
`ultragraph`, and `Causaloid`); everything else in `Gen/Reasoning.lean` is read from the source. core only. -/
namespace CausalGraph
open Dfs (V)

/-- `get_graph().outgoing_edges(a)` with its guard: `Err` (`none`) when `a` is not in the graph, else the neighbours in
    ascending order -/
def outEdges (g : CG) (a : Nat) : Option (List Nat) := if contains g a then some (out g a) else none

/-- `CausableGraph::get_last_index()`: `Err` (`none`) on the empty graph -/
def lastIndexR (g : CG) : Option Nat := if nodeCount g = 0 then none else some (lastIndex g)

/-- `Causable::is_singleton()`: every node of this model is a singleton causaloid -/
def Node.isSingleton (_ : Node) : Bool := true

/-- `Causable::verify_all_causes(data, data_index)` called on a singleton: `Err("Causaloid is singleton. …")`, nothing is
    evaluated (`causaloid/causable.rs`) -/
def Node.verifyAll (_ : Node) (_data : List Nat) (_idx : Option (List (Nat × Nat))) : V := .e

theorem getNode_some_contains (g : CG) (i : Nat) (nd : Node) (h : getNode g i = some nd) : contains g i = true := by
  unfold getNode at h
  split at h
  · assumption
  · cases h

theorem outEdges_of_contains (g : CG) (i : Nat) (h : contains g i = true) : outEdges g i = some (out g i) := by
  simp [outEdges, h]

theorem outEdges_of_getNode (g : CG) (i : Nat) (nd : Node) (h : getNode g i = some nd) : outEdges g i = some (out g i) :=
  outEdges_of_contains g i (getNode_some_contains g i nd h)

end CausalGraph
