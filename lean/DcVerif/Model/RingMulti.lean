import DcVerif.Model.RingLabel
import DcVerif.Gen.BitMap
/-!
# The pipeline with the multi-producer sequencer

`P` writer threads call `Producer::write` (= `MultiProducerSequencer::next`, slot writes, `publish`) for their batch
lists; afterwards a draining thread (the one that joined them) calls `drain`. Consumers are those of `Model/Ring.lean`
(`stepC` on the shared `St`). One step = one facade operation, as there. Mirrors `producer/multi_producer.rs` line by
line, including its defects (DESIGN.md §6 F7/F8). `has_capacity` subtracts with `saturating_sub` (repair F12; the pc
`panicked` remains for a thread that dies in an arithmetic overflow, reported by the harness as `panic`).
The bitmap is the generated `Gen.BitMap`.
-/
namespace RingMulti
open Ring

inductive WPc
  | start       -- internal: next batch or done
  | readHw      -- `self.high_watermark.get()`
  | capLoad     -- `get_min_cursor_sequence(&gating)`: load `idx`; internal when all are loaded
  | capCheck    -- internal: `buffer_size > (hw - min) as usize + count` ?
  | casHw       -- `high_watermark.compare_and_swap(hw, end)`
  | write       -- slot write of `w`; internal when the batch is written
  | setBit      -- `ready_sequences.set(n)` for n in lo..=hi; internal at the end
  | readLw      -- `self.low_watermark.get()`
  | scan        -- `is_set(good + 1)` while `good < hi`; internal when the loop ends
  | relCheck    -- internal: `good_to_release > low_watermark` ?
  | unsetBit    -- `ready_sequences.unset(n)` for n in lw..=good; internal at the end
  | casCur      -- `cursor.compare_and_swap(current, good)`
  | reloadCur   -- `current = cursor.get()`
  | setLw       -- `low_watermark.set(good)`
  | sLock | sNotify | sUnlock   -- blocking `signal()`
  | done
  | panicked    -- arithmetic overflow in `has_capacity`
deriving DecidableEq, Repr

structure Writer where
  pc     : WPc := .start
  todo   : List Nat := []
  count  : Nat := 0
  hwSeen : Nat := 0
  acc    : Option Nat := none
  idx    : Nat := 0
  minG   : Nat := 0
  lo     : Nat := 0
  hi     : Nat := 0
  w      : Nat := 0
  nbit   : Nat := 0
  lwSeen : Nat := 0
  good   : Nat := 0
  u      : Nat := 0
  cur    : Nat := 0
  claims : List (Nat × Nat × Nat) := []   -- ghost
deriving Repr

inductive DPc
  | waitJoin    -- joins the writer threads: enabled once all of them are done
  | readCur     -- `self.cursor.get()`
  | drainLoad | drainCheck
  | dLock | dNotify | dUnlock
  | setDone
  | eLock | eNotify | eUnlock
  | done
deriving DecidableEq, Repr

structure Drainer where
  pc : DPc := .waitJoin
  current : Nat := 0
  acc : Option Nat := none
  idx : Nat := 0
  min : Nat := 0
deriving Repr

structure MSt where
  s  : St
  P  : Nat
  hw : Nat := 0
  lw : Nat := 0
  bm : Option Gen.BitMap.BitMap     -- `none` = an unchecked index went out of bounds
  wr : Nat → Writer
  dr : Drainer := {}
  written : List (Nat × Nat) := []  -- ghost: (sequence, writer)
  allClaims : List (Nat × Nat × Nat) := []   -- ghost: (lo, hi, requested count) of every successful claim, in CAS order

inductive MTid
  | writer (i : Nat)
  | drainer
  | cons (k j : Nat)
deriving DecidableEq, Repr

def updW (f : Nat → Writer) (i : Nat) (w : Writer) : Nat → Writer := fun i' => if i' = i then w else f i'

def bmApply (bm : Option Gen.BitMap.BitMap) (f : Gen.BitMap.BitMap → Option Gen.BitMap.BitMap) : Option Gen.BitMap.BitMap :=
  bm.bind f

def bmIsSet (bm : Option Gen.BitMap.BitMap) (q : Nat) : Bool :=
  match bm.bind (fun b => Gen.BitMap.is_set b q) with
  | some b => b
  | none => false

def stepWriter (x : MSt) (i : Nat) : MSt :=
  let w := x.wr i; let s := x.s
  let setW (w' : Writer) : MSt := { x with wr := updW x.wr i w' }
  match w.pc with
  | .start =>
      match w.todo with
      | [] => setW { w with pc := .done }
      | b :: rest => setW { w with todo := rest, count := b, pc := .readHw }
  | .readHw => setW { w with hwSeen := x.hw, pc := .capLoad, acc := none, idx := 0 }
  | .capLoad =>
      if w.idx < ngate s then setW { w with acc := minOpt w.acc (gate s w.idx), idx := w.idx + 1 }
      else setW { w with minG := w.acc.getD 0, pc := .capCheck }
  | .capCheck =>
      -- `high_watermark.saturating_sub(min)` (= `Nat` subtraction) since the F12 repair; before it a stale
      -- `high_watermark < min` was an arithmetic overflow (`panicked`)
      if s.n > (w.hwSeen - w.minG) + w.count then setW { w with pc := .casHw }
      else setW { w with pc := .readHw }
  | .casHw =>
      if x.hw = w.hwSeen then
        { x with hw := w.hwSeen + w.count,
                 allClaims := x.allClaims ++ [(w.hwSeen + 1, w.hwSeen + w.count, w.count)],
                 wr := updW x.wr i { w with lo := w.hwSeen + 1, hi := w.hwSeen + w.count, w := w.hwSeen + 1, pc := .write,
                                            claims := w.claims ++ [(w.hwSeen + 1, w.hwSeen + w.count, w.count)] } }
      else setW { w with pc := .readHw }
  | .write =>
      if w.w ≤ w.hi then { x with wr := updW x.wr i { w with w := w.w + 1 }, written := x.written ++ [(w.w, i)] }
      else setW { w with pc := .setBit, nbit := w.lo }
  | .setBit =>
      if w.nbit ≤ w.hi then
        { x with bm := bmApply x.bm (fun b => Gen.BitMap.set b w.nbit), wr := updW x.wr i { w with nbit := w.nbit + 1 } }
      else setW { w with pc := .readLw }
  | .readLw => setW { w with lwSeen := x.lw, good := x.lw, pc := .scan }
  | .scan =>
      if w.good < w.hi then
        (if bmIsSet x.bm (w.good + 1) then setW { w with good := w.good + 1 } else setW { w with pc := .relCheck })
      else setW { w with pc := .relCheck }
  | .relCheck =>
      if w.good > w.lwSeen then setW { w with pc := .unsetBit, u := w.lwSeen } else setW { w with pc := .start }
  | .unsetBit =>
      if w.u ≤ w.good then
        { x with bm := bmApply x.bm (fun b => Gen.BitMap.unset b w.u), wr := updW x.wr i { w with u := w.u + 1 } }
      else setW { w with pc := .casCur, cur := w.lwSeen }
  | .casCur =>
      if s.cursor = w.cur then { x with s := { s with cursor := w.good }, wr := updW x.wr i { w with pc := .setLw } }
      else setW { w with pc := .reloadCur }
  | .reloadCur =>
      if s.cursor > w.good then setW { w with cur := s.cursor, pc := .setLw }
      else setW { w with cur := s.cursor, pc := .casCur }
  | .setLw => { x with lw := w.good, wr := updW x.wr i { w with pc := if s.blocking then .sLock else .start } }
  | .sLock =>
      if s.mtx = none then { x with s := { s with mtx := some .prod }, wr := updW x.wr i { w with pc := .sNotify } }
      else x
  | .sNotify => { x with s := { s with woken := fun _ _ => true }, wr := updW x.wr i { w with pc := .sUnlock } }
  | .sUnlock => { x with s := { s with mtx := none }, wr := updW x.wr i { w with pc := .start } }
  | .done => x
  | .panicked => x

/-- all writer threads have ended (returned, or died in the overflow panic) -/
def writersDone (x : MSt) : Bool := (List.range x.P).all fun i => (x.wr i).pc == .done || (x.wr i).pc == .panicked

def stepDrainer (x : MSt) : MSt :=
  let d := x.dr; let s := x.s
  let setD (d' : Drainer) : MSt := { x with dr := d' }
  match d.pc with
  | .waitJoin => if writersDone x then setD { d with pc := .readCur } else x
  | .readCur => setD { d with current := s.cursor, pc := .drainLoad, acc := none, idx := 0 }
  | .drainLoad =>
      if d.idx < ngate s then setD { d with acc := minOpt d.acc (gate s d.idx), idx := d.idx + 1 }
      else setD { d with min := d.acc.getD 0, pc := .drainCheck }
  | .drainCheck =>
      if d.min < d.current then
        (if s.blocking then setD { d with pc := .dLock } else setD { d with pc := .drainLoad, acc := none, idx := 0 })
      else setD { d with pc := .setDone }
  | .dLock => if s.mtx = none then { x with s := { s with mtx := some .prod }, dr := { d with pc := .dNotify } } else x
  | .dNotify => { x with s := { s with woken := fun _ _ => true }, dr := { d with pc := .dUnlock } }
  | .dUnlock => { x with s := { s with mtx := none }, dr := { d with pc := .drainLoad, acc := none, idx := 0 } }
  | .setDone => { x with s := { s with isDone := true }, dr := { d with pc := if s.blocking then .eLock else .done } }
  | .eLock => if s.mtx = none then { x with s := { s with mtx := some .prod }, dr := { d with pc := .eNotify } } else x
  | .eNotify => { x with s := { s with woken := fun _ _ => true }, dr := { d with pc := .eUnlock } }
  | .eUnlock => { x with s := { s with mtx := none }, dr := { d with pc := .done } }
  | .done => x

def stepM (x : MSt) : MTid → MSt
  | .writer i => if i < x.P then stepWriter x i else x
  | .drainer => stepDrainer x
  | .cons k j => if k < x.s.K ∧ j < x.s.h k then { x with s := stepC x.s k j } else x

def runM (x : MSt) (sched : List MTid) : MSt := sched.foldl stepM x

def mkM (n K : Nat) (h : Nat → Nat) (blocking : Bool) (batches : List (List Nat)) : MSt :=
  let arr := batches.toArray
  { s := { n := n, K := K, h := h, blocking := blocking, cons := fun _ _ => {} },
    P := batches.length, bm := some (Gen.BitMap.build n),
    wr := fun i => { todo := arr.getD i [] } }

/-! ## labels for the trace replay -/
open Gen.Orderings

def bmIndex (x : MSt) (f : Gen.BitMap.BitMap → Nat → Nat) (q : Nat) : Nat :=
  match x.bm with | some b => f b q | none => 0
def bmWord (x : MSt) (i : Nat) : Nat :=
  match x.bm with | some b => b.slots.getD i 0 | none => 0

def writerLabel (x : MSt) (i : Nat) : Option Label :=
  let w := x.wr i; let s := x.s
  match w.pc with
  | .start | .capCheck | .relCheck => none
  | .readHw => some { kind := "ld", loc := some .hw, ord := seqGet.name, obs := some x.hw }
  | .capLoad =>
      if w.idx < ngate s then some { kind := "ld", loc := some (gateLoc s w.idx), ord := seqGet.name, obs := some (gate s w.idx) }
      else none
  | .casHw => some { kind := "cas", loc := some .hw, val := some (w.hwSeen + w.count), ord := seqCasOk.name,
                     obs := some (if x.hw = w.hwSeen then 1 else 0) }
  | .write => if w.w ≤ w.hi then some { kind := "write", val := some w.w } else none
  | .setBit =>
      if w.nbit ≤ w.hi then
        let ix := bmIndex x Gen.BitMap.set_index w.nbit
        some { kind := "for", loc := some (.bm ix), ord := bmOr.name, obs := some (bmWord x ix) }
      else none
  | .readLw => some { kind := "ld", loc := some .lw, ord := seqGet.name, obs := some x.lw }
  | .scan =>
      if w.good < w.hi then
        let ix := bmIndex x Gen.BitMap.is_set_index (w.good + 1)
        some { kind := "ld", loc := some (.bm ix), ord := bmLoad.name, obs := some (bmWord x ix) }
      else none
  | .unsetBit =>
      if w.u ≤ w.good then
        let ix := bmIndex x Gen.BitMap.unset_index w.u
        some { kind := "fand", loc := some (.bm ix), ord := bmAnd.name, obs := some (bmWord x ix) }
      else none
  | .casCur => some { kind := "cas", loc := some .pcur, val := some w.good, ord := seqCasOk.name,
                      obs := some (if s.cursor = w.cur then 1 else 0) }
  | .reloadCur => some { kind := "ld", loc := some .pcur, ord := seqGet.name, obs := some s.cursor }
  | .setLw => some { kind := "st", loc := some .lw, val := some w.good, ord := seqSet.name }
  | .sLock => some { kind := "lock", loc := some .mtx }
  | .sNotify => some { kind := "notify", loc := some .cv }
  | .sUnlock => some { kind := "unlock", loc := some .mtx }
  | .done => some { kind := "exit" }
  | .panicked => some { kind := "panic" }

def drainerLabel (x : MSt) : Option Label :=
  let d := x.dr; let s := x.s
  match d.pc with
  | .waitJoin => some { kind := "join" }
  | .readCur => some { kind := "ld", loc := some .pcur, ord := seqGet.name, obs := some s.cursor }
  | .drainLoad =>
      if d.idx < ngate s then some { kind := "ld", loc := some (gateLoc s d.idx), ord := seqGet.name, obs := some (gate s d.idx) }
      else none
  | .drainCheck => none
  | .dLock | .eLock => some { kind := "lock", loc := some .mtx }
  | .dNotify | .eNotify => some { kind := "notify", loc := some .cv }
  | .dUnlock | .eUnlock => some { kind := "unlock", loc := some .mtx }
  | .setDone => some { kind := "stb", loc := some .isDone, val := some 1, ord := doneStoreMulti.name }
  | .done => some { kind := "exit" }

def labelM (x : MSt) : MTid → Option Label
  | .writer i => writerLabel x i
  | .drainer => drainerLabel x
  | .cons k j => consLabel x.s k j

def enabledM (x : MSt) : MTid → Bool
  | .writer i => match (x.wr i).pc with
    | .sLock => x.s.mtx.isNone
    | .done | .panicked => false
    | _ => true
  | .drainer => match x.dr.pc with
    | .waitJoin => writersDone x
    | .dLock | .eLock => x.s.mtx.isNone
    | .done => false
    | _ => true
  | .cons k j => Ring.enabled { s := x.s, p := {} } (.cons k j)

def skipInternalM (x : MSt) (t : MTid) : Nat → MSt
  | 0 => x
  | fuel + 1 => match labelM x t with
    | none => skipInternalM (stepM x t) t fuel
    | some _ => x

def compactM (x : MSt) : MSt :=
  let y := Ring.compact { s := x.s, p := {} }
  let ws := ((List.range x.P).map x.wr).toArray
  { x with s := y.s, wr := fun i => ws.getD i {} }

end RingMulti
