import DcVerif.Spec.Csm
/-! The primitive vocabulary of the CSM model: what `std::collections::HashMap<usize, (&CausalState, &CausalAction)>` is taken
to be. Shared by the hand model (`Model/Csm.lean`) and by the definitions generated from the Rust source
(`Gen/Csm.lean`, `tools/rs2lean_csm.py`); this file and `Spec/Csm.lean` (`Env`, `Ev`, `Out`, `Verdict`) are the only hand-written
things the generated file refers to.

* the map is an association list with the `HashMap` behaviour: `upsert` overwrites in place or appends, `delete` erases the key;
  `RefCell` / `RwLock` around it is a plain cell;
* `HashMap::iter` / `values` / `keys` walk the map in an order that is external nondeterminism: `entries t order` enumerates the
  table through the list of ids `order` handed in from outside (ids not in the table are skipped — a real enumeration never
  contains one). -/
namespace Model.Csm
open Spec.Csm

variable {σ α δ : Type}

abbrev Table (σ α : Type) := List (Nat × (σ × α))

/-- `HashMap::get` -/
def lookup : Table σ α → Nat → Option (σ × α)
  | [], _ => none
  | (j, v) :: r, k => if j = k then some v else lookup r k

/-- `HashMap::insert` -/
def upsert : Table σ α → Nat → (σ × α) → Table σ α
  | [], k, v => [(k, v)]
  | (j, w) :: r, k, v => if j = k then (k, v) :: r else (j, w) :: upsert r k v

/-- `HashMap::remove` -/
def delete : Table σ α → Nat → Table σ α
  | [], _ => []
  | (j, w) :: r, k => if j = k then delete r k else (j, w) :: delete r k

/-- `HashMap::iter`, for the enumeration order `order` -/
def entries (t : Table σ α) (order : List Nat) : List (Nat × (σ × α)) :=
  order.filterMap (fun k => (lookup t k).map (fun v => (k, v)))

end Model.Csm
