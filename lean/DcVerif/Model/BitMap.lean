import DcVerif.Gen.BitMap
import DcVerif.Spec.BitMap
/-! Model glue for C19: running a call history on the *generated* `Gen.BitMap` functions. -/
namespace Model.BitMap
open Gen.BitMap Spec.BitMap

def apply (bm : BitMap) : Op → Option BitMap
  | .set s => Gen.BitMap.set bm s
  | .unset s => unset bm s

/-- oldest first -/
def run (bm : BitMap) : List Op → Option BitMap
  | [] => some bm
  | op :: rest => match apply bm op with
    | none => none
    | some bm' => run bm' rest

end Model.BitMap
