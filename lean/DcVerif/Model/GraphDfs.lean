/-! The `reason_from_to_cause` stack machine of `graph_reasoning.rs` (after the start node was verified), parametric in the
node evaluation `eval` and the adjacency `out`. Shared by C01, C02, C10, C11. -/
namespace Dfs

inductive V | t | f | e deriving DecidableEq, Repr

structure G where
  out  : Nat → List Nat
  eval : Nat → V

/-- the loop of `reason_from_to_cause` after the start node was verified:
    a stack of "remaining children" iterators; no visited set; early exit on `stop`. -/
def loop (g : G) (stop : Nat) : Nat → List (List Nat) → Option V
  | 0, _ => none
  | _+1, [] => some .t
  | fuel+1, [] :: rest => loop g stop fuel rest
  | fuel+1, (c :: cs) :: rest =>
    match g.eval c with
    | .e => some .e
    | .f => some .f
    | .t => if c = stop then some .t else loop g stop fuel (g.out c :: cs :: rest)

/-- reachability from a node (reflexive, transitive) -/
inductive Reach (g : G) : Nat → Nat → Prop
  | refl (v) : Reach g v v
  | step {a b c} : b ∈ g.out a → Reach g b c → Reach g a c


end Dfs
