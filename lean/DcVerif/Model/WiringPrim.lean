/-! Vocabulary of `tools/rs2lean_wiring.py`: what the sequencer and processor methods the DSL builder calls do to the *wiring*
(who waits for whom). Assumed meanings; each is checked against the source by shape on every run (`check_vocabulary` in the
translator): `get_cursor` returns the object's own cursor, `create_barrier(&gs)` builds a barrier over exactly `gs`,
`add_gating_sequence(g)` appends `g` to the sequencer's gating list, `prepare(barrier, _)` makes a runnable that owns the
processor (its cursor) and that barrier. core only. -/
namespace Model.WiringPrim

structure Seq (κ : Type) where
  cursor : κ
  gating : List κ

structure Barrier (κ : Type) where
  deps : List κ

structure Proc (κ : Type) where
  cursor : κ

structure Run (κ : Type) where
  cursor : κ
  barrier : Barrier κ

variable {κ : Type}

def Seq.get_cursor (s : Seq κ) : κ := s.cursor
def Seq.create_barrier (_s : Seq κ) (gs : List κ) : Barrier κ := ⟨gs⟩
def Seq.add_gating_sequence (s : Seq κ) (g : κ) : Seq κ := { s with gating := s.gating ++ [g] }
def Proc.get_cursor (p : Proc κ) : κ := p.cursor
def Proc.prepare (p : Proc κ) (b : Barrier κ) : Run κ := ⟨p.cursor, b⟩

end Model.WiringPrim
