import DcVerif.Spec.Window
import DcVerif.Gen.Window
/-! Model for C07. The storages themselves — constructors, `push`, `rewind`, every accessor, the trait's default
methods and the dispatch over the storage kind — are **generated** from the Rust source
(`Gen/Window.lean`, written by `tools/rs2lean_window.py` on every check run; vocabulary in `Model/WindowPrim.lean`).
What is written by hand here is only how a test case uses them: construct, push a history, observe everything.

`Kind.vec` is `storage_vec.rs` as it is in the repository, `Kind.vecFixed` the same file with
`fixes/F1-window-vec.diff` applied (by the translator, in memory); `tsz` is `size_of::<T>()`, which the unsafe array
storage branches on. The theorems of `Props/C07.lean` show that under the hypotheses of the property neither `panic` nor
`ub` is reachable. -/
namespace Model.Window
export Gen.Window (Kind new push first last size empty filled slice vec arr)

variable {α : Type}

/-- a push history, oldest first -/
def run (k : Kind) (tsz : Nat) (w : St α) : List α → Out (St α)
  | [] => .ok w
  | x :: xs =>
    match push k tsz w x with
    | .ok w' => run k tsz w' xs
    | o => o

/-- construct, then push `xs`; `c` is CAPACITY for the array storages and `multiple` for the vector storages -/
def history (k : Kind) (tsz : Nat) (size c : Nat) (d : α) (xs : List α) : Out (St α) :=
  match new k size c d with
  | .ok w => run k tsz w xs
  | o => o

/-- everything observable through `SlidingWindow`, `arr` at width `size` -/
structure Obs (α : Type) where
  size : Out Nat
  empty : Out Bool
  filled : Out Bool
  first : Out α
  last : Out α
  slice : Out (List α)
  vec : Out (List α)
  arr : Out (List α)
deriving DecidableEq, Repr

def observe (k : Kind) (tsz : Nat) (w : St α) (d : α) : Obs α :=
  { size := size k tsz w, empty := empty k tsz w, filled := filled k tsz w, first := first k tsz w,
    last := last k tsz w, slice := slice k tsz w, vec := vec k tsz w, arr := arr k tsz w w.size d }

/-- the specification's answers in the model's vocabulary: `none` is `Err(_)` -/
def ofSpec {β : Type} : Option β → Out β
  | some b => .ok b
  | none => .err

def Obs.ofSpec (o : Spec.Window.Obs α) : Obs α :=
  { size := .ok o.size, empty := .ok o.empty, filled := .ok o.filled, first := Model.Window.ofSpec o.first,
    last := Model.Window.ofSpec o.last, slice := Model.Window.ofSpec o.slice, vec := Model.Window.ofSpec o.vec,
    arr := Model.Window.ofSpec o.arr }

end Model.Window
