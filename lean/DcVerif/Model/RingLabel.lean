import DcVerif.Model.Ring
import DcVerif.Gen.Orderings
/-!
What the next step of a model thread looks like from the outside (used by the trace replay of the driver; not used
by any theorem): the facade operation it performs — kind, location, value, memory ordering — or the logged action
(`handle`, `write`), or `none` for an internal step. Orderings come from `Gen.Orderings`, i.e. from the source.
-/
namespace Ring
open Gen.Orderings

inductive Loc
  | pcur | ccur (k j : Nat) | isDone | mtx | cv | hw | lw | bm (i : Nat)
deriving DecidableEq, Repr

def Loc.name : Loc → String
  | .pcur => "pcur" | .ccur k j => s!"c{k}.{j}" | .isDone => "isDone" | .mtx => "mtx" | .cv => "cv"
  | .hw => "hw" | .lw => "lw" | .bm i => s!"bm{i}"

structure Label where
  kind : String                 -- ld st ldb stb lock unlock cvwait relock notify handle write cas for fand
  loc  : Option Loc := none
  val  : Option Nat := none     -- value stored / sequence handled / sequence written
  ord  : String := ""
  obs  : Option Nat := none     -- value the model expects the operation to observe (loads)
  eob  : Bool := false
deriving Repr

/-- location of the d-th dependency of a stage-k consumer -/
def depLoc (k d : Nat) : Loc := if k = 0 then .pcur else .ccur (k-1) d

def consLabel (s : St) (k j : Nat) : Option Label :=
  let c := s.cons k j
  match c.pc with
  | .readOwn => some { kind := "ld", loc := some (.ccur k j), ord := seqGet.name, obs := some c.cur }
  | .bLock | .sLock => some { kind := "lock", loc := some .mtx }
  | .bAlert | .checkAlert => some { kind := "ldb", loc := some .isDone, ord := alertLoad.name, obs := some (if s.isDone then 1 else 0) }
  | .waitLoad =>
      if c.idx < ndeps s k then
        some { kind := "ld", loc := some (depLoc k c.idx), ord := seqGet.name, obs := some (dep s k c.idx) }
      else none
  | .checkAvail => none
  | .bUnlockGo | .bUnlockRetry | .bUnlockExit | .sUnlock => some { kind := "unlock", loc := some .mtx }
  | .bWait => some { kind := "cvwait", loc := some .cv }
  | .bRelock => some { kind := "relock", loc := some .mtx }
  | .handle => if c.i ≤ c.avail then some { kind := "handle", val := some c.i, eob := c.i == c.avail } else none
  | .publish => some { kind := "st", loc := some (.ccur k j), val := some c.avail, ord := seqSet.name }
  | .sNotify => some { kind := "notify", loc := some .cv }
  | .done => some { kind := "exit" }

def gateLoc (s : St) (d : Nat) : Loc := .ccur (s.K - 1) d

def prodLabel (x : PSt) : Option Label :=
  let p := x.p; let s := x.s
  match p.pc with
  | .start | .gateCheck | .drainInit | .drainCheck => none
  | .gateLoad | .drainLoad =>
      if p.idx < ngate s then
        some { kind := "ld", loc := some (gateLoc s p.idx), ord := seqGet.name, obs := some (gate s p.idx) }
      else none
  | .write => if p.w ≤ p.stop then some { kind := "write", val := some p.w } else none
  | .publish => some { kind := "st", loc := some .pcur, val := some p.stop, ord := seqSet.name }
  | .pLock | .dLock | .eLock | .fLock => some { kind := "lock", loc := some .mtx }
  | .pNotify | .dNotify | .eNotify | .fNotify => some { kind := "notify", loc := some .cv }
  | .pUnlock | .dUnlock | .eUnlock | .fUnlock => some { kind := "unlock", loc := some .mtx }
  | .setDone => some { kind := "stb", loc := some .isDone, val := some 1, ord := doneStoreDrain.name }
  | .dropDone => some { kind := "stb", loc := some .isDone, val := some 1, ord := doneStoreDrop.name }
  | .done => some { kind := "exit" }

def label (x : PSt) : Tid → Option Label
  | .prod => prodLabel x
  | .cons k j => consLabel x.s k j

/-- is the thread's next step enabled (a disabled step is a stutter in the model)? -/
def enabled (x : PSt) : Tid → Bool
  | .prod => match x.p.pc with
    | .pLock | .dLock | .eLock | .fLock => x.s.mtx.isNone
    | .done => false
    | _ => true
  | .cons k j => match (x.s.cons k j).pc with
    | .bLock | .sLock => x.s.mtx.isNone
    | .bRelock => x.s.woken k j && x.s.mtx.isNone
    | .done => false
    | _ => true

/-- run a thread through its internal steps until its next step is visible (bounded: a thread never has more than
a handful of consecutive internal steps) -/
def skipInternal (x : PSt) (t : Tid) : Nat → PSt
  | 0 => x
  | fuel + 1 => match label x t with
    | none => skipInternal (stepX x t) t fuel
    | some _ => x

/-- rebuild the function-indexed state from a table so that long replays do not accumulate closures -/
def compact (x : PSt) : PSt :=
  let ks := List.range x.s.K
  let table : List (List (Cons × Bool)) := ks.map fun k => (List.range (x.s.h k)).map fun j => (x.s.cons k j, x.s.woken k j)
  let hs : List Nat := ks.map x.s.h
  let arr := table.toArray.map (·.toArray)
  let harr := hs.toArray
  { x with s := { x.s with
      h := fun k => harr.getD k 0,
      cons := fun k j => ((arr.getD k #[]).getD j ({}, false)).1,
      woken := fun k j => ((arr.getD k #[]).getD j ({}, false)).2 } }

end Ring
