/-! Spec for C19: a bit map of capacity `c` is a set of residues modulo `c`, and a sequence number
tests as set exactly when the *last* call addressed to its residue class was a `set`. The spec state
is simply the history of calls (newest first). -/
namespace Spec.BitMap

inductive Op where
  | set (s : Nat)
  | unset (s : Nat)
deriving Repr, DecidableEq

def Op.seq : Op → Nat
  | .set s => s
  | .unset s => s

def Op.isSetOp : Op → Bool
  | .set _ => true
  | .unset _ => false

/-- `hist` is newest first. -/
def isSet (c : Nat) : (hist : List Op) → (s : Nat) → Bool
  | [], _ => false
  | op :: rest, s => if op.seq % c = s % c then op.isSetOp else isSet c rest s

end Spec.BitMap
