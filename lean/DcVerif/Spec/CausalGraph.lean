import DcVerif.Model.CausalGraph
import DcVerif.Spec.ShortestPathFW
/-! C01 / C10 in the simplest executable terms: "conjunction over the reachable set" and "conjunction along one
minimum-weight path". Reachability and minimality come from the proved Floyd–Warshall oracle (`FW.dist`); the routing of
observations is restated here independently of `Model.getObs`. The graph itself (nodes, weighted edges) is read from the
model state, whose construction ops are compared with the implementation one by one. core only. -/
namespace CausalSpec
open CausalGraph Dfs

/-- "the observation routed to it (by causaloid id, or through the supplied data index)" -/
def routed (id : Nat) (data : List Nat) : Option (List (Nat × Nat)) → Option Nat
  | none => data[id]?
  | some m => (m.find? fun kv => kv.1 == id).bind fun kv => data[kv.2]?

/-- verdict of the causaloid at index `v` on the observation routed to it (`none`: no such causaloid / no observation) -/
def verdictAt (g : CG) (data : List Nat) (idx : Option (List (Nat × Nat))) (v : Nat) : Option V :=
  (g.nodeMap.find? fun kv => kv.1 == v).bind fun kv => (routed kv.2.id data idx).map kv.2.fn.apply

/-- all-pairs table of the graph -/
def table (g : CG) : FW.Mat := FW.table (weight g) g.upper g.upper

/-- `v` is reachable from `s` (reflexive) -/
def reachable (tab : FW.Mat) (s v : Nat) : Bool := s == v || (tab.get s v).isSome

def reachSet (g : CG) (tab : FW.Mat) (s : Nat) : List Nat := (List.range g.upper).filter (reachable tab s)

/-- C01: is `r` a result the statement allows, given the verdicts of all reachable causaloids?
    all true → true; no error and some false → false; some error → error or false (never true);
    a reachable causaloid without observation → outside the statement (anything but `true`). -/
def allowed (verdicts : List (Option V)) (r : Res) : Bool :=
  if verdicts.all (· == some .t) then r == .ok true
  else if verdicts.all (fun x => x == some .t || x == some .f) then r == .ok false
  else if verdicts.all (·.isSome) then r == .err || r == .ok false
  else r != .ok true

/-- C01 side effects: nothing outside the reachable set is evaluated (its activation is unchanged), and after `true`
    every reachable causaloid is active -/
def flagsAllowed (reach : List Nat) (r : Res) (before after : List Bool) : Bool :=
  before.length == after.length &&
  (List.range before.length).all fun i =>
    if reach.contains i then (r != .ok true || after[i]? == some true) else before[i]? == after[i]?

/-! ### C10 -/

/-- the statement's error condition: empty graph, absent endpoint, start = stop, or stop unreachable -/
def spErr (g : CG) (tab : FW.Mat) (s t : Nat) : Bool :=
  g.upper == 0 || !(s < g.upper) || !(t < g.upper) || s == t || (tab.get s t).isNone

/-- `p` is a real path `s → t` of minimum weight -/
def isMinPath (g : CG) (tab : FW.Mat) (s t : Nat) (p : List Nat) : Bool :=
  match FW.checkPath (weight g) s t p with
  | some c => tab.get s t == some c
  | none => false

/-- what the driver accepts as answer of `get_shortest_path` (the tie-break is the implementation's choice) -/
def pathAccepted (g : CG) (tab : FW.Mat) (s t : Nat) : Option (List Nat) → Bool
  | none => (tab.get s t).isNone
  | some p => isMinPath g tab s t p

/-- the causaloids evaluated along `p`: up to and including the first one that is not true -/
def evalPrefix (ev : Nat → Option V) : List Nat → List Nat
  | [] => []
  | c :: cs => if ev c = some .t then c :: evalPrefix ev cs else [c]

/-- conjunction along `p`, stopping at the first non-true verdict (`none`: missing observation, outside the statement) -/
def conjAlong (ev : Nat → Option V) : List Nat → Option Res
  | [] => some (.ok true)
  | c :: cs =>
    match ev c with
    | some .t => conjAlong ev cs
    | some .f => some (.ok false)
    | some .e => some .err
    | none => none

end CausalSpec
