/-! Spec for C07: a sliding window of size `n` is a function of the push history `xs` (oldest first) alone.
Everything observable through `SlidingWindow` is stated here in terms of "the last `n` pushed values";
`none` stands for the `Err(_)` the accessors return while the window is not yet filled (resp. empty). -/
namespace Spec.Window

variable {α : Type}

/-- the last `n` values of `xs`, in push order (all of `xs` while it is shorter than `n`) -/
def lastN (n : Nat) (xs : List α) : List α := xs.drop (xs.length - n)

/-- `filled()` -/
def filled (n : Nat) (xs : List α) : Bool := decide (n ≤ xs.length)

/-- `empty()` -/
def empty (xs : List α) : Bool := xs.isEmpty

/-- `first()`: the oldest retained value; error only while nothing was pushed -/
def first (n : Nat) (xs : List α) : Option α := (lastN n xs).head?

/-- `last()`: the most recent value; error until the window is filled -/
def last (n : Nat) (xs : List α) : Option α := if n ≤ xs.length then xs.getLast? else none

/-- `slice()`, `vec()`, `arr::<n>()`: the last `n` values in push order; error until the window is filled -/
def view (n : Nat) (xs : List α) : Option (List α) := if n ≤ xs.length then some (lastN n xs) else none

/-- everything `SlidingWindow` lets a caller observe -/
structure Obs (α : Type) where
  size : Nat
  empty : Bool
  filled : Bool
  first : Option α
  last : Option α
  slice : Option (List α)
  vec : Option (List α)
  arr : Option (List α)
deriving DecidableEq, Repr

def observe (n : Nat) (xs : List α) : Obs α :=
  { size := n, empty := empty xs, filled := filled n xs, first := first n xs, last := last n xs,
    slice := view n xs, vec := view n xs, arr := view n xs }

end Spec.Window
