/-! Spec for C18 (and reused by C12): the counting laws of collection reasoning in the simplest terms.

* a *count* is the number of members satisfying a member predicate (`count`, by recursion on the collection);
* a *percentage* is `count / size` on a scale (`percent`, an exact rational; scale 100 for assumptions and
  inferences — "multiplied by 100" —, scale 1 for observations — "value between 0.0 and 1.0");
* an assumption is *tested* once it has been verified at least once, and *valid* once some verification
  returned `true` (`tested`, `valid` over the history of verdicts, oldest first). -/
namespace Spec.Reasoning

/-- number of members satisfying `p` -/
def count {ι : Type} (p : ι → Bool) : List ι → Nat
  | [] => 0
  | a :: r => (if p a then 1 else 0) + count p r

/-- `k` out of `n` on the scale `scale`, exactly -/
def percent (scale k n : Nat) : Rat := (k : Rat) / (n : Rat) * (scale : Rat)

/-- tested: verified at least once -/
def tested (verdicts : List Bool) : Bool := !verdicts.isEmpty
/-- valid: some verification returned `true` -/
def valid (verdicts : List Bool) : Bool := verdicts.any id

/-- IEEE-754 `totalOrder` on binary64 bit patterns, through the usual monotone key: negative patterns
(sign bit set) are reversed below all non-negative ones. `−NaN < −∞ < … < −0 < +0 < … < +∞ < +NaN`. -/
def totalKey (bits : Nat) : Nat := if bits < 2 ^ 63 then bits + 2 ^ 63 else 2 ^ 64 - 1 - bits

def totalCmp (a b : Nat) : Ordering := compare (totalKey a) (totalKey b)

end Spec.Reasoning
