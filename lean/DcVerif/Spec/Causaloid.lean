import DcVerif.Model.Causaloid
/-! Specification side of C02 / C11, in the simplest executable terms.

C02. What a nested model *contains*: the verdicts of all singleton causaloids it can reach (every item of a collection, every
node reachable from the root of a graph, recursively), each on the observation routed to it — no order, no short-circuit.
Structural faults (empty collection, missing root, empty data) count as an error "leaf", a failed observation lookup or a
wrapper in root position as a panic "leaf" (`none`). The verdict of the model has to be the conjunction of that list
(`Spec.Nest.conj`).

C11. The activation of a singleton after a history of evaluations is a function of the events that concern its cell:
`lastOutcome`. A wrapper is active iff one of its members is (`activeSpec`), aggregates are recounts (`recount`, `percent`). -/
namespace Spec.Nest
open Causal Dfs

/-- all descendants of `v` along `out` (with repetitions), paths of fewer than `k` edges — on an acyclic graph with at most
    `k` nodes that is everything reachable -/
def desc (out : Nat → List Nat) : Nat → Nat → List Nat
  | 0, _ => []
  | k+1, v => v :: (out v).flatMap (desc out k)

/-- a singleton contributes its own verdict on the observation routed to it, a wrapper everything it contains -/
def memberContained (mk : Nat → Nat) (c : Causaloid) (obs : Option Nat) (nested : List (Option V)) : List (Option V) :=
  match c with
  | .single _ _ fn => [obs.bind (fn.apply mk)]
  | _ => nested

mutual
/-- verdicts of everything `verify_all_causes(data, idx)` on this causaloid is about -/
def contained (mk : Nat → Nat) : Causaloid → List Nat → Idx → List (Option V)
  | .single .., _, _ => [some .e]
  | .coll _ items, data, _ => if items.isEmpty then [some .e] else containedItems mk items data 0
  | .graph _ nodes edges root, data, idx =>
    match root with
    | none => [some .e]
    | some r =>
      if data.isEmpty then [some .e]
      else if nodes.length ≤ r then [some .e]
      else ((nodes[r]?).bind (fun c => startVerdict mk c data idx)) ::
        ((outOf nodes.length edges r).flatMap (desc (outOf nodes.length edges) nodes.length)).flatMap
          (fun v => (containedNodes mk nodes data idx).getD v [])
/-- items of a collection: singleton `i` on `data[i]`, wrappers on the whole data without index -/
def containedItems (mk : Nat → Nat) : List Causaloid → List Nat → Nat → List (Option V)
  | [], _, _ => []
  | c :: cs, data, i => memberContained mk c data[i]? (contained mk c data none) ++ containedItems mk cs data (i + 1)
/-- per node of a graph (in child position): the observation for its id must exist; singleton on it, wrapper on everything -/
def containedNodes (mk : Nat → Nat) : List Causaloid → List Nat → Idx → List (List (Option V))
  | [], _, _ => []
  | c :: cs, data, idx =>
    (match getObs c.id data idx with
     | none => [none]
     | some o => memberContained mk c (some o) (contained mk c data idx)) :: containedNodes mk cs data idx
end

mutual
/-- every graph of the nesting tree is acyclic: some rank strictly decreases along every edge -/
def Acyclic : Causaloid → Prop
  | .single .. => True
  | .coll _ items => AcyclicL items
  | .graph _ nodes edges _ =>
    (∃ rank : Nat → Nat, (∀ a b, b ∈ outOf nodes.length edges a → rank b < rank a) ∧ ∀ a, rank a ≤ nodes.length) ∧
      AcyclicL nodes
def AcyclicL : List Causaloid → Prop
  | [] => True
  | c :: cs => Acyclic c ∧ AcyclicL cs
end

/-- the set of verdicts the conjunction of `L` admits:
    all true → exactly `t`; no error/panic and some false → exactly `f`; otherwise never `t` (and `panic` only if some leaf panics) -/
def conj (L : List (Option V)) (answer : Option V) : Bool :=
  if L.all (· == some .t) then answer == some .t
  else if L.all (fun l => l == some .t || l == some .f) then answer == some .f
  else if L.all (·.isSome) then answer == some .f || answer == some .e
  else answer != some .t

/-- the context a causal function reads -/
def fnCtxs : Fn → List Nat
  | .ctx (some k) => [k]
  | _ => []

mutual
/-- the contexts the singletons of a nesting tree were built with -/
def ctxsOf : Causaloid → List Nat
  | .single _ _ fn => fnCtxs fn
  | .coll _ items => ctxsOfL items
  | .graph _ nodes _ _ => ctxsOfL nodes
def ctxsOfL : List Causaloid → List Nat
  | [] => []
  | c :: cs => ctxsOf c ++ ctxsOfL cs
end

/-! ### C11 -/

mutual
/-- the activation cells of all singletons in a nesting tree -/
def leafCells : Causaloid → List Nat
  | .single cell _ _ => [cell]
  | .coll _ items => leafCellsL items
  | .graph _ nodes _ _ => leafCellsL nodes
def leafCellsL : List Causaloid → List Nat
  | [] => []
  | c :: cs => leafCells c ++ leafCellsL cs
end


/-- outcome of the most recent evaluation of `cell` that did not err (events oldest first) -/
def lastOutcome (cell : Nat) : List Event → Option Bool
  | [] => none
  | (c, v) :: rest =>
    match lastOutcome cell rest with
    | some b => some b
    | none => if c = cell then (match v with | .t => some true | .f => some false | .e => none) else none

mutual
/-- "a wrapper is active exactly when at least one contained causaloid is", over any activation of the singleton cells -/
def activeBy (leaf : Nat → Bool) : Causaloid → Bool
  | .single cell _ _ => leaf cell
  | .coll _ items => anyActive leaf items
  | .graph _ nodes _ _ => anyActive leaf nodes
def anyActive (leaf : Nat → Bool) : List Causaloid → Bool
  | [] => false
  | c :: cs => activeBy leaf c || anyActive leaf cs
end

/-- activation as the property states it, from the history of evaluation events alone -/
def activeSpec (hist : List Event) : Causaloid → Bool := activeBy (fun cell => lastOutcome cell hist == some true)

/-- recount over the members -/
def recount (hist : List Event) (members : List Causaloid) : Nat := (members.filter (activeSpec hist)).length

/-- `percent_active` as an exact rational (`0/0`: the code yields NaN; excluded in the theorems by `members ≠ []`) -/
def percent (hist : List Event) (members : List Causaloid) : Rat := (100 * recount hist members : Rat) / members.length

/-- the cells of the structure a call evaluates (an upper bound of what it may write) -/
def opCells : Op → List Nat
  | .single c _ => leafCells c
  | .all c _ _ => leafCells c
  | .coll items _ => leafCellsL items
  | .graph nodes _ _ _ _ => leafCellsL nodes

end Spec.Nest
