/-! Spec for C16: what the property says about `update` / `adjust` of an adjustable context node, in the
simplest executable terms. A node is its list of coordinates in canonical order

    data: [data]   time: [time]   space: [x, y, z]   space-time: [x, y, z, time]

`new` is the list of values the grid holds at the cells the node is supposed to read (`cells`, same order).
The property fixes the outcome only partly (e.g. it says nothing about a negative replacement x), so the
spec is a *judgement* on an answer (`allowed`), not a function:

* the answer is `ok` and the coordinates are exactly `new` (update) resp. `cur + new` (adjust), or it is
  `err` and the coordinates are exactly `cur`                                   (all-or-nothing)
* `mustFail`  ⇒ the answer is `err`;   `mustSucceed` ⇒ the answer is `ok`.

Values are mathematical integers; overflow of a concrete `T` is outside the property. -/
namespace Spec.Adjustable

inductive Kind where
  | data | time | space | spaceTime
deriving DecidableEq, Repr

inductive Op where
  | update | adjust
deriving DecidableEq, Repr

inductive Role where
  | data | time | spatial
deriving DecidableEq, Repr

def roles : Kind → List Role
  | .data => [.data]
  | .time => [.time]
  | .space => [.spatial, .spatial, .spatial]
  | .spaceTime => [.spatial, .spatial, .spatial, .time]

/-- the points `(x, y, z, t)` handed to `ArrayGrid::get`, one per coordinate: a 1-D point `0` for data and
time nodes, the 3-D points `(0,0,i)` for x, y, z of a space node, the 4-D points `(0,0,0,i)` for x, y, z, t of
a space-time node -/
def cells : Kind → List (Nat × Nat × Nat × Nat)
  | .data => [(0, 0, 0, 0)]
  | .time => [(0, 0, 0, 0)]
  | .space => [(0, 0, 0, 0), (0, 0, 1, 0), (0, 0, 2, 0)]
  | .spaceTime => [(0, 0, 0, 0), (0, 0, 0, 1), (0, 0, 0, 2), (0, 0, 0, 3)]

/-- the coordinates after a successful operation -/
def target (op : Op) (cur new : List Int) : List Int :=
  match op with
  | .update => new
  | .adjust => List.zipWith (· + ·) cur new

/-- a replacement value that the property declares inadmissible -/
def badReplacement : Role → Int → Bool
  | .data, v => v == 0
  | .spatial, v => v == 0
  | .time, v => v < 0

/-- "fails whenever a replacement spatial coordinate or data value is zero, a time is negative, or an
adjusted value would be negative" -/
def mustFail (k : Kind) (op : Op) (cur new : List Int) : Bool :=
  match op with
  | .update => (List.zipWith badReplacement (roles k) new).any id
  | .adjust => (target .adjust cur new).any (· < 0)

/-- "succeeds whenever all replacement values, or all deltas and all resulting values, are strictly positive" -/
def mustSucceed (op : Op) (cur new : List Int) : Bool :=
  match op with
  | .update => new.all (0 < ·)
  | .adjust => new.all (0 < ·) && (target .adjust cur new).all (0 < ·)

def allowed (k : Kind) (op : Op) (cur new : List Int) (ok : Bool) (res : List Int) : Bool :=
  (if ok then res == target op cur new else res == cur)
    && (!(mustFail k op cur new) || !ok)
    && (!(mustSucceed op cur new) || ok)

end Spec.Adjustable
