/-! Spec for C17: an array grid is a map from points to values, default `0`.

A point is the list of its coordinates in constructor order (`[x]`, `[x,y]`, `[x,y,z]`, `[x,y,z,t]`). The spec
state is the association list of the stores made so far, newest first; `read` returns the most recent value
stored at a point, the default if there is none. The property quantifies over points of the grid's own
dimension whose coordinates are all below the smallest extent (`inScope`), "so in bounds under any axis
convention"; `judge` is the oracle the correspondence run applies to the implementation's answers. -/
namespace Spec.Grid

abbrev Key := List Nat

inductive Op where
  | set (p : Key) (v : Int)
  | get (p : Key)
deriving DecidableEq, Repr

inductive Ans where
  | ok
  | val (v : Int)
  | panic
deriving DecidableEq, Repr

/-- newest first -/
def read : List (Key × Int) → Key → Int
  | [], _ => 0
  | (q, v) :: rest, p => if q = p then v else read rest p

/-- `dim` coordinates, each below every extent -/
def inScope (dim : Nat) (exts : List Nat) (p : Key) : Bool :=
  p.length == dim && p.all (fun c => exts.all (fun n => decide (c < n)))

structure St where
  hist : List (Key × Int) := []
  /-- a store through a point of another dimension happened: the property says nothing from here on -/
  tainted : Bool := false

/-- Judge one answer of an implementation; returns (accepted, next state).
* a store at a point in scope must answer `ok`;
* a store at a point of the grid's dimension that is *not* in scope may panic (nothing stored) or succeed;
* a read at a point in scope must return the most recent value stored at that very point, else the default;
* reads elsewhere are not judged; a store through a point of another dimension ends the judging. -/
def judge (dim : Nat) (exts : List Nat) (st : St) : Op → Ans → Bool × St
  | .set p v, a =>
    if st.tainted then (true, st)
    else if inScope dim exts p then (a == .ok, { st with hist := (p, v) :: st.hist })
    else if p.length == dim then
      match a with
      | .ok => (true, { st with hist := (p, v) :: st.hist })
      | .panic => (true, st)
      | .val _ => (false, st)
    else (true, { st with tainted := true })
  | .get p, a =>
    if !st.tainted && inScope dim exts p then (a == .val (read st.hist p), st) else (true, st)

/-- every answer of a run is accepted -/
def accepted (dim : Nat) (exts : List Nat) : St → List (Op × Ans) → Bool
  | _, [] => true
  | st, (op, a) :: rest => (judge dim exts st op a).1 && accepted dim exts (judge dim exts st op a).2 rest

end Spec.Grid
