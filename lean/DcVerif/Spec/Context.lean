import DcVerif.Spec.DiGraph
/-! Spec for C09: a context is a *base* directed-graph store of contextoids, a family of *extra* stores addressed
by ids `1, 2, …` (in order of creation) of which at most one is selected (`current`, `0` = none), and two
independent key ↦ index maps. Every operation addresses exactly one of these components:

* base operations act on `base` exactly as the corresponding `Spec.DiGraph` operation and on nothing else,
* extra operations act on the selected extra store and on nothing else; with no selection they fail
  (`err`, resp. `false` for the two `contains` queries) and change nothing,
* `extra_ctx_set_current_id k` is refused iff `k` exceeds the number of extra contexts (`0` is accepted and
  deselects — the code's `extra_ctx_check_exists(0)` holds),
* `set_index`/`get_index` are two plain maps: a lookup returns the index most recently set for that key in that map.

Contextoids are represented by their id, relation kinds by their discriminant. Executable: used as the oracle. -/
namespace Spec.Context
open Spec Spec.DiGraph

inductive Op where
  -- ContextuableGraph (base context)
  | addNode (v : Nat) | containsNode (i : Nat) | getNode (i : Nat) | removeNode (i : Nat)
  | addEdge (a b w : Nat) | containsEdge (a b : Nat) | removeEdge (a b : Nat)
  | size | isEmpty | nodeCount | edgeCount
  -- ExtendableContextuableGraph: management
  | xAddNew (default : Bool) | xCheckExists (k : Nat) | xGetCurrent | xSetCurrent (k : Nat) | xUnset
  -- ExtendableContextuableGraph: the selected extra context
  | xAddNode (v : Nat) | xContainsNode (i : Nat) | xGetNode (i : Nat) | xRemoveNode (i : Nat)
  | xAddEdge (a b w : Nat) | xContainsEdge (a b : Nat) | xRemoveEdge (a b : Nat)
  | xSize | xIsEmpty | xNodeCount | xEdgeCount
  -- Indexable
  | getIndex (key : Nat) (cur : Bool) | setIndex (key idx : Nat) (cur : Bool)
deriving DecidableEq, Repr

inductive Target | base | extra
deriving DecidableEq, Repr

/-- which store an operation addresses, and as which directed-graph operation -/
def Op.graphOp : Op → Option (Target × DiGraph.Op)
  | .addNode v => some (.base, .addNode v)
  | .containsNode i => some (.base, .containsNode i)
  | .getNode i => some (.base, .getNode i)
  | .removeNode i => some (.base, .removeNode i)
  | .addEdge a b w => some (.base, .addEdgeW a b w)
  | .containsEdge a b => some (.base, .containsEdge a b)
  | .removeEdge a b => some (.base, .removeEdge a b)
  | .size => some (.base, .size)
  | .isEmpty => some (.base, .isEmpty)
  | .nodeCount => some (.base, .numNodes)
  | .edgeCount => some (.base, .numEdges)
  | .xAddNode v => some (.extra, .addNode v)
  | .xContainsNode i => some (.extra, .containsNode i)
  | .xGetNode i => some (.extra, .getNode i)
  | .xRemoveNode i => some (.extra, .removeNode i)
  | .xAddEdge a b w => some (.extra, .addEdgeW a b w)
  | .xContainsEdge a b => some (.extra, .containsEdge a b)
  | .xRemoveEdge a b => some (.extra, .removeEdge a b)
  | .xSize => some (.extra, .size)
  | .xIsEmpty => some (.extra, .isEmpty)
  | .xNodeCount => some (.extra, .numNodes)
  | .xEdgeCount => some (.extra, .numEdges)
  | _ => none

/-- an extra-context answer is a `Result`: a missing node is an error -/
def wrapX (gop : DiGraph.Op) (o : Out) : Out :=
  match gop, o with
  | .getNode _, .optNat none => .err
  | _, o => o

/-- the answer of an extra-context operation when no extra context is selected -/
def noSel : DiGraph.Op → Out
  | .containsNode _ | .containsEdge _ _ => .bool false
  | _ => .err

/-- a plain map as association list -/
def get (m : List (Nat × Nat)) (k : Nat) : Option Nat := (m.find? (fun e => e.1 == k)).map (·.2)
def put (m : List (Nat × Nat)) (k v : Nat) : List (Nat × Nat) := (k, v) :: m.filter (fun e => e.1 != k)

end Spec.Context

/-- the state of the specification -/
structure Spec.Context where
  base : Spec.DiGraph := {}
  extras : List (Nat × Spec.DiGraph) := []     -- extra contexts by id
  current : Nat := 0                            -- selected extra context, 0 = none
  cur : List (Nat × Nat) := []                  -- current index map
  prev : List (Nat × Nat) := []                 -- previous index map
deriving DecidableEq, Repr

namespace Spec.Context
open Spec Spec.DiGraph

/-- the selected extra store -/
def selected (s : Context) : Option DiGraph :=
  if s.current == 0 then none else (s.extras.find? (fun e => e.1 == s.current)).map (·.2)

def putSelected (s : Context) (e : DiGraph) : Context :=
  { s with extras := s.extras.map (fun x => if x.1 == s.current then (x.1, e) else x) }

/-- management and index operations are deterministic -/
def mgmt (s : Context) : Op → Context × Out
  | .xAddNew d =>
    let n := s.extras.length + 1
    ({ s with extras := (n, {}) :: s.extras, current := if d then n else s.current }, .nat n)
  | .xCheckExists k => (s, .bool (decide (k ≤ s.extras.length)))
  | .xGetCurrent => (s, .nat s.current)
  | .xSetCurrent k => if k ≤ s.extras.length then ({ s with current := k }, .ok) else (s, .err)
  | .xUnset => ({ s with current := 0 }, .ok)
  | .getIndex key c => (s, .optNat (if c then get s.cur key else get s.prev key))
  | .setIndex key idx c => (if c then { s with cur := put s.cur key idx } else { s with prev := put s.prev key idx }, .ok)
  | _ => (s, .panic)

/-- every operation except the two `add`s is deterministic: the addressed store answers as a directed-graph
store (`Spec.DiGraph.det`) and is the only thing that changes -/
def det (s : Context) (op : Op) : Context × Out :=
  match op.graphOp with
  | some (.base, gop) => ({ s with base := (s.base.det gop).1 }, (s.base.det gop).2)
  | some (.extra, gop) =>
    (match s.selected with
     | none => (s, noSel gop)
     | some e => (s.putSelected (e.det gop).1, wrapX gop (e.det gop).2))
  | none => s.mgmt op

/-- one step, judging the output an implementation produced (`none` = not allowed); an `add` into a store may
return any index that is not live in that store -/
def step (s : Context) (op : Op) (out : Out) : Option Context :=
  match op, out with
  | .addNode v, out => (DiGraph.step s.base (.addNode v) out).map (fun b => { s with base := b })
  | .xAddNode v, out =>
    (match s.selected with
     | none => if out = .err then some s else none
     | some e => (DiGraph.step e (.addNode v) out).map s.putSelected)
  | op, out => if (s.det op).2 = out then some (s.det op).1 else none

def run (s : Context) : List (Op × Out) → Option Context
  | [] => some s
  | (op, out) :: rest => match step s op out with
    | none => none
    | some s' => run s' rest

end Spec.Context
