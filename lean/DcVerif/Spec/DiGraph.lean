/-! Spec for C08 (shared by C09, C15): a plain directed graph store.

State: the live nodes with their values (`nodes`, an association list index ↦ value), the list of weighted
edges (`edges`) and an optional root index. Nothing else — no id allocator, no second map, no counters.
Every operation of the `UltraGraph` API is an `Op`; the spec is *executable* and is used as the oracle that
judges what the real implementation printed (`step`): it is nondeterministic only in the index an `add`
returns, which may be **any index that is not live**; that choice is read off the output. -/
namespace Spec.DiGraph

/-- insertion sort (structurally recursive, so that closed instances evaluate in the kernel) -/
def insertBy {α : Type} (le : α → α → Bool) (a : α) : List α → List α
  | [] => [a]
  | b :: l => if le a b then a :: b :: l else b :: insertBy le a l
def isort {α : Type} (le : α → α → Bool) (l : List α) : List α := l.foldr (insertBy le) []

/-- canonical orders used wherever the implementation iterates a hash map -/
def sortNat (l : List Nat) : List Nat := isort (fun a b => decide (a ≤ b)) l
def pairLe (a b : Nat × Nat) : Bool := decide (a.1 < b.1) || (a.1 == b.1 && decide (a.2 ≤ b.2))
def sortPairs (l : List (Nat × Nat)) : List (Nat × Nat) := isort pairLe l

/-- (from, to, weight) -/
abbrev Edge := Nat × Nat × Nat

/-- the public API of `UltraGraph<u64>` (GraphLike, GraphRoot, GraphStorage, GraphAlgorithms::outgoing_edges) -/
inductive Op where
  | addNode (v : Nat) | addRoot (v : Nat) | removeNode (i : Nat)
  | addEdge (a b : Nat) | addEdgeW (a b w : Nat) | removeEdge (a b : Nat) | clear
  | containsNode (i : Nat) | getNode (i : Nat) | containsEdge (a b : Nat)
  | size | isEmpty | numNodes | numEdges | allNodes | allEdges | outgoing (a : Nat)
  | containsRoot | getRootNode | getRootIndex | getLastIndex
deriving DecidableEq, Repr

inductive Out where
  | idx (i : Nat) | ok | err | bool (b : Bool) | nat (n : Nat) | optNat (o : Option Nat)
  | nats (l : List Nat) | pairs (l : List (Nat × Nat)) | panic
deriving DecidableEq, Repr

def Op.isMutator : Op → Bool
  | .addNode _ | .addRoot _ | .removeNode _ | .addEdge _ _ | .addEdgeW _ _ _ | .removeEdge _ _ | .clear => true
  | _ => false

end Spec.DiGraph

/-- the state of the specification -/
structure Spec.DiGraph where
  nodes : List (Nat × Nat) := []          -- live nodes (index, value)
  edges : List Spec.DiGraph.Edge := []    -- (from, to, weight)
  root : Option Nat := none
deriving DecidableEq, Repr

namespace Spec.DiGraph

def empty : DiGraph := {}

def live (s : DiGraph) (i : Nat) : Bool := s.nodes.any (fun e => e.1 == i)
def value (s : DiGraph) (i : Nat) : Option Nat := (s.nodes.find? (fun e => e.1 == i)).map (·.2)
def hasEdge (s : DiGraph) (a b : Nat) : Bool := s.edges.any (fun e => e.1 == a && e.2.1 == b)
/-- targets of the edges leaving `a`, ascending -/
def outgoing (s : DiGraph) (a : Nat) : List Nat := sortNat ((s.edges.filter (fun e => e.1 == a)).map (·.2.1))

/-- adding an edge: both ends live, no such edge yet -/
def addEdge (s : DiGraph) (a b w : Nat) : DiGraph × Out :=
  if s.live a && s.live b && !s.hasEdge a b then ({ s with edges := s.edges ++ [(a, b, w)] }, .ok)
  else (s, .err)

/-- every operation except the two `add`s is deterministic -/
def det (s : DiGraph) : Op → DiGraph × Out
  | .addNode _ | .addRoot _ => (s, .panic)   -- not used: see `step`
  | .removeNode i =>
    if s.live i then
      ({ s with nodes := s.nodes.filter (fun e => e.1 != i),
                edges := s.edges.filter (fun e => e.1 != i && e.2.1 != i) }, .ok)
    else (s, .err)
  | .addEdge a b => addEdge s a b 0
  | .addEdgeW a b w => addEdge s a b w
  | .removeEdge a b =>
    if s.hasEdge a b then ({ s with edges := s.edges.filter (fun e => !(e.1 == a && e.2.1 == b)) }, .ok)
    else (s, .err)
  | .clear => (empty, .ok)
  | .containsNode i => (s, .bool (s.live i))
  | .getNode i => (s, .optNat (s.value i))
  | .containsEdge a b => (s, .bool (s.hasEdge a b))
  | .size => (s, .nat s.nodes.length)
  | .isEmpty => (s, .bool (s.nodes.length == 0))
  | .numNodes => (s, .nat s.nodes.length)
  | .numEdges => (s, .nat s.edges.length)
  | .allNodes => (s, .nats (sortNat (s.nodes.map (·.2))))
  | .allEdges => (s, .pairs (sortPairs (s.edges.map (fun e => (e.1, e.2.1)))))
  | .outgoing a => if s.live a then (s, .nats (s.outgoing a)) else (s, .err)
  | .containsRoot => (s, .bool s.root.isSome)
  | .getRootNode => (s, .optNat (s.root.bind s.value))
  | .getRootIndex => (s, .optNat s.root)
  -- `get_last_index` answers the number of nodes (sic), an error on the empty graph
  | .getLastIndex => if s.nodes.length == 0 then (s, .err) else (s, .nat s.nodes.length)

/-- One step of the specification, judging the output `out` an implementation produced:
`none` = the spec does not allow this output; `some s'` = allowed, next state `s'`. An `add` may return any
index that is not live. The root is the index returned by the latest `add_root_node` since the last `clear`
(it is *not* reset when that node is removed — `get_root_node` then answers whatever is live at that index). -/
def step (s : DiGraph) (op : Op) (out : Out) : Option DiGraph :=
  match op, out with
  | .addNode v, .idx i => if s.live i then none else some { s with nodes := (i, v) :: s.nodes }
  | .addRoot v, .idx i => if s.live i then none else some { s with nodes := (i, v) :: s.nodes, root := some i }
  | .addNode _, _ => none
  | .addRoot _, _ => none
  | op, out => if (s.det op).2 = out then some (s.det op).1 else none

/-- a whole history with the outputs observed: `some` final state iff every output was allowed -/
def run (s : DiGraph) : List (Op × Out) → Option DiGraph
  | [] => some s
  | (op, out) :: rest => match step s op out with
    | none => none
    | some s' => run s' rest

/-- well-formedness of a spec state: indices distinct, edges between live nodes, at most one per ordered pair -/
structure WF (s : DiGraph) : Prop where
  nodup : (s.nodes.map (·.1)).Nodup
  edgesLive : ∀ e ∈ s.edges, s.live e.1 = true ∧ s.live e.2.1 = true
  edgesNodup : (s.edges.map (fun e => (e.1, e.2.1))).Nodup

end Spec.DiGraph
