/-! Floyd–Warshall distances over `Option Nat` — the proved oracle for "minimum weight of a walk" (C10; C01 uses it for
reachability). `fw` is the specification (structural recursion on the bound of the intermediates, hence total, but
exponential when executed); `table` is the same function tabulated (cubic), proved equal in `Lemmas/ShortestPathFW.lean`.
core only. -/
namespace FW

abbrev Wt := Nat → Nat → Option Nat   -- edge weights; `none` = no edge

/-- a walk `u → … → v` (at least one edge) with the list of its *intermediate* vertices and its total weight -/
inductive Walk (w : Wt) : Nat → Nat → List Nat → Nat → Prop
  | edge {u v c} : w u v = some c → Walk w u v [] c
  | cons {u x v c c' is} : w u x = some c → Walk w x v is c' → Walk w u v (x :: is) (c + c')

def omin : Option Nat → Option Nat → Option Nat
  | none, b => b
  | a, none => a
  | some a, some b => some (min a b)

def oadd : Option Nat → Option Nat → Option Nat
  | some a, some b => some (a + b)
  | _, _ => none

/-- `fw k u v` = least weight of a walk from `u` to `v` all of whose intermediates are `< k` -/
def fw (w : Wt) : Nat → Nat → Nat → Option Nat
  | 0, u, v => w u v
  | k+1, u, v => omin (fw w k u v) (oadd (fw w k u k) (fw w k k v))

/-! ### tabulated version (what the driver executes) -/

abbrev Mat := Array (Array (Option Nat))

def Mat.get (m : Mat) (u v : Nat) : Option Nat :=
  match m[u]? with
  | some row => (row[v]?).getD none
  | none => none

def Mat.mk (n : Nat) (f : Nat → Nat → Option Nat) : Mat :=
  Array.ofFn (n := n) fun u => Array.ofFn (n := n) fun v => f u.val v.val

/-- `table w n k` holds `fw w k u v` for all `u, v < n` -/
def table (w : Wt) (n : Nat) : Nat → Mat
  | 0 => Mat.mk n w
  | k+1 =>
    let m := table w n k
    Mat.mk n fun u v => omin (m.get u v) (oadd (m.get u k) (m.get k v))

/-- least weight of a walk `u → v` (at least one edge) in a graph whose vertices are all `< n` -/
def dist (w : Wt) (n u v : Nat) : Option Nat := (table w n n).get u v

/-- validates a vertex list `p = [s, …, t]` (at least one edge) edge by edge and returns its weight -/
def pathWeight (w : Wt) : List Nat → Option Nat
  | [] => none
  | [_] => none
  | [a, b] => w a b
  | a :: b :: rest => oadd (w a b) (pathWeight w (b :: rest))

def checkPath (w : Wt) (s t : Nat) (p : List Nat) : Option Nat :=
  if p.head? = some s ∧ p.getLast? = some t then pathWeight w p else none

end FW
