import DcVerif.Spec.DiGraph
/-! Spec / oracle for C15 (and C10): shortest paths in a `Spec.DiGraph`.

* `Path s a b p c` — `p` is a real path of the graph: a node sequence that starts at `a`, ends at `b`, follows only
  existing edges in their direction, with total weight `c` (`[a]` is the trivial path from `a` to `a`).
* `fw` — Floyd–Warshall distances by structural recursion (total, no fuel); `fwMat` the same values tabulated
  level by level (what the driver executes); `minDist`.
* `checkPath` — validates a node sequence edge by edge and returns its weight.
* `judge` — the oracle applied to what the implementation's `shortest_path` returned.
Correctness of all of these is proved in `Lemmas/ShortestPath.lean` / `Props/C15.lean`. -/
namespace Spec.ShortestPath
open Spec Spec.DiGraph

/-- edge weights; `none` = no edge -/
abbrev Wt := Nat → Nat → Option Nat

/-- weight of the edge `a → b` of the graph -/
def weights (s : DiGraph) : Wt :=
  fun a b => (s.edges.find? (fun e => e.1 == a && e.2.1 == b)).map (·.2.2)

/-- a real path of the graph, with its node sequence (both end points included) and its total weight -/
inductive Path (s : DiGraph) : Nat → Nat → List Nat → Nat → Prop
  | single (a : Nat) : Path s a a [a] 0
  | cons {u v b : Nat} {p : List Nat} {c c' : Nat} :
      (u, v, c) ∈ s.edges → Path s v b p c' → Path s u b (u :: p) (c + c')

/-- a walk `u → … → v` with at least one edge, the list of its *intermediate* vertices and its total weight -/
inductive Walk (w : Wt) : Nat → Nat → List Nat → Nat → Prop
  | edge {u v c} : w u v = some c → Walk w u v [] c
  | cons {u x v c c' is} : w u x = some c → Walk w x v is c' → Walk w u v (x :: is) (c + c')

def omin : Option Nat → Option Nat → Option Nat
  | none, b => b
  | a, none => a
  | some a, some b => some (min a b)

def oadd : Option Nat → Option Nat → Option Nat
  | some a, some b => some (a + b)
  | _, _ => none

/-- `fw k u v` = least weight of a walk from `u` to `v` all of whose intermediates are `< k` -/
def fw (w : Wt) : Nat → Nat → Nat → Option Nat
  | 0, u, v => w u v
  | k+1, u, v => omin (fw w k u v) (oadd (fw w k u k) (fw w k k v))

/-! ### the same values as a table (what is executed) -/
abbrev Mat := Array (Array (Option Nat))

def table (n : Nat) (f : Nat → Nat → Option Nat) : Mat :=
  Array.ofFn (n := n) fun u => Array.ofFn (n := n) fun v => f u.1 v.1

def Mat.get (d : Mat) (u v : Nat) : Option Nat :=
  match d[u]? with
  | some row => match row[v]? with
    | some x => x
    | none => none
  | none => none

def fwMat (w : Wt) (n : Nat) : Nat → Mat
  | 0 => table n w
  | k+1 =>
    let d := fwMat w n k
    table n (fun u v => omin (d.get u v) (oadd (d.get u k) (d.get k v)))

/-- every live index is below `bound` -/
def bound (s : DiGraph) : Nat := s.nodes.foldr (fun e m => max (e.1 + 1) m) 0

/-- all-pairs distances of the graph -/
def distMat (s : DiGraph) : Mat := fwMat (weights s) (bound s) (bound s)

def minDistWith (d : Mat) (a b : Nat) : Option Nat := if a = b then some 0 else d.get a b

/-- least total weight of a path from `a` to `b` (`none`: unreachable) -/
def minDist (s : DiGraph) (a b : Nat) : Option Nat := minDistWith (distMat s) a b

/-- weight of a node sequence along existing edges (`none`: empty, or some step is not an edge) -/
def pathWeight (w : Wt) : List Nat → Option Nat
  | [] => none
  | [_] => some 0
  | u :: v :: rest => oadd (w u v) (pathWeight w (v :: rest))

/-- validates an implementation path edge by edge: starts at `a`, ends at `b`, every step an edge -/
def checkPath (s : DiGraph) (a b : Nat) (p : List Nat) : Option Nat :=
  if p.head? = some a ∧ p.getLast? = some b then pathWeight (weights s) p else none

/-- the oracle, given the distance table: `none` is accepted iff an end point is absent or the target is
unreachable; `some p` iff both end points are live and `p` is a path from `a` to `b` of minimum weight -/
def judgeWith (d : Mat) (s : DiGraph) (a b : Nat) : Option (List Nat) → Bool
  | none => !(s.live a && s.live b) || (minDistWith d a b).isNone
  | some p => s.live a && s.live b &&
      (match checkPath s a b p with
       | some c => minDistWith d a b == some c
       | none => false)

def judge (s : DiGraph) (a b : Nat) (r : Option (List Nat)) : Bool := judgeWith (distMat s) s a b r

end Spec.ShortestPath
