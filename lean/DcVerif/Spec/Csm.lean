/-! Spec for C03: the table of a causal state machine is a *map* `id ↦ (state, action)` (a plain function
`Nat → Option (σ × α)`), and evaluating a registered pair evaluates the state's causaloid once and fires
the pair's action exactly once iff the verdict is `true`; nothing else happens.

Everything is parametric in the types of state references `σ`, action references `α` and data values `δ`,
and in an *environment* that says, at the moment of the call, what every causaloid answers on every data
value and which actions fail — so a history of calls, each with its own environment, covers every pattern of
failing causal functions / failing actions. -/
namespace Spec.Csm

/-- `Result<bool, CausalityError>` of a causaloid evaluation -/
inductive Verdict where
  | okTrue | okFalse | err
deriving DecidableEq, Repr

/-- the world at the moment of an evaluation call -/
structure Env (σ α δ : Type) where
  /-- what the state's causaloid answers on a data value (`CausalState::eval_with_data`) -/
  eval : σ → δ → Verdict
  /-- the data stored in the state (`CausalState::data`, used by `eval`) -/
  stored : σ → δ
  /-- `true` = the action function returns `Ok(())` -/
  fire : α → Bool

/-- observable effects: a causaloid was evaluated on a data value / an action function was invoked -/
inductive Ev (σ α δ : Type) where
  | call (s : σ) (d : δ)
  | fire (a : α)
deriving DecidableEq, Repr

/-- outcome of one CSM call: `Ok`/`Err` and the effects, in the order they happened -/
structure Out (σ α δ : Type) where
  ok : Bool
  log : List (Ev σ α δ)
deriving DecidableEq, Repr

variable {σ α δ : Type}

def Ev.fired? : Ev σ α δ → Option α
  | .fire a => some a
  | .call _ _ => none

def Ev.called? : Ev σ α δ → Option (σ × δ)
  | .fire _ => none
  | .call s d => some (s, d)

/-- the actions invoked, in order (with multiplicity) -/
def Out.fired (o : Out σ α δ) : List α := o.log.filterMap Ev.fired?
/-- the causaloid evaluations made, in order -/
def Out.calls (o : Out σ α δ) : List (σ × δ) := o.log.filterMap Ev.called?

def Out.done : Out σ α δ := ⟨true, []⟩
def Out.fail : Out σ α δ := ⟨false, []⟩

/-! ## the table as a map -/

abbrev Map (σ α : Type) := Nat → Option (σ × α)

def Map.empty : Map σ α := fun _ => none
def Map.set (m : Map σ α) (k : Nat) (v : σ × α) : Map σ α := fun j => if j = k then some v else m j
def Map.unset (m : Map σ α) (k : Nat) : Map σ α := fun j => if j = k then none else m j

/-- `CSM::new` / `update_all_states`: every pair is registered under its state's own id, later pairs win -/
def Map.ofSlice (key : σ → Nat) (l : List (σ × α)) : Map σ α :=
  l.foldl (fun m sa => m.set (key sa.1) sa) Map.empty

/-! ## evaluating one pair, and a sequence of pairs -/

/-- the causaloid is evaluated once on `d`; the action is invoked exactly once iff the verdict is `true`;
the call fails iff the evaluation failed or the invoked action failed -/
def evalPair (env : Env σ α δ) (sa : σ × α) (d : δ) : Out σ α δ :=
  match env.eval sa.1 d with
  | .okTrue => ⟨env.fire sa.2, [.call sa.1 d, .fire sa.2]⟩
  | .okFalse => ⟨true, [.call sa.1 d]⟩
  | .err => ⟨false, [.call sa.1 d]⟩

/-- the state's verdict on its stored data is `true` -/
def triggered (env : Env σ α δ) (sa : σ × α) : Bool := env.eval sa.1 (env.stored sa.1) == .okTrue
/-- evaluating the pair on its stored data succeeds -/
def healthy (env : Env σ α δ) (sa : σ × α) : Bool := (evalPair env sa (env.stored sa.1)).ok

def logOf (env : Env σ α δ) (pairs : List (σ × α)) : List (Ev σ α δ) :=
  pairs.flatMap (fun sa => (evalPair env sa (env.stored sa.1)).log)

/-- `eval_all_states` over the pairs in visiting order, stated without a loop: all pairs are evaluated when
all are healthy; otherwise exactly the healthy prefix and the first unhealthy pair are. -/
def evalAll (env : Env σ α δ) (pairs : List (σ × α)) : Out σ α δ :=
  match pairs.dropWhile (healthy env) with
  | [] => ⟨true, logOf env pairs⟩
  | bad :: _ => ⟨false, logOf env (pairs.takeWhile (healthy env) ++ [bad])⟩

/-! ## operations -/

inductive Op (σ α δ : Type) where
  /-- `CSM::new(slice)`: a fresh machine -/
  | new (l : List (σ × α))
  | add (k : Nat) (s : σ) (a : α)
  | remove (k : Nat)
  | update (k : Nat) (s : σ) (a : α)
  | evalSingle (env : Env σ α δ) (k : Nat) (d : δ)
  /-- `order`: the order in which the hash map happened to enumerate the ids -/
  | evalAll (env : Env σ α δ) (order : List Nat)
  | updateAll (l : List (σ × α))

/-- one call on the map. Failing table operations change nothing and have no effects. -/
def step (key : σ → Nat) (m : Map σ α) : Op σ α δ → Map σ α × Out σ α δ
  | .new l => (Map.ofSlice key l, .done)
  | .updateAll l => (Map.ofSlice key l, .done)
  | .add k s a => if (m k).isSome then (m, .fail) else (m.set k (s, a), .done)
  | .remove k => if (m k).isNone then (m, .fail) else (m.unset k, .done)
  | .update k s a => if (m k).isNone then (m, .fail) else (m.set k (s, a), .done)
  | .evalSingle env k d =>
    (m, match m k with
        | none => .fail
        | some sa => evalPair env sa d)
  | .evalAll env order => (m, evalAll env (order.filterMap m))

/-- a history, oldest call first; returns the final map and every call's outcome -/
def run (key : σ → Nat) (m : Map σ α) : List (Op σ α δ) → Map σ α × List (Out σ α δ)
  | [] => (m, [])
  | op :: rest =>
    let r := step key m op
    let rr := run key r.1 rest
    (rr.1, r.2 :: rr.2)

/-- remove repetitions (keeps the last occurrence) -/
def dedup : List Nat → List Nat
  | [] => []
  | a :: r => if a ∈ r then dedup r else a :: dedup r

/-- the ids among `cands` that are registered, without repetition -/
def domain (m : Map σ α) (cands : List Nat) : List Nat := (dedup cands).filter (fun k => (m k).isSome)

/-- `order` is an admissible enumeration by the hash map: duplicate-free, registered ids only, and all of
them when the call went through every state -/
def validOrder (m : Map σ α) (cands : List Nat) (order : List Nat) (complete : Bool) : Bool :=
  order.all (fun k => (m k).isSome) && decide order.Nodup &&
  (!complete || (domain m cands).all (fun k => order.contains k))

end Spec.Csm
