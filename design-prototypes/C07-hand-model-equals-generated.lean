-- Not part of any check. One-off comparison made when C07 was re-based on the generated definitions (Gen/Window.lean):
-- the hand-written model that Model/Window.lean used to contain (commit 69ce97b), namespace `Old`, equals the generated
-- functions for ALL inputs (d_new_*, d_push_*, d_first, d_last, d_filled, d_getSlice, d_slice, d_arr). No deviation was found.
-- Check with: cd lean && lake env lean ../design-prototypes/C07-hand-model-equals-generated.lean
import DcVerif.Model.Window
/-! Model for C07: the four storages behind `SlidingWindow`
(`dcl_data_structures/src/window_type/{mod,storage}.rs`, `storage_safe/{storage_array,storage_vec}.rs`,
`storage_unsafe/{unsafe_storage_array,unsafe_storage_vec}.rs`), transcribed function by function.

Conventions
* the over-allocated buffer is a `List α` of length `cap`; `head`/`tail` are the window bounds inside it;
* `copy_within(s..s+len, 0)`, `ptr::copy` and `ptr::copy_nonoverlapping` towards the front are `copyFront`
  (memmove); the unsafe array copies in 16-byte chunks front to back with destination below source, which moves the
  same bytes as one memmove, so the element type does not appear in the model;
* every indexing of safe code is bounds-checked (`panic`), every `-` on a `usize` is overflow-checked (`panic`; the
  harness is built with overflow checks), `saturating_sub` is truncated subtraction;
* every unchecked operation (`get_unchecked[_mut]`, `unchecked_sub`, `from_raw_parts`, `copy_nonoverlapping`) whose
  precondition is violated yields `ub`.
The theorems of `Props/C07.lean` show that under the hypotheses of the property neither `panic` nor `ub` is reachable. -/
namespace Old
open Model.Window (Out St)

variable {α : Type}

/-- which storage -/
inductive Kind where
  | arr | vec | uarr | uvec | vecFixed
deriving DecidableEq, Repr

/-- memmove of `len` elements from index `s` to the front -/
def copyFront (buf : List α) (s len : Nat) : List α :=
  let seg := (buf.drop s).take len
  seg ++ buf.drop seg.length

def init (size cap : Nat) (d : α) : St α :=
  { buf := List.replicate cap d, size := size, cap := cap, head := 0, tail := 0 }

/-- the constructors: `c` is CAPACITY for the array storages and `multiple` for the vector storages -/
def new (k : Kind) (size c : Nat) (d : α) : Out (St α) :=
  match k with
  | .arr | .uarr => if c > size then .ok (init size c d) else .panic     -- assert!(CAPACITY > SIZE)
  | .vec | .uvec | .vecFixed => .ok (init size (size * c) d)              -- capacity = size * multiple

/-! ## push -/

/-- `ArrayStorage::rewind` -/
def rewindArr (w : St α) : Out (St α) :=
  let start := w.tail - w.size                   -- tail.saturating_sub(size)
  let windowSize := w.tail - start               -- start ≤ tail: no overflow
  if w.tail > w.buf.length then .panic           -- copy_within(start..tail, 0): range end out of bounds
  else .ok { w with buf := copyFront w.buf start windowSize, head := 0, tail := windowSize }

/-- `ArrayStorage::push` after the optional rewind -/
def storeArr (w : St α) (v : α) : Out (St α) :=
  if w.tail ≥ w.buf.length then .panic           -- arr[tail] = value
  else
    let tail := w.tail + 1
    .ok { w with buf := w.buf.set w.tail v, tail := tail,
                 head := if tail ≥ w.size then tail - w.size else w.head }

/-- `storage_array.rs` -/
def pushArr (w : St α) (v : α) : Out (St α) :=
  if w.tail ≥ w.cap then
    match rewindArr w with
    | .ok w' => storeArr w' v
    | o => o
  else storeArr w v

/-- `storage_vec.rs` as it is in the repository (defect F1: the slow path leaves `head = 0`) -/
def pushVec (w : St α) (v : α) : Out (St α) :=
  if w.tail < w.cap then
    if w.tail ≥ w.buf.length then .panic         -- vec[tail] = value
    else
      let tail := w.tail + 1
      if tail < w.head then .panic               -- tail - head
      else .ok { w with buf := w.buf.set w.tail v, tail := tail,
                        head := if tail - w.head > w.size then w.head + 1 else w.head }
  else
    if w.head + w.size > w.buf.length then .panic        -- copy_within(head..head + size, 0)
    else
      let buf := copyFront w.buf w.head w.size
      if w.size ≥ buf.length then .panic                 -- vec[tail] = value, tail = size
      else .ok { w with buf := buf.set w.size v, head := 0, tail := w.size + 1 }

/-- `storage_vec.rs` after `fixes/F1-window-vec.diff`: the slow path ends like the fast path -/
def pushVecFixed (w : St α) (v : α) : Out (St α) :=
  if w.tail < w.cap then
    if w.tail ≥ w.buf.length then .panic
    else
      let tail := w.tail + 1
      if tail < w.head then .panic
      else .ok { w with buf := w.buf.set w.tail v, tail := tail,
                        head := if tail - w.head > w.size then w.head + 1 else w.head }
  else
    if w.head + w.size > w.buf.length then .panic
    else
      let buf := copyFront w.buf w.head w.size
      if w.size ≥ buf.length then .panic
      else
        let tail := w.size + 1
        .ok { w with buf := buf.set w.size v, tail := tail,
                     head := if tail - 0 > w.size then 0 + 1 else 0 }

/-- `unsafe_storage_vec.rs` -/
def pushUVec (w : St α) (v : α) : Out (St α) :=
  if w.tail < w.cap then
    if w.tail ≥ w.buf.length then .ub            -- get_unchecked_mut(tail)
    else
      let tail := w.tail + 1
      if tail < w.head then .panic               -- tail - head (plain subtraction inside the unsafe block)
      else .ok { w with buf := w.buf.set w.tail v, tail := tail,
                        head := w.head + (if tail - w.head > w.size then 1 else 0) }
  else
    -- copy_nonoverlapping(ptr + head, ptr, size)
    if w.head + w.size > w.buf.length then .ub           -- source range leaves the allocation
    else if 0 < w.size ∧ w.head < w.size then .ub        -- source and destination overlap
    else
      let buf := copyFront w.buf w.head w.size
      if w.size ≥ buf.length then .ub                    -- get_unchecked_mut(tail), tail = size
      else
        let tail := w.size + 1
        .ok { w with buf := buf.set w.size v, tail := tail,
                     head := 0 + (if tail - 0 > w.size then 1 else 0) }

/-- `UnsafeArrayStorage::rewind` (with `ptr::copy`, i.e. after `fixes/F10-window-unsafe-array.diff`; before it the
calls were `copy_nonoverlapping`, undefined for the overlapping ranges of CAPACITY < 2·SIZE) -/
def rewindUArr (w : St α) : Out (St α) :=
  if w.tail < w.size then .panic                 -- tail - size
  else if w.tail > w.buf.length then .ub         -- source range [tail - size, tail) leaves the array
  else .ok { w with buf := copyFront w.buf (w.tail - w.size) w.size, head := 0, tail := w.size }

/-- `UnsafeArrayStorage::push` after the optional rewind -/
def storeUArr (w : St α) (v : α) : Out (St α) :=
  if w.tail ≥ w.buf.length then .ub              -- get_unchecked_mut(tail)
  else
    let tail := w.tail + 1                       -- wrapping_add(1)
    if tail < w.head then .ub                    -- tail.unchecked_sub(head)
    else if tail - w.head > w.size then
      if tail < w.size then .ub                  -- tail.unchecked_sub(size)
      else .ok { w with buf := w.buf.set w.tail v, tail := tail, head := tail - w.size }
    else .ok { w with buf := w.buf.set w.tail v, tail := tail }

/-- `unsafe_storage_array.rs` -/
def pushUArr (w : St α) (v : α) : Out (St α) :=
  if w.tail ≥ w.cap then
    match rewindUArr w with
    | .ok w' => storeUArr w' v
    | o => o
  else storeUArr w v

def push (k : Kind) (w : St α) (v : α) : Out (St α) :=
  match k with
  | .arr => pushArr w v
  | .vec => pushVec w v
  | .uarr => pushUArr w v
  | .uvec => pushUVec w v
  | .vecFixed => pushVecFixed w v

/-- a push history, oldest first -/
def run (k : Kind) (w : St α) : List α → Out (St α)
  | [] => .ok w
  | x :: xs =>
    match push k w x with
    | .ok w' => run k w' xs
    | o => o

/-- construct, then push `xs` -/
def history (k : Kind) (size c : Nat) (d : α) (xs : List α) : Out (St α) :=
  match new k size c d with
  | .ok w => run k w xs
  | o => o

/-! ## accessors -/

/-- `SlidingWindow::size` -/
def size (w : St α) : Nat := w.size

/-- `SlidingWindow::empty`: the trait default, `tail() == 0`, for all four storages -/
def empty (w : St α) : Bool := w.tail == 0

/-- `SlidingWindow::filled`, i.e. the *trait* method: overridden by the safe array (`tail.saturating_sub(head) >= size`)
and by both vector storages (`tail >= size`); the unsafe array does not override it (its `filled` is an inherent
method), so the trait default `tail() >= size()` answers -/
def filled (k : Kind) (w : St α) : Bool :=
  match k with
  | .arr => decide (w.tail - w.head ≥ w.size)
  | .vec | .uvec | .vecFixed | .uarr => decide (w.tail ≥ w.size)

/-- the `filled()` that `last()` calls inside the storage: for the unsafe array this is the inherent method
`tail.unchecked_sub(head) >= size` -/
def filledForLast (k : Kind) (w : St α) : Out Bool :=
  match k with
  | .uarr => if w.tail < w.head then .ub else .ok (decide (w.tail - w.head ≥ w.size))
  | _ => .ok (filled k w)

/-- an indexing `buf[i]` (safe storages) or `*buf.get_unchecked(i)` (unsafe storages) -/
def index (k : Kind) (buf : List α) (i : Nat) : Out α :=
  match buf[i]? with
  | some x => .ok x
  | none => match k with
    | .uarr | .uvec => .ub
    | _ => .panic

/-- `first()` -/
def first (k : Kind) (w : St α) : Out α :=
  if w.tail = 0 then .err else index k w.buf w.head

/-- `last()` -/
def last (k : Kind) (w : St α) : Out α :=
  match filledForLast k w with
  | .ok true =>
    if w.tail = 0 then .panic                    -- tail - 1
    else index k w.buf (w.tail - 1)
  | .ok false => .err
  | .err => .err
  | .panic => .panic
  | .ub => .ub

/-- `get_slice()` -/
def getSlice (k : Kind) (w : St α) : Out (List α) :=
  match k with
  | .arr | .vec | .vecFixed =>                   -- &buf[head..tail]
    if w.head > w.tail ∨ w.tail > w.buf.length then .panic
    else .ok ((w.buf.drop w.head).take (w.tail - w.head))
  | .uvec =>                                     -- buf.get_unchecked(head..tail)
    if w.head > w.tail ∨ w.tail > w.buf.length then .ub
    else .ok ((w.buf.drop w.head).take (w.tail - w.head))
  | .uarr =>                                     -- from_raw_parts(ptr + head, tail.saturating_sub(head).min(size))
    let len := min (w.tail - w.head) w.size
    if w.head + len > w.buf.length then .ub
    else .ok ((w.buf.drop w.head).take len)

/-- `slice()` (trait default) -/
def slice (k : Kind) (w : St α) : Out (List α) :=
  if filled k w then getSlice k w else .err

/-- `vec()` (trait default): `get_slice().to_vec()` -/
def vec (k : Kind) (w : St α) : Out (List α) :=
  if filled k w then getSlice k w else .err

/-- `arr::<S>()` (trait default): `[default; S]` with `arr[..size] = slice[..size]` -/
def arr (k : Kind) (w : St α) (s : Nat) (d : α) : Out (List α) :=
  if filled k w then
    match getSlice k w with
    | .ok sl =>
      if w.size > s then .panic                  -- arr[..size]
      else if w.size > sl.length then .panic     -- slice[..size]
      else .ok (sl.take w.size ++ List.replicate (s - w.size) d)
    | o => o
  else .err

/-- everything observable through `SlidingWindow`, `arr` at width `size` -/
structure Obs (α : Type) where
  size : Nat
  empty : Bool
  filled : Bool
  first : Out α
  last : Out α
  slice : Out (List α)
  vec : Out (List α)
  arr : Out (List α)
deriving DecidableEq, Repr

def observe (k : Kind) (w : St α) (d : α) : Obs α :=
  { size := size w, empty := empty w, filled := filled k w, first := first k w, last := last k w,
    slice := slice k w, vec := vec k w, arr := arr k w w.size d }

end Old

/-! equality of the old hand model with the generated definitions, for all inputs -/
open Model.Window Gen.Window
variable {α : Type}

theorem copyFront_eq (buf : List α) (s n : Nat) (h : s + n ≤ buf.length) : Old.copyFront buf s n = memmove buf s 0 n := by
  unfold memmove Old.copyFront
  have : ((buf.drop s).take n).length = n := by simp; omega
  have hc : s + n ≤ buf.length ∧ 0 + n ≤ buf.length := by omega
  simp [this, hc]
  intro hh; omega

theorem d_new_arr (a b : Nat) (d : α) : arrNew a b d = Old.new .arr a b d := by simp [arrNew, Old.new, Old.init]; grind
theorem d_new_uarr (a b : Nat) (d : α) : uarrNew a b d = Old.new .uarr a b d := by simp [uarrNew, Old.new, Old.init]; grind
theorem d_new_vec (a b : Nat) (d : α) : vecNew a b d = Old.new .vec a b d := by simp [vecNew, Old.new, Old.init]
theorem d_new_uvec (a b : Nat) (d : α) : uvecNew a b d = Old.new .uvec a b d := by simp [uvecNew, Old.new, Old.init]

theorem d_push_arr (w : St α) (v : α) : arrPush w v = Old.pushArr w v := by
  have := copyFront_eq w.buf (w.tail - w.size) (w.tail - (w.tail - w.size))
  unfold arrPush arrRewind Old.pushArr Old.rewindArr Old.storeArr
  grind [memmove_length]
theorem d_push_vec (w : St α) (v : α) : vecPush w v = Old.pushVec w v := by
  have := copyFront_eq w.buf w.head w.size
  unfold vecPush Old.pushVec
  grind [memmove_length]
theorem d_push_vecFixed (w : St α) (v : α) : vecFixedPush w v = Old.pushVecFixed w v := by
  have := copyFront_eq w.buf w.head w.size
  unfold vecFixedPush Old.pushVecFixed
  grind [memmove_length]
theorem d_push_uvec (w : St α) (v : α) : uvecPush w v = Old.pushUVec w v := by
  have := copyFront_eq w.buf w.head w.size
  unfold uvecPush Old.pushUVec
  grind [memmove_length]
theorem d_push_uarr (t : Nat) (w : St α) (v : α) : uarrPush t w v = Old.pushUArr w v := by
  have := copyFront_eq w.buf (w.tail - w.size) w.size
  unfold uarrPush uarrRewind Old.pushUArr Old.rewindUArr Old.storeUArr
  grind [memmove_length]

/-! accessors -/
theorem d_first (k : Old.Kind) (w : St α) :
    (match k with | .arr => arrFirst w | .vec => vecFirst w | .uarr => uarrFirst w | .uvec => uvecFirst w | .vecFixed => vecFixedFirst w)
      = Old.first k w := by
  cases k <;> simp [arrFirst, vecFirst, uarrFirst, uvecFirst, vecFixedFirst, Old.first, Old.index] <;> grind
theorem d_last (k : Old.Kind) (w : St α) :
    (match k with | .arr => arrLast w | .vec => vecLast w | .uarr => uarrLast w | .uvec => uvecLast w | .vecFixed => vecFixedLast w)
      = Old.last k w := by
  cases k <;> simp [arrLast, vecLast, uarrLast, uvecLast, vecFixedLast, arrFilled, vecFilled, uvecFilled, vecFixedFilled,
    uarrFilledInherent, Old.last, Old.index, Old.filledForLast, Old.filled] <;> grind
theorem d_filled (k : Old.Kind) (w : St α) :
    (match k with | .arr => arrFilled w | .vec => vecFilled w | .uarr => uarrFilled w | .uvec => uvecFilled w | .vecFixed => vecFixedFilled w)
      = .ok (Old.filled k w) := by
  cases k <;> simp [arrFilled, vecFilled, uarrFilled, uvecFilled, vecFixedFilled, uarrTail, uarrSize, Old.filled]
theorem d_getSlice (k : Old.Kind) (w : St α) :
    (match k with | .arr => arrGetSlice w | .vec => vecGetSlice w | .uarr => uarrGetSlice w | .uvec => uvecGetSlice w | .vecFixed => vecFixedGetSlice w)
      = Old.getSlice k w := by
  cases k <;> simp [arrGetSlice, vecGetSlice, uarrGetSlice, uvecGetSlice, vecFixedGetSlice, Old.getSlice] <;> grind
theorem d_slice (k : Old.Kind) (w : St α) :
    (match k with | .arr => arrSlice w | .vec => vecSlice w | .uarr => uarrSlice w | .uvec => uvecSlice w | .vecFixed => vecFixedSlice w)
      = Old.slice k w := by
  have := d_getSlice k w
  cases k <;> simp [arrSlice, vecSlice, uarrSlice, uvecSlice, vecFixedSlice, arrFilled, vecFilled, uarrFilled, uvecFilled,
    vecFixedFilled, uarrTail, uarrSize, Old.slice, Old.filled] at * <;> grind
theorem d_arr (k : Old.Kind) (w : St α) (s : Nat) (d : α) :
    (match k with | .arr => arrArr w s d | .vec => vecArr w s d | .uarr => uarrArr w s d | .uvec => uvecArr w s d | .vecFixed => vecFixedArr w s d)
      = Old.arr k w s d := by
  have := d_getSlice k w
  cases k <;> simp [arrArr, vecArr, uarrArr, uvecArr, vecFixedArr, arrFilled, vecFilled, uarrFilled, uvecFilled,
    vecFixedFilled, uarrTail, uarrSize, arrSize, vecSize, uvecSize, vecFixedSize, Old.arr, Old.filled] at * <;> grind
