#!/bin/sh
# Run once after a fresh restore, offline: builds the Lean project (all theorem modules + driver) and the harness.
set -e
cd "$(dirname "$0")"
export CARGO_NET_OFFLINE=true
python3 tools/rs2lean.py all --repo /repo >/dev/null || true
(cd lean && lake build)
(cd harness && RUSTFLAGS='--cfg deep_causality_verif' cargo build --offline --quiet)
(cd harness && RUSTFLAGS='--cfg deep_causality_verif' cargo build --offline --quiet --features unsafe_impl --target-dir target-unsafe)
echo setup-ok
