#!/usr/bin/env python3
"""Self-test of the round-7 translators (`containers` -> C12Gen, `reasoningN` -> C02Gen, `wiring` -> C13Gen, `ringslots` -> C05Gen, `executor` -> C06Gen, `spinwait` -> C13WaitGen, `spseq` -> C14Gen, `mpseq` -> C14MGen, `consumer` -> C04Gen) on edited *copies* of the
sources — never touches /repo or /verif/lean:

    python3 tools/test_rs2lean_round7.py [--repo /repo] [--only containers|reasoningN|wiring|ringslots|executor|spinwait|spseq|mpseq|consumer]

A scratch copy of the source tree (git worktree-free: the files are copied) and of the Lean project (with its build output, so that
only the touched modules are rebuilt) is made under a temporary directory; for every edit the translator is run on the copy and the
theorem module is rebuilt. Expected outcomes:
  QUIET   meaning-preserving rewrite: translator accepts, theorems still check
  BREAK   semantic mutation: translator refuses, or a theorem of the module no longer checks
Exit 0 iff every edit behaves as expected.
"""
import os, sys, shutil, subprocess, tempfile, argparse

HERE = os.path.dirname(os.path.abspath(__file__))
VERIF = os.path.dirname(HERE)
AS = 'deep_causality/src/extensions/assumable/mod.rs'
OB = 'deep_causality/src/extensions/observable/mod.rs'
CA = 'deep_causality/src/extensions/causable/mod.rs'
IN = 'deep_causality/src/extensions/inferable/mod.rs'
MC = 'deep_causality_macros/src/collections.rs'
GR = 'deep_causality/src/protocols/causable_graph/graph_reasoning.rs'
BU = 'dcl_data_structures/src/ring_buffer/dsl/rust_disruptor_builder.rs'
RBF = 'dcl_data_structures/src/ring_buffer/ringbuffer/const_array_ring_buffer.rs'
EXE = 'dcl_data_structures/src/ring_buffer/executor/thread_pool_executor.rs'
SPW = 'dcl_data_structures/src/ring_buffer/wait_strategy/spinlock_wait_strategy.rs'
CSQ = 'dcl_data_structures/src/ring_buffer/utils/cursor_sequence.rs'
BLK = 'dcl_data_structures/src/ring_buffer/wait_strategy/blocking_wait_strategy.rs'
SPS = 'dcl_data_structures/src/ring_buffer/producer/single_producer.rs'
MPS = 'dcl_data_structures/src/ring_buffer/producer/multi_producer.rs'
BEP = 'dcl_data_structures/src/ring_buffer/consumer/batch_event_processor.rs'
PUSH_LOOP = "        let mut all: Vec<&T> = Vec::new();\n        for item in self {\n            all.push(&item)\n        }\n        all\n"
DEQ_TOVEC = ("        let mut v = Vec::with_capacity(self.len());\n        let mut deque = self.clone(); // clone to avoid mutating the original\n\n"
             "        for item in deque.make_contiguous().iter() {\n            v.push(item.clone());\n        }\n\n        v\n")
WRAP = ("                    match cause.verify_all_causes(data, data_index) {\n                        Ok(res) => res,\n"
        "                        Err(e) => return Err(CausalityGraphError(e.0)),\n                    }")

EDITS = {
    'containers': ('DcVerif.Props.C12Gen', [
        ('QUIET', 'push loop -> iter().collect()', MC, PUSH_LOOP, "        self.iter().collect()\n"),
        ('QUIET', 'renamed local, with_capacity, explicit iter()', MC, PUSH_LOOP,
         "        let mut out: Vec<&T> = Vec::with_capacity(self.len());\n        for it in self.iter() {\n            out.push(it);\n        }\n        out\n"),
        ('QUIET', 'deque to_vec -> iter().cloned().collect()', CA, DEQ_TOVEC, "        self.iter().cloned().collect()\n"),
        ('QUIET', 'hand-written len = iter().count()', AS,
         "impl<T> AssumableReasoning<T> for Vec<T>\nwhere\n    T: Assumable,\n{\n    make_len!();",
         "impl<T> AssumableReasoning<T> for Vec<T>\nwhere\n    T: Assumable,\n{\n    fn len(&self) -> usize {\n        self.iter().count()\n    }"),
        ('QUIET', 'is_empty as len() == 0', MC, "        self.is_empty()\n", "        self.len() == 0\n"),
        ('QUIET', 'macro calls reordered', OB, "    make_len!();\n    make_is_empty!();\n    make_get_all_items!();\n}",
         "    make_get_all_items!();\n    make_is_empty!();\n    make_len!();\n}"),
        ('BREAK', 'hash map adapter truncates', AS, "    make_len!();\n    make_is_empty!();\n    make_get_all_map_items!();\n}",
         "    make_len!();\n    make_is_empty!();\n    fn get_all_items(&self) -> Vec<&V> {\n        self.values().take(16).collect()\n    }\n}"),
        ('BREAK', 'macro iterates in reverse', MC, "for item in self {", "for item in self.iter().rev() {"),
        ('BREAK', 'deque adapter skips the first item', OB,
         "impl<T> ObservableReasoning<T> for VecDeque<T>\nwhere\n    T: Observable,\n{\n    make_len!();\n    make_is_empty!();\n    make_get_all_items!();",
         "impl<T> ObservableReasoning<T> for VecDeque<T>\nwhere\n    T: Observable,\n{\n    make_len!();\n    make_is_empty!();\n"
         "    fn get_all_items(&self) -> Vec<&T> {\n        self.iter().skip(1).collect()\n    }"),
        ('BREAK', 'make_len off by one', MC, "        self.len()\n", "        self.len() + 1\n"),
        ('BREAK', 'deque to_vec reversed', CA, "deque.make_contiguous().iter()", "deque.make_contiguous().iter().rev()"),
        ('BREAK', 'wrong hand-written is_empty', IN,
         "impl<K, V> InferableReasoning<V> for BTreeMap<K, V>\nwhere\n    K: Eq + Hash,\n    V: Inferable,\n{\n    make_len!();\n    make_is_empty!();",
         "impl<K, V> InferableReasoning<V> for BTreeMap<K, V>\nwhere\n    K: Eq + Hash,\n    V: Inferable,\n{\n    make_len!();\n"
         "    fn is_empty(&self) -> bool {\n        self.len() <= 1\n    }"),
        ('BREAK', 'map adapter on a sequence (refused)', AS, "    make_len!();\n    make_is_empty!();\n    make_get_all_items!();\n}",
         "    make_len!();\n    make_is_empty!();\n    make_get_all_map_items!();\n}"),
    ]),
    'reasoningN': ('DcVerif.Props.C02Gen', [
        ('QUIET', 'wrapper branch through map_err + ?', GR, WRAP,
         "                    cause.verify_all_causes(data, data_index).map_err(|e| CausalityGraphError(e.0))?"),
        ('BREAK', 'wrapper gets no data index', GR, "match cause.verify_all_causes(data, data_index) {",
         "match cause.verify_all_causes(data, None) {"),
        ('BREAK', 'wrapper error swallowed as false', GR, WRAP,
         "                    match cause.verify_all_causes(data, data_index) {\n                        Ok(res) => res,\n"
         "                        Err(_) => false,\n                    }"),
        ('BREAK', 'wrapper verdict ignored', GR, WRAP,
         "                    match cause.verify_all_causes(data, data_index) {\n                        Ok(_) => true,\n"
         "                        Err(e) => return Err(CausalityGraphError(e.0)),\n                    }"),
        ('BREAK', 'children of a wrapper not pushed', GR,
         "                if child == stop_index {\n                    return Ok(true);\n                } else {",
         "                if child == stop_index {\n                    return Ok(true);\n                } else if cause.is_singleton() {"),
    ]),
    'wiring': ('DcVerif.Props.C13Gen', [
        ('QUIET', 'cursor pushed after the barrier is built', BU,
         "        self.cursors.push(processor.get_cursor());\n        let barrier = self.sequencer.create_barrier(&self.gating_sequences);",
         "        let barrier = self.sequencer.create_barrier(&self.gating_sequences);\n        self.cursors.push(processor.get_cursor());"),
        ('QUIET', 'mem::take instead of clone', BU, "            gating_sequences: self.gating_sequences.clone(),",
         "            gating_sequences: std::mem::take(&mut self.gating_sequences),"),
        ('BREAK', 'later stages wait on the producer cursor', BU, "            gating_sequences: self.gating_sequences.clone(),",
         "            gating_sequences: vec![self.with_sequencer.sequencer.get_cursor()],"),
        ('BREAK', 'barrier over the own stage', BU, "let barrier = self.sequencer.create_barrier(&self.gating_sequences);",
         "let barrier = self.sequencer.create_barrier(&self.cursors);"),
        ('BREAK', 'gating list accumulates all stages', BU, "        self.gating_sequences = scope.cursors;\n\n        self",
         "        self.gating_sequences.append(&mut scope.cursors);\n\n        self"),
        ('BREAK', 'next stage inherits the input list', BU, "        self.gating_sequences = scope.cursors;\n\n        self",
         "        self.gating_sequences = scope.gating_sequences;\n\n        self"),
        ('BREAK', 'producer gated by the last handler only (refused)', BU,
         "        for gs in &self.gating_sequences {\n            self.with_sequencer.sequencer.add_gating_sequence(gs);\n        }",
         "        if let Some(gs) = self.gating_sequences.last() {\n            self.with_sequencer.sequencer.add_gating_sequence(gs);\n        }"),
    ]),
    'ringslots': ('DcVerif.Props.C05Gen', [
        ('QUIET', 'operands of & swapped', RBF,
         "    unsafe fn get_mut(&self, sequence: Sequence) -> &mut T {\n        let index = sequence as usize & self.mask;",
         "    unsafe fn get_mut(&self, sequence: Sequence) -> &mut T {\n        let index = self.mask & sequence as usize;"),
        ('BREAK', 'mask = N', RBF, "RingBuffer { data, mask: N - 1 }", "RingBuffer { data, mask: N }"),
        ('BREAK', 'reader addresses the next slot', RBF,
         "    unsafe fn get(&self, sequence: Sequence) -> &T {\n        let index = sequence as usize & self.mask;",
         "    unsafe fn get(&self, sequence: Sequence) -> &T {\n        let index = (sequence as usize + 1) & self.mask;"),
        ('BREAK', 'guard also accepts 12', RBF, "(N != 0) && ((N & (N - 1)) == 0)", "(N != 0) && ((N & (N - 1)) == 0 || N == 12)"),
        ('BREAK', 'index by remainder of the mask (refused or broken)', RBF,
         "    unsafe fn get(&self, sequence: Sequence) -> &T {\n        let index = sequence as usize & self.mask;",
         "    unsafe fn get(&self, sequence: Sequence) -> &T {\n        let index = sequence as usize % self.mask;"),
    ]),
    'executor': ('DcVerif.Props.C06Gen', [
        ('QUIET', 'renamed locals, no into_iter()', EXE,
         "        let mut threads = Vec::new();\n        for r in self.runnables.into_iter() {",
         "        let mut threads = Vec::new();\n        for r in self.runnables {"),
        ('BREAK', 'every second runnable is not spawned (refused)', EXE, "        for r in self.runnables.into_iter() {",
         "        for r in self.runnables.into_iter().step_by(2) {"),
        ('BREAK', 'join forgets the last thread (refused)', EXE, "        for t in threads.into_iter() {",
         "        for t in threads.into_iter().rev().skip(1) {"),
        ('BREAK', 'handle keeps no threads (refused)', EXE, "        ThreadedExecutorHandle { threads }",
         "        ThreadedExecutorHandle { threads: Vec::new() }"),
    ]),
    'spinwait': ('DcVerif.Props.C13WaitGen', [
        ('QUIET', 'branches the other way round', SPW,
         "            if available >= sequence {\n                return Some(available);\n            }\n            if check_alert() {\n                return None;\n            }",
         "            if available < sequence {\n                if check_alert() {\n                    return None;\n                }\n            } else {\n                return Some(available);\n            }"),
        ('QUIET', 'unwrap_or(0)', CSQ, ".unwrap_or_default()", ".unwrap_or(0)"),
        ('BREAK', 'strictly greater', SPW, "if available >= sequence {", "if available > sequence {"),
        ('BREAK', 'alert wins over availability', SPW,
         "            if available >= sequence {\n                return Some(available);\n            }\n            if check_alert() {\n                return None;\n            }",
         "            if check_alert() {\n                return None;\n            }\n            if available >= sequence {\n                return Some(available);\n            }"),
        ('BREAK', 'minimum taken once, outside the loop (refused)', SPW,
         "        loop {\n            let available = get_min_cursor_sequence(dependencies);",
         "        let available = get_min_cursor_sequence(dependencies);\n        loop {"),
        ('BREAK', 'maximum instead of minimum (refused)', CSQ, ".min()", ".max()"),
        ('BREAK', 'first cursor skipped (refused)', CSQ, "        .iter()\n", "        .iter()\n        .skip(1)\n"),
        ('QUIET', 'blocking: branches swapped', BLK,
         "            if available >= sequence {\n                return Some(available);\n            } else {\n                let _guard = self.cvar.wait(blocked).unwrap();\n            }",
         "            if available < sequence {\n                let _guard = self.cvar.wait(blocked).unwrap();\n            } else {\n                return Some(available);\n            }"),
        ('BREAK', 'blocking: alert read before the lock is taken', BLK,
         "            let blocked = self.guard.lock().unwrap();\n            if check_alert() {\n                return None;\n            }",
         "            if check_alert() {\n                return None;\n            }\n            let blocked = self.guard.lock().unwrap();"),
        ('BREAK', 'blocking: minimum computed outside the lock', BLK,
         "            let blocked = self.guard.lock().unwrap();\n            if check_alert() {\n                return None;\n            }\n\n            let available = get_min_cursor_sequence(dependencies);",
         "            let available = get_min_cursor_sequence(dependencies);\n            let blocked = self.guard.lock().unwrap();\n            if check_alert() {\n                return None;\n            }\n"),
        ('BREAK', 'blocking: signal notifies without the lock', BLK,
         "        let _guard = self.guard.lock().unwrap();\n        self.cvar.notify_all();\n        drop(_guard);",
         "        self.cvar.notify_all();"),
        ('BREAK', 'blocking: notify_one (refused)', BLK, "self.cvar.notify_all();", "self.cvar.notify_one();"),
    ]),
    'spseq': ('DcVerif.Props.C14Gen', [
        ('QUIET', 'loop/break for while, capacity in a local', SPS,
         "        while min_sequence + (self.buffer_size as Sequence) < end {\n            min_sequence =\n                get_min_cursor_sequence::<_, AtomicSequenceOrdered>(&self.gating_sequences);\n        }",
         "        let capacity = self.buffer_size as Sequence;\n        loop {\n            if min_sequence + capacity >= end {\n                break;\n            }\n            min_sequence =\n                get_min_cursor_sequence::<_, AtomicSequenceOrdered>(&self.gating_sequences);\n        }"),
        ('BREAK', 'wrap check against the start of the range', SPS, "(self.buffer_size as Sequence) < end {", "(self.buffer_size as Sequence) < start {"),
        ('BREAK', 'range one too long', SPS, "(next, next + (count - 1) as Sequence)", "(next, next + count as Sequence)"),
        ('BREAK', 'next_write not advanced past the end', SPS, "self.next_write_sequence.set(end + 1);", "self.next_write_sequence.set(end);"),
        ('BREAK', 'publish stores lo', SPS, "    fn publish(&self, _: Sequence, hi: Sequence) {\n        self.cursor.set(hi);", "    fn publish(&self, lo: Sequence, _: Sequence) {\n        self.cursor.set(lo);"),
        ('BREAK', 'drain waits for one less', SPS, ".take().saturating_sub(1);", ".take().saturating_sub(2);"),
        ('BREAK', 'signal before the cursor store (refused)', SPS, "        self.cursor.set(hi);\n        self.wait_strategy.signal();", "        self.wait_strategy.signal();\n        self.cursor.set(hi);"),
    ]),
    'mpseq': ('DcVerif.Props.C14MGen', [
        ('QUIET', 'has_capacity through locals, comparison turned round', MPS,
         "        self.buffer_size\n            > high_watermark.saturating_sub(get_min_cursor_sequence::<_, AtomicSequenceOrdered>(\n                &self.gating_sequences,\n            )) as usize\n                + count",
         "        let slowest = get_min_cursor_sequence::<_, AtomicSequenceOrdered>(&self.gating_sequences);\n        let unconsumed = high_watermark.saturating_sub(slowest) as usize;\n        unconsumed + count < self.buffer_size"),
        ('QUIET', 'scan loop restructured (publish not in the read shape: fail-open)', MPS,
         "        while good_to_release < hi {\n            if !self.ready_sequences.is_set(good_to_release + 1) {\n                break;\n            }\n            good_to_release += 1;\n        }",
         "        while good_to_release < hi && self.ready_sequences.is_set(good_to_release + 1) {\n            good_to_release += 1;\n        }"),
        ('BREAK', 'capacity test off by one', MPS, "            )) as usize\n                + count", "            )) as usize\n                + count - 1"),
        ('BREAK', 'range starts at the watermark', MPS, "return (high_watermark + 1, end);", "return (high_watermark, end);"),
        ('BREAK', 'bits cleared from the own lo', MPS, "for n in low_watermark..=good_to_release {", "for n in lo..=good_to_release {"),
        ('BREAK', 'low watermark set to hi', MPS, "self.low_watermark.set(good_to_release);", "self.low_watermark.set(hi);"),
        ('BREAK', 'scan probes the current sequence', MPS, "is_set(good_to_release + 1)", "is_set(good_to_release)"),
        ('BREAK', 'drain waits on the high watermark (refused)', MPS, "        let current = self.cursor.get();\n        while get_min_cursor_sequence", "        let current = self.high_watermark.get();\n        while get_min_cursor_sequence"),
    ]),
    'consumer': ('DcVerif.Props.C04Gen', [
        ('BREAK', 'one twin signals before it stores its cursor (refused)', BEP,
         "                let value = unsafe { data_provider.get(i) };\n                f.handle_event(value, i, i == available);\n            }\n\n            cursor.set(available);\n            barrier.signal();",
         "                let value = unsafe { data_provider.get(i) };\n                f.handle_event(value, i, i == available);\n            }\n\n            barrier.signal();\n            cursor.set(available);"),
        ('BREAK', 'one twin starts its batch one late (twins differ: refused)', BEP,
         "            for i in next..=available {\n                let value = unsafe { data_provider.get_mut(i) };",
         "            for i in next + 1..=available {\n                let value = unsafe { data_provider.get_mut(i) };"),
    ]),
}


def main():
    ap = argparse.ArgumentParser()
    ap.add_argument('--repo', default='/repo')
    ap.add_argument('--only')
    a = ap.parse_args()
    tmp = tempfile.mkdtemp(prefix='rs2lean-r7-')
    bad = 0
    try:
        src = os.path.join(tmp, 'repo')
        for d in ('deep_causality/src', 'deep_causality_macros/src', 'dcl_data_structures/src', 'ultragraph/src'):
            shutil.copytree(os.path.join(a.repo, d), os.path.join(src, d))
        lean = os.path.join(tmp, 'lean')
        shutil.copytree(os.path.join(VERIF, 'lean'), lean, symlinks=True)
        gen = os.path.join(lean, 'DcVerif', 'Gen')
        for which, (module, edits) in EDITS.items():
            if a.only and a.only != which:
                continue
            for expect, name, path, old, new in edits:
                f = os.path.join(src, path)
                orig = open(f).read()
                if old not in orig:
                    print(f'{which}: {name}: ANCHOR NOT FOUND in {path}'); bad += 1; continue
                open(f, 'w').write(orig.replace(old, new, 1))
                try:
                    t = subprocess.run([sys.executable, os.path.join(HERE, 'rs2lean.py'), which, '--repo', src, '--out', gen],
                                       capture_output=True, text=True)
                    if t.returncode != 0:
                        got, why = 'BREAK', 'translator refused'
                    else:
                        b = subprocess.run(['lake', 'build', module], cwd=lean, capture_output=True, text=True)
                        got, why = ('QUIET', 'theorems check') if b.returncode == 0 else ('BREAK', 'a theorem no longer checks')
                finally:
                    open(f, 'w').write(orig)
                ok = got == expect
                bad += not ok
                print(f'{which:11s} {"ok  " if ok else "FAIL"} expected {expect} got {got} ({why}): {name}', flush=True)
            subprocess.run([sys.executable, os.path.join(HERE, 'rs2lean.py'), which, '--repo', src, '--out', gen], capture_output=True)
    finally:
        shutil.rmtree(tmp, ignore_errors=True)
    print('round-7 translator self-test:', 'all as expected' if not bad else f'{bad} unexpected')
    sys.exit(1 if bad else 0)


if __name__ == '__main__':
    main()
