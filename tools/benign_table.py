#!/usr/bin/env python3
"""prints the markdown table of DESIGN.md §11b from benign/*/meta.json (behaviour-preserving changes and what the checks said)"""
import json, glob, os, re
rows = []
tot = quiet = noinput = false = 0
for f in sorted(glob.glob(os.path.join(os.path.dirname(os.path.abspath(__file__)), '..', 'benign', '*', 'meta.json'))):
    m = json.load(open(f))
    c = m.get('confirmed', {})
    notes = m.get('needs_to_manifest', '')
    lvl = re.search(r'\bL[123]\b', notes)
    first = ''
    for line in notes.split('\n'):
        line = line.strip()
        if line and not line.startswith('#') and len(line) > 25:
            first = re.sub(r'\s+', ' ', line)[:140]
            break
    det, why = [], ''
    for p, v in m.get('detection', {}).items():
        if not isinstance(v, dict):
            continue
        if v.get('exit') == 0:
            det.append(f'{p}: quiet')
        elif 'no-failing-input-found' in v.get('line', ''):
            det.append(f'{p}: alarm (no-failing-input-found)')
            why = why or ((v.get('replay') or {}).get('message') or '')[:110]
        else:
            det.append(f'{p}: **FALSE ALARM with input**')
    tot += 1
    if m.get('quiet'):
        quiet += 1
    elif m.get('false_alarm_with_input'):
        false += 1
    else:
        noinput += 1
    ok = c.get('applies') and c.get('builds') and c.get('suite_passes')
    rows.append(f"| {m['id']} | {lvl.group(0) if lvl else ''} | {', '.join(os.path.basename(x) for x in m.get('files', []))} | {first} | "
                f"{'yes' if ok else 'NO ' + json.dumps(c)[:60]} | {'; '.join(det)}{' — ' + why if why else ''} |")
print(f'{tot} changes: {quiet} quiet on every check run against them, {noinput} reported without a failing input (a translator or a proof '
      f'obligation no longer checks), {false} reported with a failing input (= false alarm).\n')
print('| id | level | file(s) | what the change is | confirmed (applies, builds, 803 tests pass) | checks |')
print('|---|---|---|---|---|---|')
print('\n'.join(rows))
