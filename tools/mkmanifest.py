#!/usr/bin/env python3
"""Regenerates /verif/MANIFEST.json from the table below (kept in one place so that the manifest never drifts)."""
import json, os
VERIF = os.path.dirname(os.path.dirname(os.path.abspath(__file__)))
BASELINE = ("cd /repo && cargo nextest run --workspace --no-fail-fast --tool-config-file pb:/w/lib/nextest.toml "
            "--profile pb --test-threads 8 --offline")

CLAIMED = {
    'C07': dict(
        technique='Lean 4 proof (representation invariant preserved by every push, lifted over all histories by induction; '
                  'every accessor characterised under the invariant) over a hand-transcribed model of the four storages + '
                  'differential correspondence run in two harness builds (with and without the `unsafe` feature)',
        text='Theorem c07_window_is_last_n: for the array, unsafe-array, unsafe-vector storages and for the vector storage after '
             'fixes/F1-window-vec.diff, every 0 < size < capacity (vector: multiple >= 2), every default value and every push '
             'history of any length, construct-and-push never panics and never violates the precondition of an unchecked '
             'operation, and size/empty/filled/first/last/slice/vec/arr answer exactly the spec (last `size` values in push '
             'order, filled iff size <= n, empty iff n = 0, Err while not filled); c07_backends_agree / c07_backends_same_state. '
             'The safe vector storage as it is in /repo violates the property (F1, open known finding: the repair is blocked by '
             'a repository test that pins the defective output): c07_vec_fails (witness, replayed on the real code on every run) '
             'and c07_vec_partial (histories up to the capacity).',
        note='Trusted: Lean kernel (propext, Classical.choice, Quot.sound); the hand-written model lean/DcVerif/Model/Window.lean '
             '(tied to /repo only by the correspondence run: sizes 1..9, every capacity N+1..3N, multiples 2..4, u8/u32/u64, '
             'every observable after every push, up to 40*cap pushes); copy_within/ptr::copy = memmove and the 16-byte chunked '
             'copy of the unsafe array = memmove; compiled behaviour of the unsafe blocks is compared, their abstract-machine '
             'preconditions are proved for the model only. F10 (copy_nonoverlapping on overlapping ranges in '
             'unsafe_storage_array.rs, aborts under debug assertions) is repaired by fixes/F10-window-unsafe-array.diff.',
        ref='DESIGN.md §7 C07'),
    'C19': dict(
        technique='Lean 4 proof (refinement invariant by induction over the call history) over definitions regenerated '
                  'from bit_map.rs/logarithm.rs by a translator + differential correspondence run',
        text='Theorem c19_bitmap_is_residue_set: for every power-of-two capacity 2^k (k unbounded), every set/unset history '
             'and every sequence number, the generated model of BitMap never indexes out of bounds and is_set answers '
             'exactly "last call to that residue class was a set"; corollaries: independence and commutation of distinct '
             'residues. The model is regenerated from /repo on every run (rs2lean.py bitmap, fail-closed) and additionally '
             'executed against the real BitMap on generated and exhaustive small-scope histories.',
        note='Trusted: Lean kernel (propext, Classical.choice, Quot.sound), rs2lean.py bitmap translator (~150 lines), '
             'size_of::<AtomicU64>()=8, sequential semantics of fetch_or/fetch_and/load (atomic RMW per word; concurrency on '
             'distinct residues is covered as commutation, not as a memory-model proof), the harness/driver pair.',
        ref='DESIGN.md §7 C19'),
}
PENDING_REASON = 'not claimed yet: model, theorems and tie are being built in the order of DESIGN.md §10; no check registered until all three exist'

def main():
    props = [json.loads(l)['id'] for l in open(os.path.join(VERIF, 'properties.jsonl'))]
    checks = []
    for pid in props:
        if pid not in CLAIMED:
            continue
        c = CLAIMED[pid]
        checks.append({
            'property_id': pid,
            'quick_cmd': f'./check {pid} quick',
            'thorough_cmd': f'./check {pid} thorough',
            'evidence_file': f'/verif/evidence/{pid}.json',
            'replay_cmd_template': f'./check {pid} --replay {{path}}',
            'engine': 'lean4-proof+correspondence',
            'level_claimed': {'category': c.get('category', 'proof'), 'text': c['text'], 'design_ref': c['ref']},
            'level_note': c['note'],
            'technique': c['technique'],
        })
    man = {
        'version': 1,
        'setup_cmd': './setup.sh',
        'hooks': {
            'guard': 'deep_causality_verif',
            'enable': "RUSTFLAGS='--cfg deep_causality_verif' cargo build --offline --manifest-path /verif/harness/Cargo.toml",
            'baseline_off_cmd': BASELINE,
            'source_commits': json.load(open(os.path.join(VERIF, 'hook_commits.json'))) if os.path.exists(os.path.join(VERIF, 'hook_commits.json')) else [],
            'add_only': True,
        },
        'engines': [{
            'name': 'lean4-proof+correspondence', 'path': '/verif/check',
            'serves_properties': [c['property_id'] for c in checks],
            'kind_free_text': 'Lean 4 theorems about executable models (lean/DcVerif), tied to /repo by a source translator '
                              '(tools/rs2lean.py) and/or a differential correspondence run (harness/ = real Rust code, '
                              'lean/Driver = compiled model + spec oracle)'}],
        'checks': checks,
        'notes': 'See DESIGN.md. Known findings: known_findings.json. Fix commits in /repo are listed there as fixed entries.',
        'not_applicable': [{'property_id': p, 'reason': PENDING_REASON} for p in props if p not in CLAIMED],
    }
    json.dump(man, open(os.path.join(VERIF, 'MANIFEST.json'), 'w'), indent=1)
    print('claimed:', [c['property_id'] for c in checks])

if __name__ == '__main__':
    main()
