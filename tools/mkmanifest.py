#!/usr/bin/env python3
"""Regenerates /verif/MANIFEST.json from the table below (kept in one place so that the manifest never drifts)."""
import json, os
VERIF = os.path.dirname(os.path.dirname(os.path.abspath(__file__)))
BASELINE = ("cd /repo && cargo nextest run --workspace --no-fail-fast --tool-config-file pb:/w/lib/nextest.toml "
            "--profile pb --test-threads 8 --offline")

CLAIMED = {
    'C06': dict(
        technique='Lean 4 proof: fair-termination rule (global measure + per-thread ranks + helpful/ready thread; extended to strong '
                  'fairness with a lock-release sub-argument) instantiated on the pc-machine model of the pipeline, on top of '
                  'inductive invariants for every schedule (mutual exclusion / ownership of the wait-strategy mutex, no lost '
                  'wake-up); the executor the liveness statements presuppose (one thread per runnable, join waits for all) regenerated from '
                  'executor/thread_pool_executor.rs on every run (tools/rs2lean_executor.py, Gen/Executor.lean, Props/C06Gen.lean); the decisions and the '
                  'order of lock / alert / loads / wait / unlock / notify operations of BlockingWaitStrategy::wait_for and signal regenerated from the '
                  'source and proved to be the model\'s blocking program-counter paths (tools/rs2lean_spinwait.py, Gen/SpinWait.lean, Props/C13WaitGen.lean) '
                  '+ trace replay of real executions under the deterministic scheduler, which reports deadlock / budget '
                  '(hang) / panic ends',
        text='Single-producer pipelines, every ring size, topology (K>=1 stages, >=1 handler each) and batch list with 1<=b<=N '
             '(covers the property\'s b<N; includes the empty list = drained without publishing). (a) spin strategy: '
             'c06_spin_terminates — every weakly fair schedule (every thread scheduled infinitely often) reaches the state where '
             'all write calls, drain and Drop returned and every handler thread exited (join returns); c06_write_returns, '
             'c06_zero_events_drains. (b) both strategies, every schedule (Reachable): c06_no_deadlock (some thread always has an '
             'enabled, non-stutter step), c06_mutual_exclusion (a thread is between lock and unlock/cvar.wait iff it owns the mutex), '
             'c06_no_lost_wakeup (a parked handler whose condition holds or is_done is set has been notified, or another thread is '
             'between its store and its notify_all), c06_wait_conditions_stable, c06_all_written_at_exit. (c) blocking strategy: '
             'c06_blocking_terminates / c06_blocking_write_returns — same conclusion as (a) for every schedule that is weakly fair and '
             'strongly fair for lock acquisition (LockFair: a lock / relock step enabled infinitely often is eventually taken); '
             'c06_blocking_some_thread_ready (in every non-terminal state some thread can make progress). Generic rule: '
             'Fair.fair_termination_sf / Fair.fair_termination (Lemmas/FairTermination.lean). Multi-producer sequencer '
             '(Model/RingMulti.lean, ring sizes 2^k, Lemmas/RingMultiLive*.lean): (d) any number of writer threads, both '
             'strategies, every schedule (MReachableWF): c06_multi_no_deadlock (some thread always has a step enabled in the sense of '
             'RingMulti.enabledM), c06_multi_mutual_exclusion (handlers, writer threads inside signal() and the draining thread own '
             'the mutex exactly when between lock and unlock; at most one of them), c06_multi_no_lost_wakeup (a parked handler '
             'whose condition holds or is_done is set has been notified, or the draining thread is at dLock/dNotify/eLock/eNotify, '
             'or a writer is between its CAS on the cursor and its notify_all, or another handler is at sLock/sNotify), '
             'c06_multi_wait_conditions_stable. (e) ONE writer thread, batches 1<=b<N (exactly what has_capacity needs: '
             'N > (hw - min) + count), every topology: c06_multi_single_writer_spin_terminates (every weakly fair schedule of '
             'writer, draining thread and handlers reaches the state where all write calls and drain returned and every handler '
             'exited), c06_multi_single_writer_blocking_terminates (weak fairness + LockFairM), ..._write_returns (claims = '
             'batches, cursor = sum, everything written), c06_multi_single_writer_zero_events_drains, '
             'c06_multi_single_writer_some_thread_ready. (f) any number of writers, conditional: '
             'c06_multi_drain_terminates_when_released(_blocking) — from every reachable state in which all writers are done and '
             'cursor = high watermark (nothing stranded) every fair schedule of the draining thread and the handlers terminates; '
             'this isolates the defect in the release protocol. Partial: with two or more writer threads unconditional termination '
             'is false — known finding F11 (a sequence stranded by out-of-order or overlapping publication, F7/F13, makes later '
             'write()/drain() spin for ever); such runs are judged by the oracle on the implementation events. Fairness of the '
             'real OS scheduler / std::sync::Mutex, timing and spurious condvar wake-ups are not modelled.',
        note='Trusted: as C04, plus the fairness assumptions (weak fairness; for the blocking strategy strong fairness of lock '
             'acquisition) — assumptions about the OS scheduler and std::sync::Mutex, not facts about the code; the deterministic '
             'scheduler classifies a run as deadlock when no managed thread is enabled and as budget when the step budget passes '
             '(a spinning hang); F6 (drain underflow) is repaired in /repo and the model uses the repaired saturating subtraction.',
        ref='DESIGN.md §7 C06, §5.3'),
    'C05': dict(
        technique='Lean 4 proof: vector-clock (happens-before) ghost state layered on the pc-machine model of the pipeline, ghost '
                  'invariant preserved by every step of every thread for every schedule, memory orderings taken from the source by '
                  'a translator (Gen/Orderings.lean); the slot addressing (guard of RingBuffer::new, mask, index of get/get_mut) and the stage wiring of '
                  'the DSL builder likewise regenerated from the source on every run (Gen/RingSlots.lean + Props/C05Gen.lean: index = sequence mod N for '
                  'every accepted N; Gen/RingWiring.lean + Props/C13Gen.lean) + trace replay of real executions with an executable happens-before oracle',
        text='Single-producer pipelines, every ring size, stage/handler topology, batch list, spin and blocking wait, every '
             'schedule: c05_no_lap_reachable (producer writing w, any handler handling i: i < w < i+n, so w mod n != i mod n), '
             'c05_full_ring_blocks / c05_full_ring_blocks_run (while some last-stage cursor c has c+n < end, no step of any '
             'thread takes the producer out of its gate loop and nothing is written, along every schedule) and the converse '
             'c05_gate_opens (once every last-stage cursor has end <= c+n the producer reaches its slot write within ngate+3 '
             'own steps), c05_race_free_reachable / c05_reader_knows (before every slot access the obligations R1-R4 hold: a '
             'handler about to handle i knows the producer\'s write of i, every access of i by every handler of every earlier '
             'stage and everybody\'s access of i-n; the producer about to write w knows everybody\'s access of w-n) with cursor '
             'stores/loads using Gen.Orderings.seqSet/seqGet regenerated from atomic_sequence_ordered.rs — the only facts used '
             'are c05_orderings_used (seqSet is Release, seqGet is Acquire, by evaluation), so weakening either in the source '
             'breaks the obligation; c05_relaxed_store_races / c05_relaxed_load_races (with a Relaxed store or load a concrete '
             'schedule violates R1: the table is load-bearing); c05_same_stage_unordered (known finding F9: two handlers of one '
             'stage are not ordered with each other, so the race-freedom theorem claims ordering only against the producer, '
             'earlier stages and the previous lap, which is the whole property exactly when a stage with a mutable handler holds '
             'no other handler). Tie: translator for the ordering table + every real trace replayed on the model (MISMATCH, '
             'orderings of every facade call compared) and judged by the slot-exclusion and vector-clock oracles on the '
             'implementation\'s own events (SPECFAIL). Multi-producer sequencer (ring sizes 2^k, any number of writer threads, every '
             'schedule): c05_multi_no_overwrite / c05_multi_no_lap / c05_multi_writers_distinct_slots (capacity side) and '
             'c05_multi_race_free_reachable (vector clocks with per-writer write counts and one clock per bitmap word, orderings '
             'from Gen.Orderings: claimant write -> fetch_or on the word -> publisher scan/fetch_and -> CAS on the cursor -> handler '
             'load), with load-bearing witnesses c05_multi_relaxed_cas_races / c05_multi_relaxed_fetch_or_races. Partial: a '
             'happens-before model over an interleaving semantics stands in for full C11 (no stale '
             'reads of the monotone counters, no compiler reordering of the plain slot accesses beyond what happens-before '
             'forbids); the mutex/condvar/is_done/spawn edges are deliberately not used in the Lean model (fewer edges, sound '
             'for race freedom) while the trace oracle does use lock/unlock edges.',
        note='as C04; additionally Gen/Orderings translator (fail-closed on any change in the number or shape of atomic call sites)',
        ref='DESIGN.md §7 C05, §5.4'),
    'C10': dict(
        technique='Lean 4 proof over the model of reason_shortest_path_between_causes, which is proved equal to the definition '
                  'the fail-closed translator tools/rs2lean_reasoning.py regenerates from the current Rust source on every run '
                  '(Gen/Reasoning.lean, Props/C01Gen.lean: reason_shortest_path_eq, path_loop_eq, get_shortest_path_eq) + proved '
                  'Floyd–Warshall oracle (fw_correct, tabulated form proved equal) validating the path astar returned + '
                  'differential correspondence run',
        text='Theorems evaluated_eq_prefix / verdict_true_iff / verdict_first_nontrue / nothing_else_evaluated / errors_iff / '
             'spErr_iff / accepted_path_minimal / accepted_paths_same_weight (ties: two accepted paths have equal weight) / model_sp_spec: along the path returned by get_shortest_path exactly the prefix '
             'up to and including the first non-true causaloid is evaluated, in order, the result is the conjunction, nothing '
             'off the path is evaluated; an error without evaluation iff empty graph, absent endpoint, start = stop or stop '
             'unreachable; a path accepted by the driver is a real path of minimum weight among all walks (Floyd–Warshall, '
             'proved). Ties are the implementation\'s choice and are validated per case, not predicted.',
        note='Trusted: Lean kernel, rs2lean_reasoning.py and its vocabulary (see C01; `shortest_path(a, b)` of the underlying graph '
             'is a parameter `sp a b` of the generated definition, so swapped arguments or a dropped start = stop guard change '
             'the generated text; c10gen_evaluates_one_path / c10gen_error restate the laws on the generated definition), the '
             'graph-store part of Model/CausalGraph.lean (correspondence-tied), harness/driver pair. petgraph astar is not '
             'translated: its answer is checked per query (real path, weight = proved distance), so minimality is established for '
             'every executed query, not for all inputs of astar.',
        ref='DESIGN.md §7 C10'),
    'C01': dict(
        technique='Lean 4 proof (stack-machine invariant by induction on fuel and stack; termination by a rank on acyclic '
                  'graphs; add-only invariant by induction over the build history) over a model of graph_reasoning.rs that is '
                  'proved equal, for all inputs, to definitions regenerated from the current Rust source on every run by the '
                  'fail-closed translator tools/rs2lean_reasoning.py (forking symbolic execution -> Gen/Reasoning.lean; the '
                  '`while let` stack loop as a fuel-indexed recursive definition whose transitions are derived from the parsed '
                  'statements; Props/C01Gen.lean: generated = model) + differential correspondence run against the real '
                  'CausaloidGraph',
        text='Theorems reason_true_iff / reason_false / reason_err_never_true / reason_err_or_false / reason_terminates / '
             'addOnly_stop_not_live / reasonAll_eq (+ evaluation log and activation-flag theorems, model_allowed): for every '
             'acyclic graph built by adds only, every start, data vector, data index and assignment of causal functions the '
             'modelled reason_from_to_cause returns Ok(true) iff every reachable causaloid is true on its routed observation, '
             'Ok(false) when none errs and one is false, Err or Ok(false) (first non-true in DFS order) when one errs; it '
             'terminates; the stop index is never live. Tie to the source: Props/C01Gen.lean — get_obs_eq, from_to_loop_eq, '
             'reason_from_to_cause_eq, reason_all_causes_eq, reason_subgraph_from_cause_eq, single_loop_eq, '
             'reason_single_cause_eq (every definition generated from get_obs and the default methods of '
             'CausableGraphReasoning equals the model function the theorems are about, for every graph store, fuel, start/stop, '
             'data, data index), and c01gen_reason_true_iff / _false / _err_never_true / _terminates / _entry_points / _allowed: '
             'the headline laws on the generated definitions themselves. The model is also compared with the real code on '
             'every op (result, activation flags of all nodes, order of causal-function calls).',
        note='Trusted: Lean kernel, rs2lean_reasoning.py (~1 800 lines + rs2lean_csm.py\'s parser, rsblock.py/rsexpr.py: parser, '
             'forking symbolic executor with places for `last_mut()` / `next()`, loop derivation, renderer; fail-closed) and the '
             'vocabulary it writes against (Model/ReasoningPrim.lean + the graph-store part of Model/CausalGraph.lean: '
             'contains_causaloid / get_causaloid / get_root_index / get_last_index / size / is_empty / outgoing_edges of '
             'CausaloidGraph over ultragraph, Causaloid::id / is_singleton / verify_single_cause / verify_all_causes — assumed '
             'meanings, exercised by the correspondence run: random DAGs n<=12/40, exhaustive DAGs on <=3/4 nodes x all verdict '
             'vectors, malformed stream), petgraph index allocation and neighbour order (compared, not proved), harness/driver '
             'pair. The reasoning functions of Model/CausalGraph.lean (getObs, loopT, reasonFromTo, reasonAll, reasonSub, '
             'singleLoop, reasonSingle) are no longer trusted: they are proved equal to the generated definitions. Nested '
             '(non-singleton) nodes are C02.',
        ref='DESIGN.md §7 C01'),
    'C15': dict(
        technique='Lean 4 proof of a shortest-path oracle (Floyd-Warshall by structural recursion, path checker); the same statements about the '
                  'shortest_path wrapper and the graph mutators regenerated from the source (Props/C15Gen.lean) are checked by C08\'s run + translation '
                  'validation: every answer of the real shortest_path (petgraph astar) on generated graphs is judged by the proved oracle',
        text='Theorems c15_fw_correct (fw = minimum over all walks, none iff no walk), c15_table_is_fw, c15_bound_covers, '
             'c15_checkPath_sound/_complete (accepted iff a real path of the graph with that weight), c15_minDist_correct, '
             'c15_judge_some_iff / c15_judge_none_iff (an answer is judged OK iff it is a real start->stop path of minimum total '
             'weight between live nodes, resp. none iff an end point is absent or the target unreachable) and '
             'c15_shortest_path_judged_ok: the same for the implementation model (contains_node guards mirrored) on every graph '
             'reached by any build/removal history (via the C08 refinement). petgraph astar itself is NOT modelled step by step: '
             'its result is validated per generated input by this oracle, up to ties (translation validation). Props/C15Gen.lean: '
             'shortest_path_is_model, c15gen_guards, c15gen_shortest_path_judged_ok, c15gen_accepted_steps_are_edges (every step of an accepted path is an edge the generated contains_edge reports), c15gen_astar_choice_irrelevant (with c15_accepted_same_weight / c15_some_none_exclusive: two accepted answers agree on path-or-none and on total weight) — the same statements about the generated '
             'shortest_path (guards, astar as an external parameter, path copy) on every graph reached by the generated mutators (built and audited by the check of C08).',
        note='Trusted: Lean kernel; the oracle statements; rs2lean_ugraphfns.py and the petgraph primitives it writes against; the correspondence run (graphs from C08-style histories incl. cycles, zero '
             'weights, ties, self-loops, removals; all ordered pairs incl. absent end points); petgraph astar not proved; path sums < 2^63.',
        ref='DESIGN.md §7 C15'),
    'C09': dict(
        technique='Lean 4 refinement proof (inductive invariant over operation histories) of a model of Context (base UltraGraph, '
                  'extra UltraGraphs, selection, two index maps) over the C08 graph model against a specification built from plain '
                  'directed-graph stores; the model is tied to the source by the fail-closed translator tools/rs2lean_context.py '
                  '(Gen/Ctx.lean: one definition per public function of Context, regenerated from the current Rust on every run; '
                  'Props/C09Gen.lean proves every generated definition equal to the model on every state satisfying the reachable-'
                  'state invariant) + differential correspondence run against the real Context',
        text='Theorem c09_refinement: for every history interleaving base-context operations, extra_ctx_add_new, switching / unsetting / '
             'mis-setting the current context, extra-context node and edge operations and set_index/get_index, the outputs of the '
             'implementation model are exactly those the specification allows (every store answers as a plain directed-graph store in '
             'the sense of C08, an operation touches only the store it addresses) and the final states correspond; c09_reachable_inv; '
             'frame theorems c09_base_ops_frame, c09_extra_ops_frame (base, every OTHER extra context, selection and maps untouched), '
             'c09_mgmt_ops_frame; c09_extra_ops_without_selection_fail_clean; c09_set_current_refused_iff (refused iff the id is not 0 '
             'and not an existing extra context); c09_index_get_after_set, c09_index_maps_independent, c09_index_maps_frame. Tie to the '
             'source: Props/C09Gen.lean, one `<function>_eq` theorem per generated definition (11 ContextuableGraph, 16 '
             'ExtendableContextuableGraph, get_index/set_index, id, name, with_capacity; the private helpers get_current_extra_context'
             '[_mut] are inlined by the translator), genStep_agrees / genRun_eq (every operation, every history; id and name never '
             'change) and the headline statements on the generated definitions started from the generated with_capacity: '
             'c09gen_refinement, c09gen_frames, c09gen_extra_ops_without_selection_fail_clean, c09gen_index_get_after_set.',
        note='Trusted: Lean kernel; the translator rs2lean_context.py for the fragment it reads (its vocabulary: Exec/Res, HashMap as a '
             'plain finite map, ultragraph through the adapters ug_* onto Model/UGraph.lean, an Err of ultragraph leaves the graph '
             'unchanged - proved for the model as c08_failed_ops_change_nothing); the UltraGraph model Model/UGraph.lean (C08); the '
             'correspondence run (base, every extra context incl. a non-existent one, and both index maps re-read after every '
             'operation) cross-checks the hand model Model/Ctx.lean, which the generated definitions are proved equal to; contextoids '
             'represented by their id (payload and kind checked by the harness on every read), relation kinds not observable through '
             'the Context API; extra_ctx_set_current_id(0) is accepted by the code (deselect) and specified so; F2/F3 fixes applied.',
        ref='DESIGN.md §7 C09'),
    'C08': dict(
        technique='Lean 4 refinement proof (inductive invariant over operation histories) of a model of UltraMatrixGraph over '
                  'petgraph 0.7.1 MatrixGraph against a plain directed-graph specification, about the wrapper functions as '
                  'regenerated from their current source by the fail-closed translator tools/rs2lean_ugraphfns.py '
                  '(Gen/UGraphFns.lean; Props/C08Gen.lean proves every generated definition equal to the model on every well-formed '
                  'state and transports the theorems) + differential correspondence run of model and spec oracle against the real '
                  'UltraGraph',
        text='Theorem c08_refinement: for every history (any length, any interleaving) of add_node, add_root_node, remove_node, '
             'add_edge, add_edge_with_weight, remove_edge, clear and every observer, the outputs of the implementation model '
             '(id allocator with reuse, adjacency cells, petgraph edge counter, node_map, index_map, root) are exactly those the '
             'directed-graph specification allows (an add may return any index that is not live) and the final states correspond; '
             'c08_reachable_wf, c08_never_panics, c08_add_fresh, c08_value_until_removed, c08_edges_between_live, '
             'c08_remove_edge_effect / c08_remove_node_effect / c08_add_edge_effect, c08_failed_ops_change_nothing. The model is '
             'the code with fixes F2 (remove_edge erased both end nodes from index_map) and F3 (stale number_edges after remove_node) '
             'applied; the defects of the unrepaired code are kernel-checked witnesses (c08_F2_…, c08_F3_…) replayed on the real code. '
             'Tie to the source: Gen/UGraphFns.lean holds one definition per Rust function of matrix_graph/{mod,graph_like,graph_root,'
             'graph_storage,graph_algorithms}.rs (24: new, new_with_capacity, add_node, contains_node, get_node, remove_node, add_edge, '
             'add_edge_with_weight, contains_edge, remove_edge, add_root_node, contains_root_node, get_root_node, get_root_index, '
             'get_last_index, size, is_empty, number_nodes, number_edges, get_all_nodes, get_all_edges, clear, outgoing_edges, '
             'shortest_path), transcribed statement by statement into the Option monad (none = panic); Props/C08Gen.lean: one '
             '`<fn>_eq` theorem per definition (same answer, same final state, panics exactly where the model does, on every state '
             'satisfying the invariant WF of c08_reachable_wf), gen_step / gen_run (the step function assembled from the generated '
             'definitions = the model step), and c08gen_refinement, c08gen_reachable_wf, c08gen_never_panics, '
             'c08gen_failed_ops_change_nothing restated on the generated definitions. Props/C01Store.lean (built here): the hand storage model of C01/C10 (Model/CausalGraph.lean) simulates this ultragraph model on every add-only history (sim_build) and agrees with the generated contains_node / contains_edge / node_map length (c01store_gen_contains_node, c01store_gen_contains_edge, c01store_gen_get_node, c01store_gen_outgoing_edges, c01store_last_index, c01store_weights); c10_accepted_is_c15_minimum: a path C10\'s driver accepts is a minimum-weight Path in C15\'s sense on the generated ultragraph state.',
        note='Trusted: Lean kernel; rs2lean_ugraphfns.py (~1800 lines: item scanner, statement / pattern / closure parser on top of '
             'rsblock.py, typed statement-by-statement translation; grammar and the table Rust method -> primitive in its docstring; '
             'refuses anything else); the vocabulary of Model/UGraph.lean the generated definitions are written against: AHashMap as '
             'association list, petgraph 0.7.1 MatrixGraph/IdStorage (petAddNode, petAddEdge, petRemoveEdge, petRemoveNode, '
             'petNodeCount, petEdgeCount, petClear, hasCell, rowOf, colOf; id reuse, neighbour order, nb_edges bookkeeping, matrix '
             'growth as identity) — modelled and exercised by the correspondence run (every observer re-read after every mutator, '
             'all constructors, initial capacities 0-4, index reuse), not proved; NodeIndex::new / index() as the identity (indices '
             '< 2^32, Gen/UGraphTypes.lean; indices >= 2^32 are exercised on the real code); Err payloads dropped; debug_assert = '
             'assert; hash-map iteration order canonicalised by sorting. The wrapper part of Model/UGraph.lean is no longer trusted '
             'for C08: it is proved equal to the generated definitions on every reachable state.',
        ref='DESIGN.md §7 C08, §5.1, §6 F2/F3'),
    'C12': dict(
        technique='Lean 4 proof (container adapters regenerated on every run from the macro token strings of deep_causality_macros and the '
                  'extension impls by the fail-closed translator tools/rs2lean_containers.py -> Gen/Containers.lean, proved equal to the '
                  'model in Props/C12Gen.lean; containers reduced to the item list they hand to the trait default methods; permutation '
                  'invariance; trace decomposition of reason_all_causes; mutual structural induction over nested causaloids for graph twins) '
                  '+ differential correspondence run over six holders and graph/clone/twin triples',
        text='Theorems c12_len_is_number_of_items, c12_items_of_containers (slice/Vec/VecDeque = the sequence, BTreeMap = ascending '
             'keys, HashMap = a permutation), c12_answers_function_of_items / c12_same_items_same_answers (every answer of the four '
             'reasoning traits is a function of the item list), c12_perm_invariant_{assumable,inferable,observable,causable} (counts, '
             'percentages, "all" answers equal, filters equal as multisets under List.Perm), c12_verdict_independent_of_cells, '
             'c12_reason_idempotent (any number of repetitions), c12_clone_same_verdict_partial (same shape => same verdict, for '
             'collections of causaloids); Props/C12Graph.lean over the nested causaloid model: c12_graph_twin_same_verdict, '
             'c12_nested_twin_same_verdict, c12_collection_twin_same_verdict (a model rebuilt with fresh activation cells returns the '
             'same verdict, any nesting depth, any data/index/contexts), c12_graph_twin_same_activation (and ends in the mirrored '
             'activation state), c12_graph_repeat_idempotent (n+1 repetitions of any call after any history = one call). Correspondence: the same item descriptions in [T], Vec, VecDeque (wrapped ring), BTreeMap, '
             'HashMap and a rebuilt twin, every trait method on each, each dump computed twice; CausaloidGraph vs clone() vs rebuilt '
             'twin compared on the real code, the graph verdicts (all causes, subgraph, single cause) also against Model/CausalGraph.lean.',
        note='Partial: a clone is the same value in the model (shared Arc flags), so clone equality is a correspondence result; the C12 '
             'run uses flat acyclic graphs (nested ones are replayed by C02/C11); shortest-path verdicts of graph/clone/twin are '
             'compared on the real code only; nesting depth of collection causaloids is 1 in Model/Collections.lean. Trusted: Lean kernel, '
             'rs2lean_containers.py and its std vocabulary Model/ContainerPrim.lean (len / is_empty / iteration order of sequences / values() '
             'of maps), Model/Collections.lean + Model/Reasoning.lean (hand-written; the latter proved equal to the generated default methods in Props/C18Gen.lean), f64 execution in the Lean runtime, HashMap order as '
             'reported by get_all_items().',
        ref='DESIGN.md §7 C12'),
    'C18': dict(
        technique='Lean 4 proof (list induction, exact rationals, verification histories by induction) about the default methods '
                  'of AssumableReasoning / InferableReasoning / ObservableReasoning, Inferable / Observable, impl Assumable for '
                  'Assumption and abs_num as regenerated from their current source by the fail-closed translator '
                  'tools/rs2lean_collections.py (Gen/Collections.lean; Props/C18Gen.lean proves every generated definition equal '
                  'to the model for all inputs) + differential correspondence run comparing f64 bit patterns',
        text='Theorems for arbitrary member predicates (the f64 comparisons enter as arbitrary functions): c18_assumable_counts, '
             'c18_assumable_partition (valid/invalid and tested/untested partition the collection, List.Perm), '
             'c18_percent_assumption_valid, c18_inferable_counts, c18_percent_inferable (x100), c18_not_both_inferable and '
             'c18_non_inferable_family (the non-inferable filter is empty, its count/percentage and the collection conjoint delta are 0), '
             'c18_number_observation (number_non = len - number = count of the complement), c18_percent_observation (scale 0..1), '
             'c18_totalCmp_total_order (bit-pattern model of f64::total_cmp), c18_tested_from_first_verify_on, '
             'c18_valid_only_after_true, c18_verify_returns_verdict, c18_collection_member_history (every member under every history of '
             'verify_all / member verifications). Tie to the source: Props/C18Gen.lean, one `<method>_eq` theorem per generated '
             'definition (35: abs_num, Assumption::new and the three impl methods, 9 AssumableReasoning, 3 Inferable, 13 '
             'InferableReasoning, effect_observed, 4 ObservableReasoning) for every member type, reader dictionary, KeyOps and '
             'collection content, and the laws restated on the generated definitions: c18gen_not_both_inferable, '
             'c18gen_inferable_counts, c18gen_assumable, c18gen_observable, c18gen_flags. Correspondence: real Vec collections with '
             'boundary values (equal to threshold, adjacent floats, +-0.0, NaN, inf, subnormals, 4-decimal truncation edges); floats '
             'compared as bit patterns, the exact rational percentages of the model are checked against the printed floats.',
        note='Trusted: Lean kernel, rs2lean_collections.py (~1350 lines: tokeniser + Pratt parser + typed translation; grammar in '
             'its docstring; refuses anything else, an override of a default method in an impl, and locals that would capture '
             'generated names), the IEEE identities a<b = b>a, a<=b = b>=a, a!=b = !(a==b) used when emitting comparisons, '
             'Arc<RwLock<bool>> as plain cells, len() = get_all_items().len() (hypothesis hlen of the equalities; the containers\' '
             'own len), Lean runtime Float = IEEE binary64 for re-computing percentages and member predicates (execution only), '
             'NaN canonicalised. Model/Reasoning.lean is no longer trusted for C18: it is proved equal to the generated definitions.',
        ref='DESIGN.md §7 C18'),
    'C03': dict(
        technique='Lean 4 proof (refinement of a map specification by induction over the call history; characterisation of '
                  'eval_single_state / eval_all_states for every environment and every hash-map iteration order) about CSM, '
                  'CausalState::eval / eval_with_data and CausalAction::fire as regenerated from their current source by the '
                  'fail-closed translator tools/rs2lean_csm.py (forking symbolic execution -> Gen/Csm.lean; Props/C03Gen.lean '
                  'proves every generated definition equal to the model, the table operations up to the order of the association '
                  'list, for all inputs) + differential correspondence run against the real CSM',
        text='Theorems c03_run_refines_map / c03_history_is_map: for every history of new/add/remove/update/update_all/eval calls '
             '(each evaluation with its own pattern of failing causal functions and failing actions) the model table denotes exactly '
             'the map Nat -> Option (state, action) of the specification and every call returns the prescribed outcome and effect log; '
             'c03_failed_call_unchanged, c03_add_existing_fails, c03_absent_fails: failures have no side effects; '
             'c03_evalSingle_fires_iff: the causaloid is evaluated once on the supplied data, exactly [current action] fires iff the '
             'verdict is Ok(true), errors surface; c03_evalAll_ok_fires_exactly / c03_evalAll_err_prefix for every permutation of the '
             'registered ids; c03_len_counts_registered. Tie to the source: Props/C03Gen.lean — state_eval_eq, '
             'state_eval_with_data_eq, action_fire_eq, len_eq, is_empty_eq, eval_single_state_eq, eval_all_states_eq (generated = '
             'model for every key function, environment, table and enumeration order), new_sim, add/update/remove_single_state_sim, '
             'update_all_states_sim (same answers and tables holding the same pair under every id, started from such tables), '
             'genStep_sim / genRun_sim for every history, and the laws restated on the generated definitions: c03gen_run_refines_map, '
             'c03gen_failed_call_unchanged, c03gen_evalSingle_fires_iff, c03gen_evalAll_ok_fires_exactly, c03gen_evalAll_err_prefix, '
             'c03gen_len_counts_registered. Correspondence: the model is executed against the real CSM on generated histories of 1-60 '
             'calls with forced id collisions and fault patterns, plus an exhaustive small scope.',
        note='Trusted: Lean kernel, rs2lean_csm.py (~1750 lines + rsblock.py/rsexpr.py: parser, forking symbolic executor, renderer; '
             'grammar and the meaning given to HashMap / RefCell / Option / Result calls in its docstring; refuses anything else, a path '
             'that reaches a panic, a second live RefCell borrow), Model/CsmPrim.lean (the association list standing for the HashMap) '
             'and Spec/Csm.lean (Env, Ev, Out), the harness fixtures (verdict decoded from the data value, global fault switch/mask, '
             'effect log), HashMap iteration order taken from the observed log and validated as a duplicate-free enumeration of the '
             'registered ids, usize arithmetic without overflow, #[derive(Getters)] = field readers. Model/Csm.lean is no longer '
             'trusted for C03: it is proved equal (up to list order) to the generated definitions.',
        ref='DESIGN.md §7 C03'),
    'C04': dict(
        technique='Lean 4 proof: inductive invariants over all interleavings of a pc-machine model of the pipeline (one step per '
                  'sync-facade operation) + slot/payload layer; one pass of the handler loop (next, batch range, end-of-batch flag, cursor store; both run twins) '
                  'regenerated from consumer/batch_event_processor.rs and proved to be the model\'s consumer steps (Props/C04Gen.lean); stage wiring and slot addressing of the models proved equal to definitions regenerated '
                  'from the DSL builder and the ring buffer on every run (Props/C13Gen.lean, Props/C05Gen.lean) + trace replay of real executions under a deterministic scheduler '
                  '(random schedules and a bounded-preemption search) on the model and on executable property oracles',
        text='Single-producer pipelines (every ring size, stage/handler topology, batch list, spin and blocking wait, every '
             'schedule): c04_log_is_prefix (each handler has been handed exactly 1..m, once each, in order, m <= cursor), '
             'c04_handle_only_published, c04_delivered_after_drain, c04_single_partial (after shutdown every written sequence '
             'except 0 was delivered), c04_payload_intact (slot layer: what a stage-k handler is handed for sequence i is the value '
             'written for i transformed by the mutable handlers of the earlier stages, although slots are reused every n sequences; '
             'hypothesis: a mutable handler is alone in its stage), and the negation of the full statement for sequence 0 (known '
             'finding F5, c04_single_first_event_never_delivered). Multi producer, any number of writer threads, every schedule: '
             'c04_multi_log_is_prefix (in order, gap-free, no repetition, nothing above the cursor), '
             'c04_multi_handle_only_published / c04_multi_log_written (ring size 2^k: whatever a handler is handed has been '
             'completely written and published by its claimant), c04_multi_payload_intact (slot layer Model/RingMultiPay: what a '
             'handler is handed for a sequence is the one value its claimant wrote for it — the next item of that writer — '
             'transformed by the mutable handlers of the earlier stages; writers interleaving, out-of-order publication and ring '
             'wrap-around included); c04_multi_delivered_after_drain (after drain every terminated handler has been handed exactly '
             '1..cursor), c04_multi_complete_when_released (if moreover cursor = high watermark: exactly the claimed sequences, each '
             'written once by its claimant), c04_multi_single_writer_delivers_all (one writer thread: every fair schedule ends with '
             '1..sum(batches) delivered to every handler); in general the full delivery statement is false (known findings F8 and '
             'F13-C04, kernel-checked witness c04_multi_stranded_event_lost, replayed on the real code). Tie: every '
             'real trace (facade operation, handler call with payload, slot access) is replayed step by step on the Lean model '
             '(MISMATCH) and judged by the delivery/payload oracle on the implementation events (SPECFAIL).',
        note='Trusted: Lean kernel; interleaving semantics at facade-operation granularity (plain slot accesses are scheduling points '
             'too); the sync facade + deterministic scheduler (harness/src/sched.rs) standing in for the OS scheduler on an x86 host; '
             'ThreadedExecutor replaced by the harness executor (same transmute, managed threads); Gen/Orderings + Gen/BitMap '
             'translators. Partial: multi-producer delivery is judged per run only.',
        ref='DESIGN.md §7 C04, §5.3'),
    'C13': dict(
        technique='Lean 4 proof: consequences of the pipeline invariants for every schedule (single and multi producer) + slot layer; '
                  'the stage wiring the models assume is proved equal to what the DSL builder builds, for every topology, on definitions '
                  'regenerated from dsl/rust_disruptor_builder.rs on every run (tools/rs2lean_wiring.py, Gen/RingWiring.lean, Props/C13Gen.lean); what a spin-waiting '
                  'handler waits for (get_min_cursor_sequence, one pass of the wait loop) likewise regenerated and proved to be the model\'s '
                  'waitLoad / checkAvail / checkAlert steps (tools/rs2lean_spinwait.py, Gen/SpinWait.lean, Props/C13WaitGen.lean) '
                  '+ trace replay under the deterministic scheduler',
        text='Every configuration and schedule, single producer (c13_stage_order) and multi producer (c13_multi_stage_order): a '
             'stage-(k+1) handler about to handle i finds i in the log of every stage-k handler, whose published cursor is >= i; '
             'c13_chain; c13_no_stage_lapped (gating on the last stage only bounds every stage: i < w < i + n); '
             'c13_sees_earlier_modifications / c13_multi_sees_earlier_modifications / c13_multi_sees_previous_stage (slot layers, '
             'single and multi producer: a stage-(k+1) handler is handed what stage k was handed with the mutable handler of stage k '
             'applied). That the accesses are also ordered by happens-before is R2 of C05. Props/C13Gen.lean (generated builder run on an '
             'arbitrary topology): c13gen_barrier_deps (handler (k,j) waits on the producer cursor for k = 0, on exactly the cursors of '
             'stage k-1 otherwise), c13gen_all_handlers, c13gen_producer_gating (the producer is gated by exactly the last stage), '
             'model_deps_is_generated / model_gate_is_generated (Ring.ndeps/dep/ngate/gate are those lists). The implementation '
             'events are judged by the stage-order and payload oracles.',
        note='as C04; for the multi producer the no-lap statement is c05_multi_no_lap (C05)',
        ref='DESIGN.md §7 C13'),
    'C14': dict(
        technique='Lean 4 proof: producer invariants (claims tile, cursor = published prefix) for every schedule; the gating list of the producer '
                  '(= the last stage, Props/C13Gen.lean), the bitmap (Gen/BitMap.lean) and the single-producer sequencer\'s arithmetic and loop conditions '
                  '(tools/rs2lean_spseq.py, Gen/SpSeq.lean; Props/C14Gen.lean: the model\'s producer steps compute exactly these, and the claims of any history '
                  'of next calls tile) and the multi-producer sequencer\'s has_capacity / next / drain / publish expressions and conditions (tools/rs2lean_mpseq.py, '
                  'Gen/MpSeq.lean, Props/C14MGen.lean; publish fail-open when restructured) regenerated from the source on every run + trace replay',
        text='Single-producer sequencer, every configuration and schedule: c14_claims_tile (ranges returned by next partition '
             '[0, next_write) into consecutive ranges of the requested lengths), c14_cursor_monotone, c14_cursor_is_published_prefix, '
             'c14_cursor_eq_highest_claimed. Multi-producer sequencer, any number of writer threads, every interleaving of the '
             'read / capacity-check / CAS / bitmap / cursor steps: c14_multi_claims_tile, c14_multi_cursor_monotone; the clause '
             'that the cursor equals the highest claimed sequence once all claimants have published is false (known finding F7, '
             'kernel-checked witness c14_multi_cursor_below_highest_claimed, replayed on the real code); that it never moves past an '
             'unpublished sequence is judged per run by the oracle on the implementation events.',
        note='as C04',
        ref='DESIGN.md §7 C14'),
    'C11': dict(
        technique='Lean 4 proof (induction over evaluation histories and structural induction over nesting trees) about an '
                  'executable model of activation cells, evaluation logs, is_active and the aggregates, tied to the current source '
                  'by the translator tools/rs2lean_causable.py (Gen/Causable.lean regenerated on every run by symbolic execution of '
                  'impl Causable for Causaloid, its constructors, the CausableReasoning default methods and the CausaloidGraph '
                  'aggregates; Props/C11Gen.lean proves that the model satisfies the generated equations) + differential '
                  'correspondence run over persistent models with clones',
        text='Theorems single_active_iff_last_ok_true / single_after_evaluation / errored_evaluation_changes_nothing (for every '
             'history of verify_single_cause / verify_all_causes / collection and graph reasoning calls with arbitrary data: a '
             'singleton is active iff the latest non-erring evaluation of its cell returned true; inactive initially), '
             'wrapper_active_iff_exists_member + active_eq_spec (every causaloid, any nesting depth), '
             'number_active_eq_recount / percent_active_eq_recount (exact rational) / all_active_iff_recount, frame / frame_cell / '
             'frame_aggregate / unevaluated_unchanged (reasoning changes only singletons it evaluated, all of which belong to the '
             'structure it was called on), clones_share_activation. Tie to the source: Props/C11Gen.lean — verify_single_cause_eq, '
             'verify_all_causes_eq, is_active_eq, is_singleton_eq (generated function on the record a generated constructor builds = '
             'model function, verdict and cell writes), reason_all_causes_eq, number_active_eq, percent_active_eq, '
             'get_all_causes_true_eq, graph_*_eq, constructors_start_inactive, and the laws on the generated definitions themselves '
             '(c11gen_single_writes, c11gen_is_active_after_history, c11gen_aggregates, c11gen_run_append).',
        note='Trusted: Lean kernel; the translator rs2lean_causable.py with its vocabulary (Arc<RwLock<bool>> = cell id with an event '
             'log of writes, causal fn pointers = functions into V, members / the wrapped graph = abstract types with the required '
             'trait methods as dictionaries, Vec = list, graph reasoning abstract) — fail-closed, cross-checked by the '
             'correspondence run through the proved tie; the graph-reasoning part of Model/Causaloid.lean (validated by comparing '
             'is_active of every handle after every call and every aggregate); f64 percentages re-computed with Lean Float in the '
             'driver only; the harness/driver pair.',
        ref='DESIGN.md §7 C11'),
    'C02': dict(
        technique='Lean 4 proof (mutual structural induction over the nesting tree, reusing the DFS stack-machine lemmas at every '
                  'graph level) about an executable model of Causaloid / collection / graph reasoning; all three levels are tied '
                  'to the current source by fail-closed translators run on every check: singleton and collection level by '
                  'tools/rs2lean_causable.py (Gen/Causable.lean, Props/C11Gen.lean), graph level by tools/rs2lean_reasoning.py '
                  '(Gen/ReasoningN.lean = the definitions symbolically executed from graph_reasoning.rs read against nodes that answer '
                  'is_singleton / verify_all_causes themselves; Props/C02Gen.lean: generated reason_all_causes = the model\'s '
                  'reasonAllGraph for every graph of nested causaloids, loop invariant by induction on fuel) '
                  '+ differential correspondence run on generated nesting trees',
        text='Theorems wrapper_eq_direct_{alone,in_collection,in_graph}: a wrapper gives, alone, as item i of a collection and as '
             'non-root node of a graph, exactly the verdict of reasoning directly over the wrapped structure with the data routed '
             'as the code routes it; nested_true_iff / nested_false / nested_err_never_true / nested_{false,err}_cause / '
             'verdict_is_conjunction: for every nesting tree of acyclic graphs (depth, fan-out unbounded), every data vector and '
             'index, an answered verdict is the conjunction of the verdicts of all contained singletons (Spec.Nest.contained); '
             'nested_terminates + total forms; contextual_uses_own_ctx / nested_uses_own_ctxs. Quirks carried as hypotheses and '
             'covered as panic: wrapper in root position, wrapper node whose own id has no observation slot. '
             'Props/C02Gen.lean: get_obs_eq, nodeTable_get, node_verdict, loop_eq, reason_from_to_cause_eq, reason_all_causes_eq, '
             'verifyAll_graph_eq (verify_all_causes of a graph wrapper is the generated graph reasoning over nodes whose own '
             'verify_all_causes are the model\'s), c02gen_graph_true_iff, c02gen_graph_err_never_true — under Total (no node '
             'evaluation panics), singleton root, non-empty graph; hypotheses met by a decided example.',
        note='Trusted: Lean kernel, the translators rs2lean_causable.py / rs2lean_reasoning.py and their vocabularies '
             '(Model/ReasoningPrimN.lean: an add-only graph as node list + edge list + root, get_last_index = node count, neighbours '
             'ascending); the panicking paths of the graph level (wrapper as root, contextual causaloid without context) are theorems '
             'about the hand model only (validated by the '
             'correspondence run: every verdict and every is_active flag after every call; causable.rs and protocols/causable/mod.rs '
             'are read by the translator rs2lean_causable.py and the model is proved to satisfy what it reads: Props/C11Gen.lean), '
             'petgraph neighbour order = ascending index, the harness/driver pair. none = panic or no answer within fuel.',
        ref='DESIGN.md §7 C02'),
    'C17': dict(
        technique='Lean 4 proof (representation invariant by induction over the store sequence; simulation between the two '
                  'builds) over address maps, array nesting and Grid/ArrayGrid wrappers regenerated from grid_type/*.rs by a '
                  'fail-closed translator + differential correspondence run on both builds (thorough tier: the unsafe build additionally at opt-level 3) and all 256 extent tuples',
        text='Theorems getAddr_eq_setAddr, addr_injective, inb_of_small (from the generated definitions), '
             'c17_{safe,unsafe}_{default_before_store, get_set_same, get_set_other, store_load, meets_spec} and '
             'c17_safe_unsafe_agree: for every dimension kind, all extents W,H,D,C (unbounded), every sequence of stores at '
             'points whose coordinates are below the smallest extent, no store panics and a read returns the value most '
             'recently stored at that very point, else the default; arbitrary op sequences (any points, panics included) are '
             'accepted by the association-list oracle; the RefCell grid and the raw-pointer grid answer identically on every '
             'op sequence.',
        note='Trusted: Lean kernel (propext, Classical.choice, Quot.sound), rs2lean_grid.py (~620 lines, accepted spellings in its docstring) over the shared block parser rsblock.py (~530 lines), the fixed prelude of '
             'Gen/GridAddr.lean = semantics of nested Rust array indexing (panic iff an index is out of range of its level; a '
             'store changes exactly the addressed cell), RefCell borrow and raw-pointer write through &self as plain accesses in '
             'sequential code (UB of the latter is not detectable), the harness/driver pair.',
        ref='DESIGN.md §7 C17'),
    'C16': dict(
        technique='Lean 4 proof (unfold + grind/omega over straight-line definitions) about the eight update/adjust bodies '
                  'regenerated from node_types_adjustable/*/adjustable.rs by a fail-closed translator + differential '
                  'correspondence run on the real nodes and real ArrayGrids',
        text='Theorems <kind>_<op>_{ok_sets_all, err_changes_nothing, fails_if_inadmissible, succeeds_if_strictly_positive, '
             'reads_expected_cells} for data/time/space/space-time x update/adjust, plus c16_meets_spec / c16_all_or_nothing: '
             'for every current node value and every grid content (unbounded integers) the generated function either succeeds '
             'with exactly the new values / old+delta in every coordinate or fails leaving the node as it was when the call '
             'started (the model returns the node as it stands at every return, so a partial write is visible); it fails on '
             'zero replacement x/y/z/data, negative replacement time or a negative adjusted value, succeeds when all '
             'replacements / all deltas and results are strictly positive, and depends on the grid only through the expected cells.',
        note='Trusted: Lean kernel (propext, Classical.choice, Quot.sound), rs2lean_adjustable.py (~650 lines; control-flow-tree grammar, helper inlining and unrolling described '
             'in its docstring), values of T as mathematical integers (overflow of a concrete T is outside the property), '
             'ArrayGrid::get as a function of the point (C17 covers the grid), the harness/driver pair.',
        ref='DESIGN.md §7 C16'),
    'C07': dict(
        technique='Lean 4 proof (representation invariant preserved by every push, lifted over all histories by induction; '
                  'every accessor characterised under the invariant; grind/omega over decision trees) about the definitions '
                  'regenerated on every run from window_type/{storage_safe,storage_unsafe}/*.rs, storage.rs and mod.rs by the '
                  'fail-closed translator tools/rs2lean_window.py (statement parser + symbolic execution of every storage '
                  'function, trait default methods instantiated per storage, SlidingWindow dispatch checked) + differential '
                  'correspondence run of the generated definitions in two harness builds (with and without the `unsafe` '
                  'feature; thorough tier: the unsafe build additionally at opt-level 3)',
        text='Theorem c07_window_is_last_n: for the array, unsafe-array, unsafe-vector storages and for the vector storage after '
             'fixes/F1-window-vec.diff (applied by the translator in memory), every 0 < size < capacity (vector: multiple >= 2), '
             'every element size, every default value and every push '
             'history of any length, construct-and-push never panics and never violates the precondition of an unchecked '
             'operation, and size/empty/filled/first/last/slice/vec/arr answer exactly the spec (last `size` values in push '
             'order, filled iff size <= n, empty iff n = 0, Err while not filled); c07_backends_agree / c07_backends_same_state / '
             'c07_element_size_irrelevant. Props/C07Gen.lean: gen_push_* / gen_<accessor>: what each generated function returns on '
             'a state that represents a history. '
             'The safe vector storage as it is in /repo violates the property (F1, open known finding: the repair is blocked by '
             'a repository test that pins the defective output): c07_vec_fails (witness on the generated vecPush, replayed on '
             'the real code on every run) and c07_vec_partial (histories up to the capacity).',
        note='Trusted: Lean kernel (propext, Classical.choice, Quot.sound); tools/rs2lean_window.py (grammar and guard table in '
             'its docstring: checked `-`/indexing/copy_within/assert -> panic, unchecked_sub/get_unchecked/pointer ranges/'
             'copy_nonoverlapping overlap -> ub; the 16-byte chunked copy of the unsafe array is accepted as one memmove only '
             'after its parsed byte offsets and lengths are shown to tile count*size_of::<T>() bytes) and '
             'lean/DcVerif/Model/WindowPrim.lean (outcomes, state record, memmove = what copy_within/ptr::copy do); usize '
             'arithmetic without overflow; compiled behaviour of the unsafe blocks is compared, their abstract-machine '
             'preconditions are proved for the generated model only. The generated definitions are cross-checked against the '
             'real code by the correspondence run (sizes 1..9, every capacity N+1..3N, multiples 2..4, u8/u32/u64/12-/24-byte '
             'elements, every observable after every push, up to 40*cap pushes, malformed configurations for the guards). F10 '
             '(copy_nonoverlapping on overlapping ranges in unsafe_storage_array.rs, aborts under debug assertions) is repaired '
             'by fixes/F10-window-unsafe-array.diff.',
        ref='DESIGN.md §7 C07'),
    'C19': dict(
        technique='Lean 4 proof (refinement invariant by induction over the call history) over definitions regenerated '
                  'from bit_map.rs/logarithm.rs by a translator + differential correspondence run',
        text='Theorem c19_bitmap_is_residue_set: for every power-of-two capacity 2^k (k unbounded), every set/unset history '
             'and every sequence number, the generated model of BitMap never indexes out of bounds and is_set answers '
             'exactly "last call to that residue class was a set"; corollaries: independence and commutation of distinct '
             'residues; c19_concurrent_distinct_residues: for every interleaving of two threads whose calls are atomic '
             'read-modify-writes and address disjoint residue classes, every sequence answers as if its owner had run alone (that '
             'each real call is exactly one fetch_or / fetch_and, and the final answers, are checked under the deterministic scheduler). The model is regenerated from /repo on every run (rs2lean.py bitmap, fail-closed) and additionally '
             'executed against the real BitMap on generated and exhaustive small-scope histories.',
        note='Trusted: Lean kernel (propext, Classical.choice, Quot.sound), rs2lean.py bitmap translator (~550 lines + rsblock.py; helpers inlined, constants folded under kernel control: class BitGen), '
             'size_of::<AtomicU64>()=8, sequential semantics of fetch_or/fetch_and/load (atomic RMW per word; concurrency on '
             'distinct residues is covered as commutation, not as a memory-model proof), the harness/driver pair.',
        ref='DESIGN.md §7 C19'),
}
PENDING_REASON = 'not claimed yet: model, theorems and tie are being built in the order of DESIGN.md §10; no check registered until all three exist'

def main():
    props = [json.loads(l)['id'] for l in open(os.path.join(VERIF, 'properties.jsonl'))]
    checks = []
    for pid in props:
        if pid not in CLAIMED:
            continue
        c = CLAIMED[pid]
        checks.append({
            'property_id': pid,
            'quick_cmd': f'./check {pid} quick',
            'thorough_cmd': f'./check {pid} thorough',
            'evidence_file': f'/verif/evidence/{pid}.json',
            'replay_cmd_template': f'./check {pid} --replay {{path}}',
            'engine': 'lean4-proof+correspondence',
            'level_claimed': {'category': c.get('category', 'proof'), 'text': c['text'], 'design_ref': c['ref']},
            'level_note': c['note'],
            'technique': c['technique'],
        })
    man = {
        'version': 1,
        'setup_cmd': './setup.sh',
        'hooks': {
            'guard': 'deep_causality_verif',
            'enable': "RUSTFLAGS='--cfg deep_causality_verif' cargo build --offline --manifest-path /verif/harness/Cargo.toml",
            'baseline_off_cmd': BASELINE,
            'source_commits': json.load(open(os.path.join(VERIF, 'hook_commits.json'))) if os.path.exists(os.path.join(VERIF, 'hook_commits.json')) else [],
            'add_only': True,
        },
        'engines': [{
            'name': 'lean4-proof+correspondence', 'path': '/verif/check',
            'serves_properties': [c['property_id'] for c in checks],
            'kind_free_text': 'Lean 4 theorems about executable models (lean/DcVerif), tied to /repo by a source translator '
                              '(tools/rs2lean.py) and/or a differential correspondence run (harness/ = real Rust code, '
                              'lean/Driver = compiled model + spec oracle)'}],
        'checks': checks,
        'notes': 'See DESIGN.md. Known findings: known_findings.json. Fix commits in /repo are listed there as fixed entries.',
        'not_applicable': [{'property_id': p, 'reason': PENDING_REASON} for p in props if p not in CLAIMED],
    }
    json.dump(man, open(os.path.join(VERIF, 'MANIFEST.json'), 'w'), indent=1)
    print('claimed:', [c['property_id'] for c in checks])

if __name__ == '__main__':
    main()
