#!/usr/bin/env python3
"""Self-test of the `reasoning` translator (C01, C10) on edited *copies* of the sources it reads — never touches the repo.

    python3 tools/test_rs2lean_reasoning.py [--repo /repo] [--lean] [name …]

REFUSE: edits outside the grammar — the translator must fail closed (exit 2, reason printed).
SAME:   meaning-preserving edits the symbolic execution maps to the *same* generated text.
ACCEPT: meaning-preserving edits that give a different generated text; with `--lean` the text is put in place of
        Gen/Reasoning.lean, `lake build DcVerif.Props.C01Gen` must succeed (the equality proofs absorb the difference), and the
        original file is restored afterwards.
DIFFER: semantic edits — the translator must produce a text that differs from the unedited one; with `--lean` the build of
        Props/C01Gen.lean must *fail* (a theorem breaks).
"""
import os, sys, json, shutil, subprocess, tempfile, argparse

HERE = os.path.dirname(os.path.abspath(__file__))
D = 'deep_causality/src/protocols/causable_graph/'
RE, UT, GR = D + 'graph_reasoning.rs', D + 'graph_reasoning_utils.rs', D + 'graph.rs'
IM = 'deep_causality/src/types/reasoning_types/causaloid_graph/causable_graph.rs'
FILES = (RE, UT, GR, IM)

WHILE = "        while let Some(children) = stack.last_mut() {\n            if let Some(child) = children.next() {\n"
LOOP_TAIL = ("                if child == stop_index {\n                    return Ok(true);\n                } else {\n"
             "                    stack.push(self.get_graph().outgoing_edges(child).unwrap());\n                }\n"
             "            } else {\n                stack.pop();\n            }\n        }\n")
LOOP_VERIFY = ("                let res = if cause.is_singleton() {\n                    match cause.verify_single_cause(&obs) {\n"
               "                        Ok(res) => res,\n                        Err(e) => return Err(CausalityGraphError(e.0)),\n"
               "                    }\n                } else {")
START_VERIFY = ("        let res = match cause.verify_single_cause(&obs) {\n            Ok(res) => res,\n"
                "            Err(e) => return Err(CausalityGraphError(e.0)),\n        };\n\n        if !res {\n            return Ok(false);\n        }\n\n"
                "        let mut stack")
TAIL_ALL = ("        match self.reason_from_to_cause(start_index, stop_index, data, data_index) {\n            Ok(result) => Ok(result),\n"
            "            Err(e) => Err(e),\n        }\n    }\n\n    /// Reason over a subgraph")
SUB_GUARD = ("        if self.get_last_index().is_err() {\n            return Err(CausalityGraphError(\n"
             "                \"Graph does not contains stop causaloid\".into(),\n            ));\n        }\n\n"
             "        let stop_index = self.get_last_index().expect(\"Last causaloid not found\");\n")
GETOBS_FULL = ("    let obs = if data_index.is_some() {\n        data.get(\n            *data_index\n                .unwrap()\n                .get(&cause_id)\n                .expect(\"Failed to get data index\") as usize,\n        )\n        .expect(\"Failed to get data\")\n    } else {\n        data.get(cause_id as usize).expect(\"Failed to get data\")\n    };\n")
SP_MATCH = ("        match self.get_graph().shortest_path(start_index, stop_index) {\n            Some(path) => Ok(path),\n"
            "            None => Err(CausalityGraphError(\"No path found\".to_string())),\n        }\n")
SP_FOR_VERIFY = ("            let res = match cause.verify_single_cause(&obs) {\n                Ok(res) => res,\n"
                 "                Err(e) => return Err(CausalityGraphError(e.0)),\n            };\n\n            if !res {\n"
                 "                return Ok(false);\n            }\n        }\n\n        Ok(true)\n    }\n}")
SINGLE_FOR = ("        if data.len() > 1 {\n            for obs in data.iter() {\n                if !causaloid\n"
              "                    .verify_single_cause(obs)\n                    .expect(\"Failed to verify data\")\n                {\n"
              "                    return Ok(false);\n                }\n            }\n        }\n")
ROOT_LETS = ("        let start_index = self.get_root_index().expect(\"Root causaloid not found.\");\n"
             "        let stop_index = self.get_last_index().expect(\"Last causaloid not found\");\n")
LOOP_OBS = "                let obs = graph_reasoning_utils::get_obs(cause.id(), data, &data_index);\n\n                let res = if"

REFUSE = {
    'cfg-attribute': [(RE, "    fn reason_single_cause(", "    #[cfg(not(test))]\n    fn reason_single_cause(")],
    'visited-set': [(RE, WHILE, "        let mut visited = std::collections::HashSet::new();\n        while let Some(children) = stack.last_mut() {\n"
                                "            if let Some(child) = children.next().filter(|c| visited.insert(*c)) {\n")],
    'is-active': [(RE, "let res = if cause.is_singleton() {\n                    match",
                   "let res = if cause.is_singleton() && cause.is_active() { true } else if cause.is_singleton() {\n                    match")],
    'narrowing-cast': [(UT, ".get(&cause_id)", ".get(&(cause_id as u32 as IdentificationValue))")],
    'unsigned-minus': [(UT, "data.get(cause_id as usize)", "data.get(cause_id as usize - 0)")],
    'nested-loops': [(RE, WHILE, "        while let Some(children) = stack.last_mut() {\n            for _o in data.iter() {}\n"
                                 "            if let Some(child) = children.next() {\n")],
    'while-without-fuel': [(RE, SINGLE_FOR, "        let mut it = data.iter();\n        while let Some(obs) = it.next() {\n"
                                            "            if !causaloid.verify_single_cause(obs).expect(\"x\") {\n                return Ok(false);\n            }\n        }\n")],
    'depth-bound-const': [(RE, "        let mut stack = Vec::with_capacity(self.size());",
                           "        const MAX_DEPTH: usize = 256;\n        let mut stack = Vec::with_capacity(self.size().min(MAX_DEPTH));")],
    'stack-of-tuples': [(RE, "stack.push(self.get_graph().outgoing_edges(start_index).unwrap());",
                         "stack.push((start_index, self.get_graph().outgoing_edges(start_index).unwrap()));")],
    'iterate-the-stack': [(RE, WHILE, "        for _frame in stack.iter() {}\n" + WHILE)],
    'override-in-impl': [(IM, "    fn get_graph(&self) -> &CausalGraph<T> {",
                          "    fn get_shortest_path(&self, _a: usize, _b: usize) -> Result<Vec<usize>, CausalityGraphError> {\n"
                          "        Ok(Vec::new())\n    }\n\n    fn get_graph(&self) -> &CausalGraph<T> {")],
    'vocabulary-method-with-body': [(GR, "    fn is_empty(&self) -> bool;", "    fn is_empty(&self) -> bool {\n        self.size() == 0\n    }")],
    'impl-in-file': [(UT, "pub(crate) fn get_obs", "struct Z;\nimpl Z {\n    fn f(&self) -> usize {\n        0\n    }\n}\n\npub(crate) fn get_obs")],
    'unsafe': [(UT, "    obs.to_owned()", "    unsafe { *(obs as *const NumericalValue) }")],
    'root-causaloid-direct': [(RE, "            .get_causaloid(start_index)\n", "            .get_root_causaloid()\n")],
    'for-over-live-iterator': [(RE, "        for index in shortest_path {\n", "        let mut it = shortest_path.into_iter();\n        for index in &mut it {\n")],
    'nth': [(RE, "children.next()", "children.nth(0)")],
    'recursion': [(RE, "        if self.is_empty() {\n            return Err(CausalityGraphError(\"Graph is empty\".to_string()));\n        }\n\n        if data.is_empty()",
                   "        if self.is_empty() {\n            return self.reason_from_to_cause(start_index, stop_index, data, data_index);\n        }\n\n        if data.is_empty()")],
}

SAME = {
    'unchanged': [],
    'comments-attributes': [(RE, "    fn reason_single_cause(", "    #[inline]\n    /* one node */ #[must_use]\n    fn reason_single_cause("),
                            (RE, WHILE, "        // walk\n        #[allow(clippy::while_let_loop)]\n" + WHILE)],
    'renamed-locals': [(RE, "let mut stack = Vec::with_capacity(self.size());\n        stack.push(", "let mut frontier = Vec::with_capacity(self.size());\n        frontier.push("),
                       (RE, "while let Some(children) = stack.last_mut() {\n            if let Some(child) = children.next() {",
                        "while let Some(pending) = frontier.last_mut() {\n            if let Some(child) = pending.next() {"),
                       (RE, "                    stack.push(self.get_graph().outgoing_edges(child).unwrap());", "                    frontier.push(self.get_graph().outgoing_edges(child).unwrap());"),
                       (RE, "                stack.pop();", "                frontier.pop();")],
    'tail-call': [(RE, TAIL_ALL, "        self.reason_from_to_cause(start_index, stop_index, data, data_index)\n    }\n\n    /// Reason over a subgraph")],
    'no-else-after-return': [(RE, LOOP_TAIL, LOOP_TAIL.replace("                } else {\n                    stack.push(self.get_graph().outgoing_edges(child).unwrap());\n                }\n",
                                                                "                }\n\n                stack.push(self.get_graph().outgoing_edges(child).unwrap());\n"))],
    'match-instead-of-if-let': [(RE, "            if let Some(child) = children.next() {\n", "            match children.next() {\n                Some(child) => {\n"),
                                (RE, "            } else {\n                stack.pop();\n            }\n        }\n",
                                 "            }\n                None => {\n                    stack.pop();\n                }\n            }\n        }\n")],
    'get-obs-if-let': [(UT, GETOBS_FULL, "    let obs = if let Some(index_map) = data_index {\n        data.get(*index_map.get(&cause_id).expect(\"x\") as usize).expect(\"y\")\n"
                                         "    } else {\n        data.get(cause_id as usize).expect(\"z\")\n    };\n")],
    'sub-guard-match': [(RE, SUB_GUARD, "        let stop_index = match self.get_last_index() {\n            Ok(i) => i,\n            Err(_) => return Err(CausalityGraphError(\"no stop\".into())),\n        };\n")],
    'question-mark-map-err': [(RE, SP_FOR_VERIFY, SP_FOR_VERIFY.replace(
        "            let res = match cause.verify_single_cause(&obs) {\n                Ok(res) => res,\n                Err(e) => return Err(CausalityGraphError(e.0)),\n            };\n",
        "            let res = cause.verify_single_cause(&obs).map_err(|e| CausalityGraphError(e.0))?;\n"))],
    'sp-ok-or-else': [(GR, SP_MATCH, "        self.get_graph()\n            .shortest_path(start_index, stop_index)\n            .ok_or_else(|| CausalityGraphError(\"No path found\".to_string()))\n")],
    'extracted-free-helper': [(RE, LOOP_VERIFY, "                let res = if cause.is_singleton() {\n                    verify_one(cause, &obs)?\n                } else {"),
                              (RE, "/// Describes signatures for causal reasoning", "fn verify_one<C: Causable>(cause: &C, obs: &NumericalValue) -> Result<bool, CausalityGraphError> {\n"
                               "    match cause.verify_single_cause(obs) {\n        Ok(res) => Ok(res),\n        Err(e) => Err(CausalityGraphError(e.0)),\n    }\n}\n\n/// Describes signatures for causal reasoning")],
    'extracted-default-method': [(RE, "stack.push(self.get_graph().outgoing_edges(start_index).unwrap());", "stack.push(self.children_of(start_index));"),
                                 (RE, "stack.push(self.get_graph().outgoing_edges(child).unwrap());", "stack.push(self.children_of(child));"),
                                 (RE, "    /// Reason over single node given by its index\n", "    fn children_of(&self, index: usize) -> std::vec::IntoIter<usize> {\n        self.get_graph().outgoing_edges(index).unwrap()\n    }\n\n    /// Reason over single node given by its index\n")],
    'is-some-unwrap': [(RE, "        let cause = self\n            .get_causaloid(start_index)\n            .expect(\"Failed to get causaloid\");\n",
                        "        let found = self.get_causaloid(start_index);\n        if found.is_none() {\n            panic!(\"Failed to get causaloid\");\n        }\n        let cause = found.unwrap();\n")],
}

ACCEPT = {
    'reordered-lets': [(RE, ROOT_LETS, "        let stop_index = self.get_last_index().expect(\"Last causaloid not found\");\n"
                                       "        let start_index = self.get_root_index().expect(\"Root causaloid not found.\");\n")],
    'ne-with-swapped-branches': [(RE, LOOP_TAIL, LOOP_TAIL.replace(
        "                if child == stop_index {\n                    return Ok(true);\n                } else {\n                    stack.push(self.get_graph().outgoing_edges(child).unwrap());\n                }\n",
        "                if child != stop_index {\n                    stack.push(self.get_graph().outgoing_edges(child).unwrap());\n                } else {\n                    return Ok(true);\n                }\n"))],
    'while-not-empty-unwrap': [(RE, "        while let Some(children) = stack.last_mut() {\n", "        while !stack.is_empty() {\n            let children = stack.last_mut().unwrap();\n")],
    'loop-let-else-break': [(RE, "        while let Some(children) = stack.last_mut() {\n", "        loop {\n            let Some(children) = stack.last_mut() else {\n                break;\n            };\n")],
    'len-eq-zero': [(RE, "        if data.is_empty() {\n            return Err(CausalityGraphError(\"Data are empty (len ==0).\".into()));\n        }\n\n        if !self.contains_causaloid(start_index)",
                     "        if data.len() == 0 {\n            return Err(CausalityGraphError(\"Data are empty (len ==0).\".into()));\n        }\n\n        if !self.contains_causaloid(start_index)")],
    'guards-reordered': [(RE, "        if self.is_empty() {\n            return Err(CausalityGraphError(\"Graph is empty\".to_string()));\n        }\n\n        if data.is_empty() {\n            return Err(CausalityGraphError(\"Data are empty (len ==0).\".into()));\n        }\n\n        if !self.contains_causaloid(start_index)",
                          "        if data.is_empty() {\n            return Err(CausalityGraphError(\"Data are empty (len ==0).\".into()));\n        }\n\n        if self.is_empty() {\n            return Err(CausalityGraphError(\"Graph is empty\".to_string()));\n        }\n\n        if !self.contains_causaloid(start_index)")],
    'single-for-without-len-guard': [(RE, SINGLE_FOR, "        for obs in data {\n            if !causaloid.verify_single_cause(obs).expect(\"Failed to verify data\") {\n                return Ok(false);\n            }\n        }\n")],
    'single-index-instead-of-first': [(RE, "let obs = data.first().expect(\"Failed to get data\");", "let obs = &data[0];")],
    'verdict-bound-then-tested': [(RE, START_VERIFY, START_VERIFY.replace("        if !res {\n            return Ok(false);\n        }\n", "        if res == false {\n            return Ok(false);\n        }\n"))],
    'get-obs-position-first': [(UT, GETOBS_FULL,
                                "    let position = match data_index {\n        Some(index_map) => *index_map.get(&cause_id).expect(\"Failed to get data index\") as usize,\n        None => cause_id as usize,\n    };\n\n    let obs = data.get(position).expect(\"Failed to get data\");\n")],
    'sp-guards-merged': [(RE, "        if !self.contains_causaloid(start_index) {\n            return Err(CausalityGraphError(\n                \"Graph does not contains start causaloid\".into(),\n            ));\n        }\n\n        if !self.contains_causaloid(stop_index) {",
                          "        if !self.contains_causaloid(start_index) || !self.contains_causaloid(stop_index) {")],
    'pop-and-repush': [(RE, WHILE, "        while let Some(mut children) = stack.pop() {\n            if let Some(child) = children.next() {\n                stack.push(children);\n"),
                       (RE, "            } else {\n                stack.pop();\n            }\n        }\n", "            }\n        }\n")],
    'vec-macro': [(RE, "        let mut stack = Vec::with_capacity(self.size());\n        stack.push(self.get_graph().outgoing_edges(start_index).unwrap());\n",
                   "        let mut stack = vec![self.get_graph().outgoing_edges(start_index).unwrap()];\n")],
    'pop-result-ignored-explicitly': [(RE, "                stack.pop();", "                let _ = stack.pop();")],
    'all-contains-root-via-index': [(RE, "        if !self.contains_root_causaloid() {", "        if self.get_root_index().is_none() {")],
}

DIFFER = {
    'false-child-returns-true': [(RE, "                if !res {\n                    return Ok(false);\n                }\n\n                if child == stop_index",
                                  "                if !res {\n                    return Ok(true);\n                }\n\n                if child == stop_index")],
    'start-not-checked': [(RE, "        if !res {\n            return Ok(false);\n        }\n\n        let mut stack", "        let mut stack")],
    'double-pop': [(RE, "                stack.pop();", "                stack.pop();\n                stack.pop();")],
    'obs-of-neighbour-id': [(RE, LOOP_OBS, LOOP_OBS.replace("cause.id()", "cause.id() + 1"))],
    'stale-start-observation': [(RE, "                let obs = graph_reasoning_utils::get_obs(cause.id(), data, &data_index);\n\n                let res = if", "                let res = if")],
    'error-branch-answers-false': [(RE, LOOP_VERIFY, LOOP_VERIFY.replace("Err(e) => return Err(CausalityGraphError(e.0)),", "Err(_e) => return Ok(false),"))],
    'swapped-start-stop': [(RE, TAIL_ALL, TAIL_ALL.replace("self.reason_from_to_cause(start_index, stop_index, data, data_index)", "self.reason_from_to_cause(stop_index, start_index, data, data_index)"))],
    'singleton-test-inverted': [(RE, "let res = if cause.is_singleton() {\n                    match", "let res = if !cause.is_singleton() {\n                    match")],
    'index-ignored': [(UT, "            *data_index\n                .unwrap()\n                .get(&cause_id)\n                .expect(\"Failed to get data index\") as usize,", "            cause_id as usize,")],
    'none-index-at-start': [(RE, "let obs = graph_reasoning_utils::get_obs(cause.id(), data, &data_index);\n\n        let res = match", "let obs = graph_reasoning_utils::get_obs(cause.id(), data, &None);\n\n        let res = match")],
    'push-parent-children-again': [(RE, "                    stack.push(self.get_graph().outgoing_edges(child).unwrap());", "                    stack.push(self.get_graph().outgoing_edges(child).unwrap());\n                    stack.pop();")],
    'sp-skips-stop-node': [(RE, "        for index in shortest_path {\n", "        for index in shortest_path {\n            if index == stop_index {\n                continue;\n            }\n")],
    'sp-swapped-arguments': [(GR, "shortest_path(start_index, stop_index)", "shortest_path(stop_index, start_index)")],
    'sub-from-root': [(RE, SUB_GUARD, SUB_GUARD + "        let start_index = self.get_root_index().unwrap_or(start_index);\n")],
    'single-any-instead-of-all': [(RE, "                {\n                    return Ok(false);\n                }\n            }\n        }\n\n        Ok(true)", "                {\n                    return Ok(false);\n                }\n                return Ok(true);\n            }\n        }\n\n        Ok(true)")],
    'stop-checked-before-verdict': [(RE, "                if !res {\n                    return Ok(false);\n                }\n\n                if child == stop_index {\n                    return Ok(true);\n                } else {",
                                     "                if child == stop_index {\n                    return Ok(true);\n                }\n\n                if !res {\n                    return Ok(false);\n                } else {")],
}


def run(repo, edits, out):
    tmp = tempfile.mkdtemp(prefix='rs2lean-reasoning-')
    try:
        for f in FILES:
            os.makedirs(os.path.dirname(os.path.join(tmp, f)), exist_ok=True)
            shutil.copy(os.path.join(repo, f), os.path.join(tmp, f))
        for f, old, new in edits:
            p = os.path.join(tmp, f)
            s = open(p).read()
            if s.count(old) < 1:
                return 'anchor-missing', f'{f}: {old[:60]!r}'
            open(p, 'w').write(s.replace(old, new))
        r = subprocess.run([sys.executable, os.path.join(HERE, 'rs2lean.py'), 'reasoning', '--repo', tmp, '--out', out],
                           capture_output=True, text=True)
        rep = json.loads(r.stdout)['reasoning']
        if not rep['ok']:
            return 'refused', rep['error']
        return 'ok', open(os.path.join(out, 'Reasoning.lean')).read()
    finally:
        shutil.rmtree(tmp, ignore_errors=True)


def lake_ok(text):
    gen = os.path.join(HERE, '..', 'lean', 'DcVerif', 'Gen', 'Reasoning.lean')
    open(gen, 'w').write(text)
    r = subprocess.run(['lake', 'build', 'DcVerif.Props.C01Gen'], cwd=os.path.join(HERE, '..', 'lean'), capture_output=True, text=True)
    first = next((l for l in (r.stdout + r.stderr).split('\n') if l.startswith('error:')), '')
    return r.returncode == 0, first[:200]


def main():
    ap = argparse.ArgumentParser()
    ap.add_argument('--repo', default=os.environ.get('VERIF_REPO', '/repo'))
    ap.add_argument('--lean', action='store_true')
    ap.add_argument('names', nargs='*')
    a = ap.parse_args()
    out = tempfile.mkdtemp(prefix='rs2lean-out-')
    gen = os.path.join(HERE, '..', 'lean', 'DcVerif', 'Gen', 'Reasoning.lean')
    saved = open(gen).read() if os.path.exists(gen) else None
    bad = 0
    try:
        st, base = run(a.repo, [], out)
        assert st == 'ok', base
        for group, table in (('REFUSE', REFUSE), ('SAME', SAME), ('ACCEPT', ACCEPT), ('DIFFER', DIFFER)):
            for name, edits in table.items():
                if a.names and name not in a.names:
                    continue
                st, res = run(a.repo, edits, out)
                verdict, note = 'ok', ''
                if st == 'anchor-missing':
                    verdict, note = 'BAD', 'anchor missing ' + res
                elif group == 'REFUSE':
                    verdict, note = ('ok', res[:110]) if st == 'refused' else ('BAD', 'accepted')
                elif st == 'refused':
                    verdict, note = 'BAD', 'refused: ' + res[:160]
                elif group == 'SAME':
                    same = res == base
                    note = 'same text' if same else 'different text'
                    if not same:
                        if a.lean:
                            okb, err = lake_ok(res)
                            verdict, note = ('ok', 'different text, proofs absorb it') if okb else ('BAD', 'different text; ' + err)
                        else:
                            verdict = 'BAD'
                elif group == 'ACCEPT':
                    note = 'same text' if res == base else 'different text'
                    if a.lean and res != base:
                        okb, err = lake_ok(res)
                        verdict, note = ('ok', 'proofs absorb it') if okb else ('BAD', 'proof broke: ' + err)
                else:
                    if res == base:
                        verdict, note = 'BAD', 'same text as the unedited source'
                    elif a.lean:
                        okb, err = lake_ok(res)
                        verdict, note = ('BAD', 'still proves') if okb else ('ok', 'theorem breaks: ' + err[:100])
                bad += verdict != 'ok'
                print(f'{group:7} {name:34} {verdict:4} {note}')
    finally:
        shutil.rmtree(out, ignore_errors=True)
        if a.lean and saved is not None:
            open(gen, 'w').write(saved)
    print('FAILED' if bad else 'all as expected')
    sys.exit(1 if bad else 0)


if __name__ == '__main__':
    main()
