#!/usr/bin/env python3
"""seeded.py <source dir of one seeded change> <property id> [--props Cxx,Cyy]

1. confirms the seeded change independently in a scratch worktree of /repo's HEAD (outside /repo and /verif):
   patch applies, workspace builds, the repository's 803 tests pass with it, the demonstration fails with it and passes without;
2. applies it to /repo, runs `./check <prop> quick` for the property (and any further ones given), records the verdicts,
   and restores /repo (`git checkout -- .`);
3. stores patch.diff, the demonstration and meta.json under /verif/seeded/<id>/.
The scratch worktree and its build output are removed afterwards.
"""
import sys, os, re, json, shutil, subprocess, time

VERIF = os.path.dirname(os.path.dirname(os.path.abspath(__file__)))
REPO = '/repo'
SCRATCH = '/tmp/seedverify'


def sh(cmd, cwd=None, timeout=3600, env=None):
    e = dict(os.environ, CARGO_NET_OFFLINE='true')
    if env:
        e.update(env)
    p = subprocess.run(cmd, cwd=cwd, shell=isinstance(cmd, str), capture_output=True, text=True, timeout=timeout, env=e)
    return p.returncode, p.stdout + p.stderr


def main():
    src = sys.argv[1].rstrip('/')
    prop = sys.argv[2]
    props = [prop]
    if '--props' in sys.argv:
        props = sys.argv[sys.argv.index('--props') + 1].split(',')
    sid = os.path.basename(src)
    patch = os.path.join(src, 'patch.diff')
    demo = next((os.path.join(src, f) for f in ('demo.rs',) if os.path.exists(os.path.join(src, f))), None)
    meta = {'id': sid, 'property': prop, 'checked_properties': props, 'confirmed': {}, 'detection': {}}
    notes = os.path.join(src, 'notes.md')
    if os.path.exists(notes):
        meta['needs_to_manifest'] = open(notes).read()[:3000]
    files = re.findall(r'^\+\+\+ b/(\S+)', open(patch).read(), re.M)
    meta['files'] = files
    crate = files[0].split('/')[0]
    # --- 1. independent confirmation  (SEEDED_PHASE=confirm: only this step, result kept next to the source as
    #        meta_confirm.json — it does not touch /repo; SEEDED_PHASE=detect: steps 2 and 3 with that stored result)
    phase = os.environ.get('SEEDED_PHASE', 'all')
    cfile = os.path.join(src, 'meta_confirm.json')
    if phase == 'detect':
        meta['confirmed'] = json.load(open(cfile))
    keep = os.environ.get('SEEDED_KEEP_SCRATCH') == '1'     # batches: reuse the scratch worktree's build output between changes
    if phase == 'detect':
        pass
    elif keep and os.path.exists(os.path.join(SCRATCH, '.git')):
        sh(['git', 'checkout', '--detach', '-f', sh(['git', '-C', REPO, 'rev-parse', 'HEAD'])[1].strip()], cwd=SCRATCH)
        sh(['git', 'clean', '-fd', '-e', 'target'], cwd=SCRATCH)
    else:
        sh(['git', '-C', REPO, 'worktree', 'remove', '--force', SCRATCH])
        shutil.rmtree(SCRATCH, ignore_errors=True)
        rc, out = sh(['git', '-C', REPO, 'worktree', 'add', '--detach', SCRATCH, 'HEAD'])
        assert rc == 0, out
    try:
        if phase == 'detect':
            raise StopIteration
        rc, out = sh(['git', 'apply', patch], cwd=SCRATCH)
        meta['confirmed']['applies'] = rc == 0
        if rc != 0:
            meta['confirmed']['apply_error'] = out[-500:]
        else:
            rc, out = sh('cargo build --workspace --offline 2>&1 | tail -3', cwd=SCRATCH)
            meta['confirmed']['builds'] = 'error' not in out.lower()
            rc, out = sh('cargo nextest run --workspace --no-fail-fast --offline 2>&1 | tail -3', cwd=SCRATCH)
            m = re.search(r'(\d+) tests run: (\d+) passed', out)
            meta['confirmed']['suite_with_change'] = m.group(0) if m else out[-300:]
            meta['confirmed']['suite_passes'] = bool(m) and m.group(1) == m.group(2) == '803'
            if demo:
                demo_crate = crate
                txt = open(demo).read()
                mm = re.search(r'(dcl_data_structures|deep_causality|ultragraph)/tests', txt + open(notes).read() if os.path.exists(notes) else txt)
                if mm:
                    demo_crate = mm.group(1)
                name = 'seeded_demo_' + sid.replace('-', '_').lower()
                dst = os.path.join(SCRATCH, demo_crate, 'tests', name + '.rs')
                shutil.copy(demo, dst)
                feat = ' --features unsafe' if 'feature = "unsafe"' in txt or 'UnsafeArrayStorage' in txt or 'UnsafeVectorStorage' in txt else ''
                cmd = f'timeout 600 cargo test -p {demo_crate} --test {name}{feat} --offline 2>&1 | tail -15'
                rc, out = sh(cmd, cwd=SCRATCH)
                with_fail = ('test result: FAILED' in out) or ('panicked' in out) or ('error: test failed' in out) or rc == 124 or 'timed out' in out.lower()
                meta['confirmed']['demo_with_change'] = 'FAILS' if with_fail else 'passes: ' + out[-300:]
                sh(['git', 'apply', '-R', patch], cwd=SCRATCH)
                rc, out = sh(cmd, cwd=SCRATCH)
                ok = 'test result: ok' in out and 'FAILED' not in out
                meta['confirmed']['demo_without_change'] = 'passes' if ok else 'FAILS: ' + out[-300:]
                meta['confirmed']['demo_cmd'] = cmd
    except StopIteration:
        pass
    finally:
        if phase == 'detect':
            pass
        elif keep:
            sh(['git', 'checkout', '--', '.'], cwd=SCRATCH)
            sh(['git', 'clean', '-fd', '-e', 'target'], cwd=SCRATCH)
        else:
            sh(['git', '-C', REPO, 'worktree', 'remove', '--force', SCRATCH])
            shutil.rmtree(SCRATCH, ignore_errors=True)
    if phase == 'confirm':
        json.dump(meta['confirmed'], open(cfile, 'w'), indent=1)
        print(sid, meta['confirmed'])
        return
    # --- 2. detection by the checks
    rc, out = sh(['git', '-C', REPO, 'status', '--porcelain'])
    assert out.strip() == '', '/repo is not clean: ' + out
    rc, out = sh(['git', '-C', REPO, 'apply', patch])
    if rc != 0:
        meta['detection']['apply_to_repo'] = out[-300:]
    else:
        try:
            for p in props:
                t0 = time.time()
                # the evidence file must keep describing a run on the unchanged tree: save and restore it
                evf = os.path.join(VERIF, 'evidence', f'{p}.json')
                saved = open(evf).read() if os.path.exists(evf) else None
                rc, out = sh(['./check', p, 'quick'], cwd=VERIF, timeout=3600)
                if saved is not None:
                    open(evf, 'w').write(saved)
                line = next((l for l in out.split('\n') if l.startswith('VIOLATION')), None)
                rep = None
                if line:
                    m = re.search(r'replay=(\S+)', line)
                    if m and os.path.exists(m.group(1)):
                        rj = json.load(open(m.group(1)))
                        rep = {k: rj.get(k) for k in ('kind', 'case', 'verdicts', 'theorem', 'message', 'broken_obligation')}
                        if rep.get('verdicts'):
                            rep['verdicts'] = [v[:300] for v in rep['verdicts'][:4]]
                meta['detection'][p] = {'exit': rc, 'line': (line or out.strip().split('\n')[-1])[:300], 'replay': rep,
                                        'wall_s': round(time.time() - t0, 1)}
        finally:
            sh(['git', '-C', REPO, 'checkout', '--', '.'])
            sh(['git', '-C', REPO, 'clean', '-fd', '--', 'dcl_data_structures', 'deep_causality', 'ultragraph', 'deep_causality_macros'])
    meta['caught'] = any(v.get('exit') == 1 for v in meta['detection'].values() if isinstance(v, dict))
    meta['caught_with_failing_input'] = any(isinstance(v, dict) and v.get('exit') == 1 and 'no-failing-input-found' not in v.get('line', '')
                                            for v in meta['detection'].values())
    # --- 3. keep it
    dst = os.path.join(VERIF, 'seeded', sid)
    os.makedirs(dst, exist_ok=True)
    shutil.copy(patch, os.path.join(dst, 'patch.diff'))
    if demo:
        shutil.copy(demo, os.path.join(dst, 'demo.rs'))
    if os.path.exists(notes):
        shutil.copy(notes, os.path.join(dst, 'notes.md'))
    json.dump(meta, open(os.path.join(dst, 'meta.json'), 'w'), indent=1)
    c = meta['confirmed']
    print(f"{sid}: applies={c.get('applies')} suite={c.get('suite_passes')} demo_with={str(c.get('demo_with_change'))[:12]} "
          f"demo_without={str(c.get('demo_without_change'))[:12]} | " +
          ' '.join(f"{p}:{'CAUGHT' if v.get('exit') == 1 else 'missed'}{'(no-input)' if 'no-failing-input-found' in v.get('line', '') else ''}"
                   for p, v in meta['detection'].items() if isinstance(v, dict)))


if __name__ == '__main__':
    main()
