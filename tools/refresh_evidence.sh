#!/bin/sh
# re-runs every quick check on the (clean) current tree so that the committed evidence files describe exactly such a run
cd "$(dirname "$0")/.."
test -z "$(git -C /repo status --porcelain)" || { echo "/repo is not clean"; exit 1; }
rc=0
for p in C01 C02 C03 C04 C05 C06 C07 C08 C09 C10 C11 C12 C13 C14 C15 C16 C17 C18 C19; do
  VERIF_SEED=1 VERIF_TIER=quick ./check $p quick | grep -v '^KNOWN-FINDING' | cut -c1-140 || rc=1
done
exit $rc
