"""rs2lean generator `reasoning` (C01, C10): graph reasoning -> Gen/Reasoning.lean.

Sources read (all from the *current* tree, `deep_causality/src/protocols/causable_graph/`):
    graph_reasoning_utils.rs   free function get_obs
    graph.rs                   trait CausableGraph: the default method get_shortest_path; which methods are *required* (no body)
    graph_reasoning.rs         trait CausableGraphReasoning: reason_single_cause, reason_all_causes, reason_subgraph_from_cause,
                               reason_from_to_cause, reason_shortest_path_between_causes
and `types/reasoning_types/causaloid_graph/causable_graph.rs` only to check that `CausaloidGraph` overrides no default method.

What is emitted: one Lean definition per Rust function (same names), plus one auxiliary recursive definition per loop
(`<fn>.loopN`), written against the vocabulary of the hand model (`Model/CausalGraph.lean`, `Model/ReasoningPrim.lean`):

    self.is_empty()                      nodeCount g == 0            self.size() / number_nodes()     nodeCount g
    self.contains_causaloid(i)           contains g i                self.get_causaloid(i)            getNode g i : Option Node
    self.contains_root_causaloid()       g.root is `some`            self.get_root_index()            g.root : Option Nat
    self.get_last_index()                lastIndexR g (none = Err)   self.get_graph().outgoing_edges(i)  outEdges g i (none = Err)
    self.get_graph().shortest_path(a,b)  sp a b  — `sp` is a parameter of the generated definition (what astar answers: external)
    cause.id()                           nd.id                       cause.is_singleton()             nd.isSingleton
    cause.verify_single_cause(&o)        nd.fn.apply o : V  (t/f/e = Ok(true)/Ok(false)/Err) and one event `mk i o` in the log,
                                         `i` = the index the causaloid was fetched with (`get_causaloid(i)`), `mk` a parameter
    cause.verify_all_causes(d, ix)       nd.verifyAll d ix : V (no event)
    &[NumericalValue] / Vec<usize> / IntoIter<usize>   List Nat: len is_empty first get [i] iter into_iter; `it.next()` on a
                                         mutable iterator = case split `[] | x :: xs`, the iterator becomes `xs`
    Option<&HashMap<u64,u64>>            Option (List (Nat × Nat)): get = List.lookup, contains_key = lookup is `some`
    a local Vec built by Vec::new / with_capacity / vec![] and used only through push pop last last_mut len is_empty
                                         a List whose *head is the last element pushed*; `last_mut()` yields a reference to the head
    Result<bool, _> returned             Res.ok b | Res.err | Res.panic (a reached `unwrap/expect/[i]/assert!/panic!` that fails)
    u64 / usize                          Nat, `as usize` / `as u64` the identity (no truncation on a 64-bit target), no overflow

Result types: `reason_*` return `Res × List ε` (answer and event log in program order); those that (transitively) contain a
`while`/`loop` get a `fuel` parameter and return `Option (…)`, `none` = fuel exhausted.  `get_obs` returns `Option Nat` (none =
panic), `get_shortest_path` `Option (List Nat)` (none = Err; it must not be able to panic).

Method: the bodies are parsed (rs2lean_csm's parser + `while`, `while let`, `loop`) and **symbolically executed** into a decision
tree; locals are substituted; a value that decides control flow forks the execution on the Lean term it stands for and what is
learnt is remembered along the path, so `is_some()`+`unwrap()`, `match`, `if let`, `let else`, `?`/`ok_or`/`map_err`, `contains_key`
vs `get(..).is_some()`, early return vs `else`, a tail call vs `match r { Ok(x) => Ok(x), Err(e) => Err(e) }`, renamed locals and
helpers, extracted private helper functions / non-listed default methods (inlined) and reordered independent `let`s give the same
tree.  Calls of the listed functions are calls of the generated definitions.  Loops: the transitions are *derived* by executing
one pass of the body on symbolic loop variables (every `let mut` local the body changes, and the log):
  `for x in l`       ->  `loopN … : List _ → R`, `[]` = rest of the function, `e :: rest` = the body; falling off the end /
                         `continue` = call on `rest`, `break` = rest of the function inlined, `return` = leaf;
  `while [let] / loop` -> `loopN … : Nat → <loop variables> → Option R`, `0 => none`, `fl+1 =>` one pass: the condition /
                         pattern, where it fails the rest of the function (inlined), in the body `return` = leaf, end of body /
                         `continue` = call with `fl` and the new values of the loop variables, `break` = rest of the function.
Nothing is normalised: operand order, which branch returns what, the order of events, which index a node is fetched with stay
as written; `Props/C01Gen.lean` proves the generated definitions equal to the hand model.

Fail closed (`Unsupported`; the obligations of C01 / C10 then count as broken): any construct, method, macro, type or item outside
the above; a loop inside a loop; `while`/`loop` in a function whose result has no fuel; unsigned `-`; narrowing casts; mutation
through anything but a local or a reference obtained from `last_mut()` / `&mut local`; `#[cfg]`, `unsafe`, `macro_rules!`; an `impl`
in the three files; `CausaloidGraph` overriding a default method; a required method of the vocabulary that has a body; missing /
duplicated / re-typed functions.
"""
import re
from rsexpr import Unsupported, strip_comments
from rsblock import fn_items, split_top
from rs2lean_csm import CsmParser, tokenize, strip_strings, impl_blocks

DIR = 'deep_causality/src/protocols/causable_graph/'
F_UTILS, F_GRAPH, F_REASON = DIR + 'graph_reasoning_utils.rs', DIR + 'graph.rs', DIR + 'graph_reasoning.rs'
F_IMPL = 'deep_causality/src/types/reasoning_types/causaloid_graph/causable_graph.rs'

VOCAB_SELF = ('is_empty', 'size', 'number_nodes', 'contains_causaloid', 'get_causaloid', 'contains_root_causaloid',
              'get_root_index', 'get_last_index', 'get_graph')


# ----------------------------------------------------------------------------------------------
# parser: CsmParser + while / while let / loop, attributes on statements skipped
# stmt additions: ('while', pat|None, expr, block)   ('loop', block)
# ----------------------------------------------------------------------------------------------
class RParser(CsmParser):
    def block(self):
        self.expect('{')
        saved, self.no_struct = self.no_struct, 0
        stmts, tail = [], None
        while self.peek()[1] != '}':
            if tail is not None:
                raise Unsupported('expression without `;` in the middle of a block')
            self.skip_attrs()
            kind, v = self.peek()
            if kind == 'eof':
                raise Unsupported('unterminated block')
            if v == ';':
                self.next()
            elif v == 'let':
                self.next()
                pat = self.pattern()
                ty = None
                if self.peek()[1] == ':':
                    self.next()
                    ty = self.type_text(('=', ';'))
                if self.peek()[1] != '=':
                    raise Unsupported('let without initialiser')
                self.next()
                rhs = self.expr()
                els = None
                if self.peek()[1] == 'else':
                    self.next()
                    els = self.block()
                self.expect(';')
                stmts.append(('let', pat, ty, rhs, els))
            elif v == 'for':
                self.next()
                pat = self.pattern()
                self.expect('in')
                it = self.head_expr()
                stmts.append(('for', pat, it, self.block()))
            elif v == 'while':
                self.next()
                pat = None
                if self.peek()[1] == 'let':
                    self.next()
                    pat = self.pattern()
                    if self.peek()[1] == '|':
                        raise Unsupported('or-pattern')
                    self.expect('=')
                e = self.head_expr()
                stmts.append(('while', pat, e, self.block()))
            elif v == 'loop':
                self.next()
                stmts.append(('loop', self.block()))
            elif v == 'return':
                self.next()
                e = None if self.peek()[1] in (';', '}') else self.expr()
                if self.peek()[1] == ';':
                    self.next()
                stmts.append(('return', e))
            elif kind == 'id' and v in ('fn', 'struct', 'use', 'const', 'static', 'impl', 'enum', 'type', 'trait', 'mod',
                                        'unsafe', 'async', 'macro_rules'):
                raise Unsupported(f'`{v}` statement')
            elif kind == 'life':
                raise Unsupported('labelled block / loop')
            elif v in ('if', 'match', '{'):
                e = self.atom()
                if self.peek()[1] == '}':
                    tail = e
                else:
                    if self.peek()[1] == ';':
                        self.next()
                    elif self.peek()[1] in ('.', '?'):
                        raise Unsupported('method call on a block-like expression at statement position')
                    stmts.append(('expr', e))
            else:
                e = self.expr()
                nxt = self.peek()[1]
                if nxt == '=':
                    self.next()
                    rhs = self.expr()
                    if self.peek()[1] == ';':
                        self.next()
                    elif self.peek()[1] != '}':
                        raise Unsupported('assignment not terminated')
                    stmts.append(('assign', e, rhs))
                elif nxt in ('+=', '-=', '*=', '/=', '<<=', '>>='):
                    raise Unsupported('compound assignment')
                elif nxt == ';':
                    self.next()
                    stmts.append(('expr', e))
                elif nxt == '}':
                    tail = e
                else:
                    raise Unsupported('unexpected token in statement: ' + nxt)
        self.expect('}')
        self.no_struct = saved
        return ('block', stmts, tail)


def parse_fn_body(text):
    p = RParser(tokenize('{' + text + '}'))
    b = p.block()
    if not p.at_end():
        raise Unsupported('trailing tokens after function body')
    return b


# ----------------------------------------------------------------------------------------------
# items
# ----------------------------------------------------------------------------------------------
def _match_brace(src, i):
    depth, j = 1, i + 1
    while depth:
        if j >= len(src):
            raise Unsupported('unbalanced braces')
        depth += (src[j] == '{') - (src[j] == '}')
        j += 1
    return j


def trait_blocks(src):
    """[(name, generic parameter names, body start, body end)]"""
    out = []
    for m in re.finditer(r'(?m)^[ \t]*(?:pub(?:\([^)]*\))?\s+)?(?:unsafe\s+)?trait\s+(\w+)\s*(<[^>{]*>)?', src):
        b = src.index('{', m.end())
        gens = [x.split(':')[0].strip() for x in split_top(m.group(2)[1:-1])] if m.group(2) else []
        out.append((m.group(1), [x for x in gens if x and not x.startswith("'")], b, _match_brace(src, b)))
    return out


def fn_generics(sig):
    m = re.match(r'fn\s+\w+\s*<([^()]*)>\s*\(', sig)
    if not m:
        return []
    return [x.split(':')[0].strip() for x in split_top(m.group(1)) if x.strip() and not x.strip().startswith("'")]


class Source:
    def __init__(self, repo):
        self.text = {}
        for f in (F_UTILS, F_GRAPH, F_REASON):
            s = strip_strings(strip_comments((repo / f).read_text()))
            for bad, why in ((r'#\s*!?\s*\[\s*cfg', '#[cfg]'), (r'\bmacro_rules\s*!', 'macro_rules!'), (r'\bunsafe\b', 'unsafe'),
                             (r'\binclude\s*!', 'include!'), (r'(?m)^[ \t]*(?:unsafe\s+)?impl\b', 'an `impl` item')):
                if re.search(bad, s):
                    raise Unsupported(f'{f}: {why} is outside the recognised grammar')
            self.text[f] = s
        self.methods, self.free = {}, {}
        self.declared = set()                       # required methods (declared without a body) of the two traits
        for f in (F_UTILS, F_GRAPH, F_REASON):
            src = self.text[f]
            traits = trait_blocks(src)
            want = {F_GRAPH: 'CausableGraph', F_REASON: 'CausableGraphReasoning'}.get(f)
            if [t[0] for t in traits] != ([want] if want else []):
                raise Unsupported(f'{f}: expected exactly the trait {want}' if want else f'{f}: a trait item')
            items = fn_items(src)
            for tn, gens, b, e in traits:
                for dm in re.finditer(r'\bfn\s+(\w+)', src[b:e]):
                    self.declared.add(dm.group(1))
            for it in items:
                for other in items:
                    if other is not it and other['start'] < it['start'] < other['end']:
                        raise Unsupported(f'{f}: nested fn {it["name"]}')
                owner = [t for t in traits if t[2] < it['start'] < t[3]]
                if re.search(r'\b(async|const|extern)\s+$', src[max(0, it['start'] - 30):it['start']]):
                    raise Unsupported(f'{f}: qualified fn {it["name"]}')
                gens = set(fn_generics(it['sig'])) | (set(owner[0][1]) if owner else set())
                wm = re.search(r'\bwhere\b(.*)$', it['sig'], flags=re.S)
                ps = split_top(it['params'])
                has_self, params = False, []
                for i, p in enumerate(ps):
                    if re.fullmatch(r"&\s*(?:'\w+\s+)?self", p):
                        if i != 0:
                            raise Unsupported(f'fn {it["name"]}: receiver `{p}`')
                        has_self = True
                        continue
                    if re.search(r'\bself\b', p):
                        raise Unsupported(f'fn {it["name"]}: receiver `{p}` (only `&self`)')
                    pm = re.match(r'(?:mut\s+)?([A-Za-z_]\w*)\s*:\s*(.+)$', p, flags=re.S)
                    if not pm:
                        raise Unsupported(f'fn {it["name"]}: parameter `{p}`')
                    params.append((pm.group(1), pm.group(2)))
                rec = {'name': it['name'], 'self': has_self, 'params': params, 'ret': it['ret'], 'body_text': it['body'],
                       'body': None, 'gens': gens, 'file': f, 'sig': it['sig']}
                if owner:
                    if not has_self:
                        raise Unsupported(f'{f}: associated function {it["name"]} without `&self`')
                    table = self.methods
                else:
                    if has_self:
                        raise Unsupported(f'{f}: free function with a receiver')
                    table = self.free
                if it['name'] in self.methods or it['name'] in self.free:
                    raise Unsupported(f'fn {it["name"]} defined twice')
                table[it['name']] = rec
        self.declared -= set(self.methods)
        for v in VOCAB_SELF:
            if v in self.methods:
                raise Unsupported(f'the required method `{v}` of the graph store has a default body (it is part of the assumed vocabulary)')
        # CausaloidGraph must not override what is translated here
        impl = strip_strings(strip_comments((repo / F_IMPL).read_text()))
        for trait, ty, b, e in impl_blocks(impl):
            if trait in ('CausableGraphReasoning', 'CausableGraph'):
                for dm in re.finditer(r'\bfn\s+(\w+)', impl[b:e]):
                    if dm.group(1) in self.methods:
                        raise Unsupported(f'{F_IMPL}: `impl {trait} for {ty}` overrides the default method {dm.group(1)}')

    def body(self, fn):
        if fn['body'] is None:
            fn['body'] = parse_fn_body(fn['body_text'])
        return fn['body']


# kinds: 'nat' 'obs' 'bool' 'unit' 'node' 'map' 'opaque' ('seq', cls, k) ('opt', k) ('res', k)      cls: slice | vec | iter | stk
def kind_of_type(t, gens=()):
    t = re.sub(r"'\w+\s*", '', t)
    t = re.sub(r'\bmut\b\s*', '', t).strip()
    while t.startswith('&'):
        t = t[1:].strip()
    if t == '()':
        return 'unit'
    if t.startswith('['):
        if not t.endswith(']') or ';' in t:
            raise Unsupported('type ' + t)
        return ('seq', 'slice', kind_of_type(t[1:-1], gens))
    if t.startswith('impl '):
        if re.fullmatch(r'impl\s+Causable(\s*\+\s*\w+)*', t):
            return 'node'
        raise Unsupported('type ' + t)
    m = re.match(r'([A-Za-z_][\w:]*)\s*(?:<(.*)>)?$', t, flags=re.S)
    if not m:
        raise Unsupported('type ' + t)
    name = m.group(1).split('::')[-1]
    args = [a.strip() for a in (split_top(m.group(2)) if m.group(2) else []) if a.strip() and not re.fullmatch(r"'\w+", a.strip())]
    if name in gens and not args:
        return 'node'
    if name in ('usize', 'u64', 'IdentificationValue') and not args:
        return 'nat'
    if name in ('NumericalValue', 'f64') and not args:
        return 'obs'
    if name == 'bool' and not args:
        return 'bool'
    if name == 'HashMap' and len(args) >= 2:
        if kind_of_type(args[0], gens) != 'nat' or kind_of_type(args[1], gens) != 'nat':
            raise Unsupported('map type ' + t)
        return 'map'
    if name == 'Vec' and len(args) == 1:
        return ('seq', 'vec', kind_of_type(args[0], gens))
    if name == 'IntoIter' and len(args) == 1:
        return ('seq', 'iter', kind_of_type(args[0], gens))
    if name == 'Option' and len(args) == 1:
        return ('opt', kind_of_type(args[0], gens))
    if name == 'Result' and len(args) == 2:
        return ('res', kind_of_type(args[0], gens))
    if name in ('String', 'str') or name.endswith('Error'):
        return 'opaque'
    raise Unsupported('type ' + t)


# ----------------------------------------------------------------------------------------------
# symbolic values
#   ('nat', term) ('obs', term) ('bool', b) ('sym', 'bool', term) ('unit',) ('opaque',) ('node', term, index term) ('map', term)
#   ('seq', cls, L, elem kind)  L ::= ('nil',) | ('cons', value, L) | ('t', term)
#   ('opt', 'none') ('opt', 'some', v) ('symopt', kind, term)   ('res', 'ok', v) ('res', 'err') ('symres', kind, term, lean)
#      lean = 'V' (term : V, kind bool) | 'opt' (term : Option _, none = Err)
#   ('call', fueled, term)  result of a generated `reason_*` definition   ('ref', place)  ('self',) ('ugraph',) ('closure', ps, body)
#   kind of a node inside symopt: ('node', index term)
# ----------------------------------------------------------------------------------------------
UNIT = ('unit',)
OPAQUE = ('opaque',)
MUTCLS = ('vec', 'iter', 'stk')


def ltype(k):
    if k in ('nat', 'obs'):
        return 'Nat'
    if k == 'bool':
        return 'Bool'
    if k == 'node' or (isinstance(k, tuple) and k[0] == 'node'):
        return 'Node'
    if k == 'map':
        return '(List (Nat × Nat))'
    if isinstance(k, tuple) and k[0] == 'seq':
        return f'(List {ltype(k[2])})'
    if isinstance(k, tuple) and k[0] == 'opt':
        return f'(Option {ltype(k[1])})'
    raise Unsupported(f'no Lean type for kind {k}')


PREFIX = {'nat': 'n', 'obs': 'o', 'bool': 'b', 'node': 'nd', 'map': 'm'}


def prefix_of(k):
    if isinstance(k, tuple):
        return {'node': 'nd', 'seq': 'l', 'opt': 'w'}.get(k[0], 'v')
    return PREFIX.get(k, 'v')


def mkval(k, term):
    if k in ('nat', 'obs', 'map'):
        return (k, term)
    if k == 'bool':
        return ('sym', 'bool', term)
    if k == 'unit':
        return UNIT
    if k == 'opaque':
        return OPAQUE
    if isinstance(k, tuple):
        if k[0] == 'node':
            return ('node', term, k[1])
        if k[0] == 'seq':
            return ('seq', k[1], ('t', term), k[2])
        if k[0] == 'opt':
            return ('symopt', k[1], term)
        if k[0] == 'res':
            return ('symres', k[1], term, 'opt')
    raise Unsupported(f'cannot make a symbolic value of kind {k}')


def kind_of(v):
    t = v[0]
    if t in ('nat', 'obs', 'map'):
        return t
    if t == 'bool' or t == 'sym':
        return 'bool'
    if t == 'unit':
        return 'unit'
    if t == 'opaque':
        return 'opaque'
    if t == 'node':
        return ('node', v[2])
    if t == 'seq':
        return ('seq', v[1], v[3])
    if t == 'symopt':
        return ('opt', v[1])
    if t == 'opt' and v[1] == 'some':
        return ('opt', kind_of(v[2]))
    raise Unsupported(f'the kind of a {t} value is not determined here')


def rL(L):
    if L[0] == 'nil':
        return '[]'
    if L[0] == 't':
        return L[1]
    return f'({rv(L[1])} :: {rL(L[2])})'


def rv(v):
    t = v[0]
    if t in ('nat', 'obs', 'map'):
        return v[1]
    if t == 'bool':
        return 'true' if v[1] else 'false'
    if t == 'sym':
        return v[2]
    if t == 'node':
        return v[1]
    if t == 'seq':
        return rL(v[2])
    if t == 'symopt':
        return v[2]
    if t == 'opt':
        return 'none' if v[1] == 'none' else f'(some {rv(v[2])})'
    raise Unsupported(f'a {t} value cannot be rendered as a Lean term here')


class St:
    __slots__ = ('env', 'log', 'known', 'scope', 'nloops', 'nbound', 'muts')

    def __init__(self):
        self.env = [{}]
        self.log = (None, ())       # (base variable | None, items): item = ('ev', text) | ('seq', term)
        self.known = {}             # Lean term -> constructor-form value it has on this path
        self.scope = []             # (Lean variable, Lean type) in scope, in order of introduction
        self.nloops = 0
        self.nbound = 0
        self.muts = set()           # (frame index, name) of `let mut` locals

    def copy(self):
        s = St()
        s.env = [dict(f) for f in self.env]
        s.log, s.known, s.scope = self.log, dict(self.known), list(self.scope)
        s.nloops, s.nbound, s.muts = self.nloops, self.nbound, set(self.muts)
        return s

    def fresh(self, kind):
        """a new bound variable (the state must be a private copy)"""
        self.nbound += 1
        name = f'{prefix_of(kind)}{self.nbound}'
        self.scope.append((name, ltype(kind)))
        return name

    def emit(self, item):
        self.log = (self.log[0], self.log[1] + (item,))


def render_log(log):
    base, items = log
    parts, cur = ([base] if base else []), []
    for it in items:
        if it[0] == 'ev':
            cur.append(it[1])
        else:
            if cur:
                parts.append('[' + ', '.join(cur) + ']')
                cur = []
            parts.append(it[1])
    if cur:
        parts.append('[' + ', '.join(cur) + ']')
    if not parts:
        return '[]'
    return parts[0] if len(parts) == 1 else '(' + ' ++ '.join(parts) + ')'


def leaf(v, st, flow='normal'):
    return ('leaf', flow, v, st)


def then(tree, f):
    """continue every leaf that falls through (`normal`) with f(value, state)"""
    k = tree[0]
    if k == 'leaf':
        return f(tree[2], tree[3]) if tree[1] == 'normal' else tree
    if k == 'match':
        return ('match', tree[1], [(p, then(t, f)) for p, t in tree[2]])
    if k == 'if':
        return ('if', tree[1], then(tree[2], f), then(tree[3], f))
    info = dict(tree[1])
    info['body'] = then(info['body'], f)
    if info['nil'] is not None:
        info['nil'] = then(info['nil'], f)
    return ('loop', info)


def map_leaves(tree, f):
    k = tree[0]
    if k == 'leaf':
        return f(tree)
    if k == 'match':
        return ('match', tree[1], [(p, map_leaves(t, f)) for p, t in tree[2]])
    if k == 'if':
        return ('if', tree[1], map_leaves(tree[2], f), map_leaves(tree[3], f))
    info = dict(tree[1])
    info['body'] = map_leaves(info['body'], f)
    if info['nil'] is not None:
        info['nil'] = map_leaves(info['nil'], f)
    return ('loop', info)


LEAN_RESERVED = {'at', 'from', 'end', 'in', 'do', 'then', 'else', 'if', 'let', 'have', 'show', 'fun', 'by', 'with', 'match', 'def',
                 'theorem', 'where', 'open', 'namespace', 'section', 'structure', 'instance', 'class', 'Type', 'Prop', 'Sort',
                 'return', 'for', 'mut', 'import', 'deriving', 'example', 'variable', 'universe', 'abbrev', 'inductive', 'using',
                 'calc', 'suffices', 'obtain', 'forall', 'exists', 'macro', 'syntax', 'some', 'none', 'true', 'false',
                 'List', 'Option', 'Nat', 'Bool', 'Prod', 'decide', 'not', 'id', 'Unit', 'mk', 'g', 'sp', 'fuel', 'fl', 'lg',
                 # names of the opened model namespace and of the generated definitions
                 'V', 'Res', 'Node', 'CG', 'Fn', 'Op', 'out', 'contains', 'getNode', 'nodeCount', 'lastIndex', 'lastIndexR',
                 'outEdges', 'getObs', 'obsAt', 'evalAt', 'weight', 'step', 'build', 'decode', 'addNode', 'addRoot', 'addEdge',
                 'hasEdge', 'containsEdge', 'loopT', 'reasonFromTo', 'reasonAll', 'reasonSub', 'singleLoop', 'reasonSingle',
                 'pathEval', 'reasonShortest', 'setFlag', 'applyVerdict', 'applyLog', 'get_obs', 'get_shortest_path',
                 'reason_single_cause', 'reason_all_causes', 'reason_subgraph_from_cause', 'reason_from_to_cause',
                 'reason_shortest_path_between_causes'}
CANON = re.compile(r'(nd|n|o|b|m|l|w|v|x|xs|e|rest|c|lg|q)\d+(_\d+)?')


def lean_name(n):
    return n + '_' if n in LEAN_RESERVED or CANON.fullmatch(n) else n


# ----------------------------------------------------------------------------------------------
# the symbolic executor
# ----------------------------------------------------------------------------------------------
MAX_INLINE = 8
MAX_LEAVES = 3000
BARRIER = '__barrier__'
IDENT_METHODS = ('clone', 'to_owned', 'copied', 'cloned', 'as_ref', 'borrow', 'to_vec', 'as_slice')


class Exec:
    def __init__(self, gen, root):
        self.gen, self.src, self.root = gen, gen.src, root
        self.fname = root['name']
        self.inline = []
        self.loopdepth = 0
        self.nlid = 0
        self.nleaves = 0

    def bad(self, msg):
        return Unsupported(f'{self.fname}: {msg}')

    # ---- frames, places ------------------------------------------------------------------------
    def find(self, st, name):
        for i in range(len(st.env) - 1, -1, -1):
            if name in st.env[i]:
                return i
            if BARRIER in st.env[i]:
                return None
        return None

    def canon_place(self, place, st):
        kind, fi, name = place
        v = st.env[fi][name]
        if v[0] == 'ref':
            inner = self.canon_place(v[1], st)
            if kind == 'var':
                return inner
            if inner[0] == 'var':
                return ('top', inner[1], inner[2])
            raise self.bad('a reference into an element of an element')
        return place

    def read_place(self, place, st):
        kind, fi, name = self.canon_place(place, st)
        v = st.env[fi][name]
        if kind == 'var':
            return v
        if v[0] != 'seq' or v[2][0] != 'cons':
            raise self.bad('a reference to the top of a stack that is not known to be non-empty')
        return v[2][1]

    def write_place(self, place, val, st):
        kind, fi, name = self.canon_place(place, st)
        if (fi, name) not in st.muts:
            raise self.bad(f'mutation of `{name}`, which is not a `let mut` local')
        if kind == 'var':
            st.env[fi][name] = val
            return
        v = st.env[fi][name]
        if v[0] != 'seq' or v[2][0] != 'cons':
            raise self.bad('a write to the top of a stack that is not known to be non-empty')
        st.env[fi][name] = ('seq', v[1], ('cons', val, v[2][2]), v[3])

    def deref(self, v, st):
        while v[0] == 'ref':
            v = self.read_place(v[1], st)
        return v

    def place_of(self, e, st):
        while e[0] in ('paren', 'ref', 'deref'):
            e = e[1]
        if e[0] == 'path' and len(e[1]) == 1:
            fi = self.find(st, e[1][0])
            if fi is not None:
                v = st.env[fi][e[1][0]]
                return self.canon_place(v[1] if v[0] == 'ref' else ('var', fi, e[1][0]), st)
        return None

    def eval_list(self, es, st, k, acc=()):
        if not es:
            return k(list(acc), st)
        return then(self.eval(es[0], st), lambda v, s: self.eval_list(es[1:], s, k, acc + (v,)))

    # ---- forcing -------------------------------------------------------------------------------
    def count(self):
        self.nleaves += 1
        if self.nleaves > MAX_LEAVES:
            raise self.bad('decision tree too large')

    def force(self, v, st):
        t = v[0]
        if t == 'ref':
            return self.force(self.deref(v, st), st)
        if t == 'sym':
            term = v[2]
            if term in st.known:
                return leaf(st.known[term], st)
            self.count()

            def br(val):
                s = st.copy()
                s.known[term] = val
                return leaf(val, s)
            return ('if', term, br(('bool', True)), br(('bool', False)))
        if t == 'symopt':
            term = v[2]
            if term in st.known:
                return leaf(st.known[term], st)
            self.count()
            s0 = st.copy()
            s0.known[term] = ('opt', 'none')
            s1 = st.copy()
            var = s1.fresh(v[1])
            val = ('opt', 'some', mkval(v[1], var))
            s1.known[term] = val
            return ('match', term, [('none', leaf(('opt', 'none'), s0)), (f'some {var}', leaf(val, s1))])
        if t == 'symres':
            term = v[2]
            if term in st.known:
                return leaf(st.known[term], st)
            self.count()
            arms = []
            if v[3] == 'V':
                for pat, val in (('V.t', ('res', 'ok', ('bool', True))), ('V.f', ('res', 'ok', ('bool', False))), ('V.e', ('res', 'err'))):
                    s = st.copy()
                    s.known[term] = val
                    arms.append((pat, leaf(val, s)))
            else:
                s0 = st.copy()
                s0.known[term] = ('res', 'err')
                s1 = st.copy()
                var = s1.fresh(v[1])
                val = ('res', 'ok', mkval(v[1], var))
                s1.known[term] = val
                arms = [('none', leaf(('res', 'err'), s0)), (f'some {var}', leaf(val, s1))]
            return ('match', term, arms)
        return leaf(v, st)

    def force_list(self, L, ek, st):
        """-> leaves ('L', concrete L)"""
        if L[0] != 't':
            return leaf(('L', L), st)
        term = L[1]
        if term in st.known:
            return leaf(('L', st.known[term]), st)
        if ek is None:
            raise self.bad('a list whose element type is not known')
        self.count()
        s0 = st.copy()
        s0.known[term] = ('nil',)
        s1 = st.copy()
        h = s1.fresh(ek)
        tl = s1.fresh(('seq', 'x', ek))
        val = ('cons', mkval(ek, h), ('t', tl))
        s1.known[term] = val
        return ('match', term, [('[]', leaf(('L', ('nil',)), s0)), (f'{h} :: {tl}', leaf(('L', val), s1))])

    def eval_bool(self, e, st):
        def chk(v, s):
            if v[0] != 'bool':
                raise self.bad(f'a bool was expected, got {v[0]}')
            return leaf(v, s)
        return then(then(self.eval(e, st), self.force), chk)

    def panic(self, st):
        return leaf(UNIT, st, 'panic')

    # ---- patterns ------------------------------------------------------------------------------
    def match_pat(self, pat, v, st):
        k = pat[0]
        if k == 'wild':
            return leaf(('bool', True), st)
        if k == 'bind':
            if v[0] in ('self', 'ugraph', 'closure'):
                raise self.bad(f'a {v[0]} bound to a local')
            st = st.copy()
            st.env[-1][pat[1]] = v
            st.muts.discard((len(st.env) - 1, pat[1]))
            if len(pat) > 2:
                st.muts.add((len(st.env) - 1, pat[1]))
            return leaf(('bool', True), st)
        if k == 'tuple':
            v = self.deref(v, st)
            if v[0] == 'unit' and not pat[1]:
                return leaf(('bool', True), st)
            if v[0] != 'tuple' or len(v[1]) != len(pat[1]):
                raise self.bad(f'tuple pattern against {v[0]}')

            def go(i, s):
                if i == len(pat[1]):
                    return leaf(('bool', True), s)
                return then(self.match_pat(pat[1][i], v[1][i], s),
                            lambda m, s2: go(i + 1, s2) if m[1] else leaf(('bool', False), s2))
            return go(0, st)
        if k in ('ctor', 'none', 'lit'):
            def on(cv, s):
                if k == 'lit':
                    if cv[0] != 'bool':
                        raise self.bad('literal pattern against ' + cv[0])
                    return leaf(('bool', cv[1] == pat[1]), s)
                if k == 'none':
                    if cv[0] != 'opt':
                        raise self.bad('`None` pattern against ' + cv[0])
                    return leaf(('bool', cv[1] == 'none'), s)
                want = {'Some': ('opt', 'some'), 'Ok': ('res', 'ok'), 'Err': ('res', 'err')}[pat[1]]
                if cv[0] != want[0]:
                    raise self.bad(f'`{pat[1]}(..)` pattern against {cv[0]}')
                if cv[1] != want[1]:
                    return leaf(('bool', False), s)
                return self.match_pat(pat[2], cv[2] if want[1] != 'err' else OPAQUE, s)
            return then(self.force(v, st), on)
        raise self.bad('pattern ' + k)

    def bind_irrefutable(self, pat, v, st):
        def chk(m, s):
            if not m[1]:
                raise self.bad('refutable pattern where an irrefutable one is needed')
            return leaf(UNIT, s)
        return then(self.match_pat(pat, v, st), chk)

    # ---- blocks and statements -----------------------------------------------------------------
    def exec_block(self, blk, st):
        if blk[0] != 'block':
            return self.eval(blk, st)
        st = st.copy()
        st.env.append({})
        depth = len(st.env)
        stmts, tail = blk[1], blk[2]

        def end(v, s):
            s = s.copy()
            s.env = s.env[:depth - 1]
            s.muts = {m for m in s.muts if m[0] < depth - 1}
            if v[0] == 'ref' and v[1][1] >= depth - 1:
                raise self.bad('a reference escapes the block of its referent')
            return leaf(v, s)

        def run(i, s):
            if i == len(stmts):
                if tail is None:
                    return end(UNIT, s)
                return then(self.eval(tail, s), end)
            return then(self.exec_stmt(stmts[i], s), lambda _, s2: run(i + 1, s2))
        return run(0, st)

    def exec_stmt(self, stmt, st):
        k = stmt[0]
        if k == 'let':
            _, pat, ty, rhs, els = stmt

            def bound(v, s):
                if v[0] == 'seq' and v[3] is None and ty:
                    try:
                        kk = kind_of_type(ty, self.root['gens'])
                        if isinstance(kk, tuple) and kk[0] == 'seq':
                            v = ('seq', v[1], v[2], kk[2])
                    except Unsupported:
                        pass
                if els is None:
                    return self.bind_irrefutable(pat, v, s)

                def on(m, s2):
                    if m[1]:
                        return leaf(UNIT, s2)

                    def fell(_, s3):
                        raise self.bad('the `else` block of a `let … else` falls through')
                    return then(self.exec_block(els, s2), fell)
                return then(self.match_pat(pat, v, s), on)
            return then(self.eval(rhs, st), bound)
        if k == 'expr':
            return then(self.eval(stmt[1], st), lambda _, s: leaf(UNIT, s))
        if k == 'return':
            if stmt[1] is None:
                return leaf(UNIT, st, 'return')
            return then(self.eval(stmt[1], st), lambda v, s: leaf(v, s, 'return'))
        if k == 'assign':
            place_e, rhs = stmt[1], stmt[2]

            def store(v, s):
                target = place_e
                through = False
                while target[0] in ('paren', 'deref'):
                    through = through or target[0] == 'deref'
                    target = target[1]
                if target[0] != 'path' or len(target[1]) != 1:
                    raise self.bad('assignment to a place outside the recognised grammar')
                fi = self.find(s, target[1][0])
                if fi is None:
                    raise self.bad(f'assignment to `{target[1][0]}`')
                cur = s.env[fi][target[1][0]]
                s = s.copy()
                if cur[0] == 'ref':
                    if not through:
                        raise self.bad('re-binding of a reference')
                    self.write_place(cur[1], v, s)
                else:
                    if through:
                        raise self.bad('assignment through something that is not a reference')
                    self.write_place(('var', fi, target[1][0]), v, s)
                return leaf(UNIT, s)
            return then(self.eval(rhs, st), store)
        if k == 'for':
            return then(self.eval(stmt[2], st), lambda itv, s: self.for_loop(stmt[1], itv, stmt[3], s))
        if k in ('while', 'loop'):
            return self.while_loop(stmt, st)
        raise self.bad('statement ' + k)

    # ---- loops ---------------------------------------------------------------------------------
    def loop_candidates(self, st):
        cands = [('log',)]
        for fi, name in sorted(st.muts):
            if fi < len(st.env) and name in st.env[fi] and st.env[fi][name][0] != 'ref':
                cands.append(('var', fi, name))
        return cands

    def loop_head(self, st, cands, d):
        head = st.copy()
        head.nloops = d
        params, nvar = [], 0
        for c in cands:
            if c[0] == 'log':
                name, kind, init = 'lg' + ('' if d == 1 else str(d)), 'log', render_log(st.log)
                head.log = (name, ())
                pv = None
                lty = 'List ε'
            else:
                nvar += 1
                name = f'c{nvar}' if d == 1 else f'c{d}_{nvar}'
                old = st.env[c[1]][c[2]]
                kind = kind_of(old)
                if isinstance(kind, tuple) and kind[0] == 'seq' and kind[2] is None:
                    raise self.bad(f'the element type of `{c[2]}` is not known at the loop')
                init = rv(old)
                pv = mkval(kind, name)
                head.env[c[1]][c[2]] = pv
                lty = ltype(kind)
            head.scope.append((name, lty))
            params.append((c, name, kind, init, pv, lty))
        return head, params

    def close_loop(self, tree, head, params, cands, lid):
        changed = {c: False for c in cands}

        def to_next(lf):
            if lf[1] == 'break':
                s = lf[3].copy()
                s.env = s.env[:len(head.env)]
                s.muts = {m for m in s.muts if m[0] < len(head.env)}
                return ('leaf', 'normal', UNIT, s)
            if lf[1] not in ('normal', 'continue'):
                return lf
            s = lf[3]
            args = []
            for c, name, kind, init, pv, lty in params:
                if c[0] == 'log':
                    a, same = render_log(s.log), s.log == (name, ())
                else:
                    cur = s.env[c[1]][c[2]]
                    a, same = rv(cur), cur == pv
                if not same:
                    changed[c] = True
                args.append(a)
            return ('leaf', 'next', (lid, args), s)
        tree = map_leaves(tree, to_next)
        return tree, [c for c in cands if changed[c]]

    def for_loop(self, pat, itv, body, st):
        if itv[0] == 'ref':
            raise self.bad('`for` over a mutable iterator that stays alive (what the loop consumes would have to be written back)')
        itv = self.deref(itv, st)
        if itv[0] != 'seq' or itv[1] == 'stk':
            raise self.bad(f'`for` over a {itv[0]}' + (' (a locally built stack: the order is the reverse)' if itv[0] == 'seq' else ''))
        if self.loopdepth:
            raise self.bad('a loop nested in a loop is outside the recognised grammar')
        ek = itv[3]
        if ek is None:
            raise self.bad('`for` over a list whose element type is not known')
        d = st.nloops + 1
        self.nlid += 1
        lid = self.nlid
        evar, rest = f'e{d}', f'rest{d}'
        cands = self.loop_candidates(st)
        while True:
            head, params = self.loop_head(st, cands, d)
            b = head.copy()
            b.scope.append((evar, ltype(ek)))
            b.env.append({})
            self.loopdepth += 1
            try:
                tree = then(self.bind_irrefutable(pat, mkval(ek, evar), b), lambda _, s2: self.exec_block(body, s2))
            finally:
                self.loopdepth -= 1
            tree, keep = self.close_loop(tree, head, params, cands, lid)
            if keep == cands:
                break
            cands = keep
        info = {'kind': 'for', 'lid': lid, 'fixed': list(st.scope), 'carried': [(n, lty, i) for _, n, _, i, _, lty in params],
                'list': rL(itv[2]), 'elem': (evar, ltype(ek)), 'rest': rest, 'body': tree, 'nil': leaf(UNIT, head.copy())}
        return ('loop', info)

    def while_loop(self, stmt, st):
        if self.root['role'] != 'res' or not self.root['fueled']:
            raise self.bad('a `while`/`loop` in a function whose generated result type carries no fuel')
        if self.loopdepth:
            raise self.bad('a loop nested in a loop is outside the recognised grammar')
        d = st.nloops + 1
        self.nlid += 1
        lid = self.nlid
        cands = self.loop_candidates(st)
        while True:
            head, params = self.loop_head(st, cands, d)
            b = head.copy()
            b.env.append({})
            self.loopdepth += 1
            try:
                if stmt[0] == 'loop':
                    tree = self.exec_block(stmt[1], b)
                elif stmt[1] is None:
                    tree = then(self.eval_bool(stmt[2], b),
                                lambda c, s: self.exec_block(stmt[3], s) if c[1] else leaf(UNIT, s, 'break'))
                else:
                    tree = then(self.eval(stmt[2], b), lambda v, s: then(
                        self.match_pat(stmt[1], v, s),
                        lambda m, s2: self.exec_block(stmt[3], s2) if m[1] else leaf(UNIT, s2, 'break')))
            finally:
                self.loopdepth -= 1
            tree, keep = self.close_loop(tree, head, params, cands, lid)
            if keep == cands:
                break
            cands = keep
        info = {'kind': 'while', 'lid': lid, 'fixed': list(st.scope), 'carried': [(n, lty, i) for _, n, _, i, _, lty in params],
                'body': tree, 'nil': None}
        return ('loop', info)

    # ---- expressions ---------------------------------------------------------------------------
    def eval(self, e, st):
        k = e[0]
        if k == 'num':
            return leaf(('nat', str(e[1])), st)
        if k == 'unit':
            return leaf(UNIT, st)
        if k == 'paren':
            return self.eval(e[1], st)
        if k == 'ref':
            inner = e[1]
            while inner[0] in ('paren', 'deref'):        # `&mut *r` re-borrows what `r` refers to
                inner = inner[1]
            if inner[0] == 'path' and len(inner[1]) == 1:
                fi = self.find(st, inner[1][0])
                if fi is not None:
                    v = st.env[fi][inner[1][0]]
                    if v[0] == 'ref':
                        return leaf(v, st)
                    if v[0] == 'seq' and v[1] in MUTCLS:
                        return leaf(('ref', ('var', fi, inner[1][0])), st)
            return self.eval(e[1], st)
        if k == 'deref':
            return then(self.eval(e[1], st), lambda v, s: leaf(self.deref(v, s), s))
        if k == 'path':
            return self.eval_path(e[1], st)
        if k == 'tuple':
            return self.eval_list(e[1], st, lambda vs, s: leaf(('tuple', tuple(vs)), s))
        if k == 'not':
            return then(self.eval_bool(e[1], st), lambda v, s: leaf(('bool', not v[1]), s))
        if k == 'bin':
            return self.eval_bin(e[1], e[2], e[3], st)
        if k == 'cast':
            def cast(v, s):
                v = self.deref(v, s)
                if v[0] == 'nat' and e[2] in ('usize', 'u64', 'IdentificationValue', 'u128'):
                    return leaf(v, s)
                raise self.bad(f'cast of {v[0]} to {e[2]}')
            return then(self.eval(e[1], st), cast)
        if k == 'field':
            def fld(v, s):
                v = self.deref(v, s)
                if v[0] == 'opaque':
                    return leaf(OPAQUE, s)
                if v[0] == 'tuple' and e[2].isdigit() and int(e[2]) < len(v[1]):
                    return leaf(v[1][int(e[2])], s)
                raise self.bad(f'field .{e[2]} of {v[0]}')
            return then(self.eval(e[1], st), fld)
        if k == 'index':
            def idx(vs, s):
                base, i = self.deref(vs[0], s), self.deref(vs[1], s)
                if base[0] != 'seq' or base[1] == 'stk' or i[0] != 'nat':
                    raise self.bad(f'indexing of {base[0]} by {i[0]}')
                return self.unwrap(('symopt', base[3], f'{rL(base[2])}[{i[1]}]?'), s)
            return self.eval_list([e[1], e[2]], st, idx)
        if k == 'call':
            return self.eval_call(e[1], e[2], st)
        if k == 'mcall':
            if '::' in e[2]:
                raise self.bad('turbofish on a method')
            return then(self.eval(e[1], st), lambda v, s: self.method(v, e[2], e[3], s, e))
        if k == 'macro':
            return self.eval_macro(e[1].split('::')[-1], e[2], st)
        if k == 'if':
            return then(self.eval_bool(e[1], st),
                        lambda c, s: self.exec_block(e[2], s) if c[1] else (self.exec_block(e[3], s) if e[3] is not None else leaf(UNIT, s)))
        if k == 'iflet':
            def scrut(v, s):
                s = s.copy()
                s.env.append({})
                depth = len(s.env)

                def pop(v2, s2):
                    s2 = s2.copy()
                    s2.env = s2.env[:depth - 1]
                    return leaf(v2, s2)

                def on(m, s2):
                    if m[1]:
                        return then(self.exec_block(e[3], s2), pop)
                    return then(self.exec_block(e[4], s2) if e[4] is not None else leaf(UNIT, s2), pop)
                return then(self.match_pat(e[1], v, s), on)
            return then(self.eval(e[2], st), scrut)
        if k == 'match':
            def scrut(v, s):
                s = s.copy()
                s.env.append({})
                depth = len(s.env)

                def pop(v2, s2):
                    s2 = s2.copy()
                    s2.env = s2.env[:depth - 1]
                    return leaf(v2, s2)

                def arm(i, s2):
                    if i == len(e[2]):
                        raise self.bad('no arm of the `match` applies on a path')
                    pat, body = e[2][i]
                    s3 = s2.copy()
                    s3.env[-1] = {}
                    return then(self.match_pat(pat, v, s3),
                                lambda m, s4: then(self.exec_block(body, s4), pop) if m[1] else arm(i + 1, s4))
                return arm(0, s)
            return then(self.eval(e[1], st), scrut)
        if k == 'block':
            return self.exec_block(e, st)
        if k == 'try':
            def q(v, s):
                if v[0] == 'res':
                    return leaf(v[2], s) if v[1] == 'ok' else leaf(('res', 'err'), s, 'return')
                if v[0] == 'opt':
                    return leaf(v[2], s) if v[1] == 'some' else leaf(('opt', 'none'), s, 'return')
                raise self.bad('`?` on ' + v[0])
            return then(then(self.eval(e[1], st), self.force), q)
        if k == 'return_expr':
            if e[1] is None:
                return leaf(UNIT, st, 'return')
            return then(self.eval(e[1], st), lambda v, s: leaf(v, s, 'return'))
        if k == 'jump':
            if not self.loopdepth:
                raise self.bad(f'`{e[1]}` outside a loop')
            return leaf(UNIT, st, e[1])
        if k == 'closure':
            return leaf(('closure', e[1], e[2]), st)
        raise self.bad('expression form ' + k)

    def eval_path(self, p, st):
        if len(p) == 1:
            n = p[0]
            if n in ('true', 'false'):
                return leaf(('bool', n == 'true'), st)
            if n == '__str':
                return leaf(OPAQUE, st)
            fi = self.find(st, n)
            if fi is not None:
                return leaf(st.env[fi][n], st)
        if p[-1] == 'None' and all(x in ('Option', 'std', 'core', 'option') for x in p[:-1]):
            return leaf(('opt', 'none'), st)
        if p[-1] in self.src.free and all(re.fullmatch(r'[a-z_][a-z_0-9]*|crate|self|super', x) for x in p[:-1]) \
                and not self.gen.is_root(p[-1]):
            # a free helper function passed by name (`map_err(into_graph_error)`): the closure `|x| helper(x)`
            fn = self.src.free[p[-1]]
            n = len(fn.get('params_list', [])) if 'params_list' in fn else None
            if n in (None, 1):
                return leaf(('closure', [('bind', '__eta', False)], ('call', ('path', [p[-1]]), [('path', ['__eta'])])), st)
        raise self.bad('name `' + '::'.join(p) + '` is not a local, parameter or recognised constant')

    def eval_bin(self, op, a, b, st):
        if op in ('&&', '||'):
            def lhs(v, s):
                if (op == '&&') != v[1]:
                    return leaf(v, s)
                return self.eval_bool(b, s)
            return then(self.eval_bool(a, st), lhs)

        def both(vs, s):
            x, y = self.deref(vs[0], s), self.deref(vs[1], s)
            if x[0] == 'nat' and y[0] == 'nat':
                if op in ('+', '*'):
                    return leaf(('nat', f'({x[1]} {op} {y[1]})'), s)
                if op in ('==', '!='):
                    return leaf(('sym', 'bool', f'({x[1]} {op} {y[1]})'), s)
                if op in ('<', '<=', '>', '>='):
                    return leaf(('sym', 'bool', f'(decide ({x[1]} {op} {y[1]}))'), s)
                raise self.bad(f'operator {op} on unsigned integers')
            if op in ('==', '!=') and x[0] in ('bool', 'sym') and y[0] in ('bool', 'sym'):
                return then(self.force(x, s), lambda cx, s2: then(self.force(y, s2), lambda cy, s3: leaf(
                    ('bool', (cx[1] == cy[1]) == (op == '==')), s3)))
            raise self.bad(f'operator {op} on {x[0]} and {y[0]}')
        return self.eval_list([a, b], st, both)

    def eval_macro(self, name, args, st):
        if name == 'format':
            return self.eval_list(args, st, lambda vs, s: leaf(OPAQUE, s))
        if name in ('panic', 'unreachable', 'unimplemented', 'todo'):
            return self.eval_list(args, st, lambda vs, s: self.panic(s))
        if name in ('assert', 'debug_assert') and args:
            return then(self.eval_bool(args[0], st), lambda c, s: leaf(UNIT, s) if c[1] else self.panic(s))
        if name in ('assert_eq', 'debug_assert_eq', 'assert_ne', 'debug_assert_ne') and len(args) >= 2:
            op = '==' if name.endswith('_eq') else '!='
            return then(self.eval_bool(('bin', op, args[0], args[1]), st), lambda c, s: leaf(UNIT, s) if c[1] else self.panic(s))
        if name == 'vec':
            def mk(vs, s):
                L, ek = ('nil',), None
                for v in vs:                               # the last element of the literal is the top
                    v = self.deref(v, s)
                    L, ek = ('cons', v, L), self.elem_kind(v)
                return leaf(('seq', 'stk', L, ek), s)
            return self.eval_list(args, st, mk)
        raise self.bad(f'macro {name}!')

    def elem_kind(self, v):
        k = kind_of(v)
        if isinstance(k, tuple) and k[0] == 'node':
            raise self.bad('a collection of causaloids')
        return k

    # ---- Option / Result -----------------------------------------------------------------------
    def unwrap(self, v, st):
        def on(c, s):
            if c[0] not in ('opt', 'res'):
                raise self.bad('unwrap of ' + c[0])
            return leaf(c[2], s) if c[1] in ('some', 'ok') else self.panic(s)
        return then(self.force(v, st), on)

    def apply_closure(self, clos, args, st):
        if clos[0] != 'closure':
            raise self.bad('a closure was expected')
        if len(clos[1]) != len(args):
            raise self.bad('closure arity')
        s = st.copy()
        s.env.append({})
        depth = len(s.env)

        def bind(i, s2):
            if i == len(args):
                return self.exec_block(clos[2], s2)
            return then(self.bind_irrefutable(clos[1][i], args[i], s2), lambda _, s3: bind(i + 1, s3))

        def ret(lf):
            if lf[1] not in ('normal', 'return'):
                return lf
            s2 = lf[3].copy()
            s2.env = s2.env[:depth - 1]
            return ('leaf', 'normal', lf[2], s2)
        saved, self.loopdepth = self.loopdepth, 0          # `break` / `continue` do not cross a closure
        try:
            return map_leaves(bind(0, s), ret)
        finally:
            self.loopdepth = saved

    def optres_method(self, v, name, args, st):
        if name in ('copied', 'cloned', 'as_ref', 'clone', 'as_deref', 'as_mut') and not args:
            return leaf(v, st)

        def run(avs, s0):
            def on(c, s):
                isopt = c[0] == 'opt'
                has = c[1] in ('some', 'ok')
                clos = avs[0] if avs and avs[0][0] == 'closure' else None
                if name in ('is_some', 'is_none') and isopt and not avs:
                    return leaf(('bool', has == (name == 'is_some')), s)
                if name in ('is_ok', 'is_err') and not isopt and not avs:
                    return leaf(('bool', has == (name == 'is_ok')), s)
                if name == 'unwrap' and not avs or name == 'expect' and len(avs) == 1:
                    return leaf(c[2], s) if has else self.panic(s)
                if name in ('unwrap_err', 'expect_err') and not isopt:
                    return self.panic(s) if has else leaf(OPAQUE, s)
                if name == 'ok_or' and isopt and len(avs) == 1:
                    return leaf(('res', 'ok', c[2]) if has else ('res', 'err'), s)
                if name == 'ok_or_else' and isopt and clos:
                    if has:
                        return leaf(('res', 'ok', c[2]), s)
                    return then(self.apply_closure(clos, [], s), lambda _, s2: leaf(('res', 'err'), s2))
                if name == 'ok' and not isopt and not avs:
                    return leaf(('opt', 'some', c[2]) if has else ('opt', 'none'), s)
                if name == 'map_err' and not isopt and clos:
                    if has:
                        return leaf(c, s)
                    return then(self.apply_closure(clos, [OPAQUE], s), lambda _, s2: leaf(('res', 'err'), s2))
                if name == 'map' and clos:
                    if not has:
                        return leaf(c, s)
                    return then(self.apply_closure(clos, [c[2]], s), lambda r, s2: leaf((c[0], c[1], r), s2))
                if name == 'and_then' and clos:
                    if not has:
                        return leaf(c, s)
                    return then(self.apply_closure(clos, [c[2]], s), self.force)
                if name == 'unwrap_or' and len(avs) == 1 and not clos:
                    return leaf(c[2] if has else avs[0], s)
                if name == 'unwrap_or_else' and clos:
                    if has:
                        return leaf(c[2], s)
                    return self.apply_closure(clos, [] if isopt else [OPAQUE], s)
                raise self.bad(f'method {name} of an {"Option" if isopt else "Result"}')
            return then(self.force(v, s0), on)
        return self.eval_list(args, st, run)          # arguments are evaluated eagerly, before the receiver is inspected

    # ---- calls ---------------------------------------------------------------------------------
    def base_kind(self, k):
        if isinstance(k, tuple):
            if k[0] == 'seq':
                return ('seq', self.base_kind(k[2]))
            if k[0] == 'node':
                return 'node'
            return (k[0], self.base_kind(k[1]))
        return k

    def call_root(self, name, selfv, args, st):
        callee = self.gen.spec(name)
        fn = callee['fn']
        if (selfv is not None) != fn['self'] or len(args) != len(fn['params']):
            raise self.bad(f'call of {name} with the wrong shape')
        self.gen.translate(name)                     # (fails on recursion; makes sure the callee is translatable)
        terms = []
        for a, want in zip(args, callee['pkinds']):
            a = self.deref(a, st)
            if a[0] in ('opt', 'res') or self.base_kind(kind_of(a)) != self.base_kind(want):
                a2 = a
                if a[0] == 'opt' and self.base_kind(want) == ('opt', 'map'):      # `&None` / `Some(m)` literally
                    terms.append('none' if a[1] == 'none' else f'(some {rv(a[2])})')
                    continue
                raise self.bad(f'argument of {name}: {a2[0]} where {want} is expected')
            terms.append(rv(a))
        role = callee['role']
        if role == 'obs':
            term = '(' + ' '.join([name] + terms) + ')'
            if term in st.known:
                return leaf(st.known[term], st)
            self.count()
            s0 = st.copy()
            s1 = st.copy()
            var = s1.fresh('obs')
            s1.known[term] = ('obs', var)
            return ('match', term, [('none', self.panic(s0)), (f'some {var}', leaf(('obs', var), s1))])
        if role == 'path':
            return leaf(('symres', ('seq', 'vec', 'nat'), '(' + ' '.join([name, 'g', 'sp'] + terms) + ')', 'opt'), st)
        if self.root['role'] != 'res':
            raise self.bad(f'call of {name} from a function without an event log')
        if callee['fueled'] and not self.root['fueled']:
            raise self.bad(f'call of {name} (which may run for ever) from a function whose generated result type carries no fuel')
        term = '(' + ' '.join([name, 'mk'] + (['fuel'] if callee['fueled'] else []) + ['g', 'sp'] + terms) + ')'
        self.count()
        arms = []
        wrap = (lambda p: f'some {p}') if callee['fueled'] else (lambda p: p)
        if callee['fueled']:
            arms.append(('none', leaf(UNIT, st.copy(), 'diverge')))
        for tag in ('panic', 'err', 'ok'):
            s = st.copy()
            s.nbound += 1
            q = f'q{s.nbound}'
            s.scope.append((q, 'List ε'))
            s.emit(('seq', q))
            if tag == 'ok':
                s.nbound += 1
                b = f'b{s.nbound}'
                s.scope.append((b, 'Bool'))
                arms.append((wrap(f'(Res.ok {b}, {q})'), leaf(('res', 'ok', ('sym', 'bool', b)), s)))
            elif tag == 'err':
                arms.append((wrap(f'(Res.err, {q})'), leaf(('res', 'err'), s)))
            else:
                arms.append((wrap(f'(Res.panic, {q})'), self.panic(s)))
        return ('match', term, arms)

    def inline_fn(self, fn, selfv, args, st, site):
        if len(self.inline) >= MAX_INLINE or id(site) in self.inline:
            raise self.bad(f'inlining of {fn["name"]} too deep (recursion?)')
        if len(args) != len(fn['params']) or (selfv is not None) != fn['self']:
            raise self.bad(f'call of {fn["name"]} with the wrong shape')
        frame = {BARRIER: True}
        if selfv is not None:
            frame['self'] = selfv
        for (pn, pt), a in zip(fn['params'], args):
            if a[0] in ('closure', 'ugraph'):
                raise self.bad(f'a {a[0]} passed to the helper {fn["name"]}')
            if re.search(r'&\s*mut\b', pt) and a[0] != 'ref':
                raise self.bad(f'`&mut` parameter {pn} of {fn["name"]} is not given a reference to a local')
            if a[0] == 'ref' and not re.search(r'&\s*mut\b', pt):
                a = self.deref(a, st)
            frame[pn] = a
        callee = st.copy()
        callee.env.append(frame)
        depth = len(callee.env)
        self.inline.append(id(site))
        saved, self.loopdepth = self.loopdepth, 0
        try:
            tree = self.exec_block(self.src.body(fn), callee)
        finally:
            self.inline.pop()
            self.loopdepth = saved

        def ret(lf):
            if lf[1] not in ('normal', 'return'):
                if lf[1] in ('break', 'continue', 'next'):
                    raise self.bad(f'`{lf[1]}` leaves the helper {fn["name"]}')
                return lf
            s = lf[3].copy()
            s.env = s.env[:depth - 1]
            s.muts = {m for m in s.muts if m[0] < depth - 1}
            v = lf[2]
            if v[0] == 'ref':
                raise self.bad('a helper that returns a reference')
            return ('leaf', 'normal', v, s)
        return map_leaves(tree, ret)

    def eval_call(self, f, args, st):
        if f[0] != 'path':
            raise self.bad('call of something that is not a path')
        p = f[1]
        last = p[-1]
        if len(p) == 1 and self.find(st, last) is not None:
            raise self.bad('call of a local')
        if last in ('Ok', 'Some') and len(args) == 1 and len(p) <= 2:
            tag = ('res', 'ok') if last == 'Ok' else ('opt', 'some')
            return then(self.eval(args[0], st), lambda v, s: leaf(tag + (v,), s))
        if last == 'Err' and len(args) == 1 and len(p) <= 2:
            return then(self.eval(args[0], st), lambda v, s: leaf(('res', 'err'), s))
        if last.endswith('Error') or p in (['String', 'from'], ['String', 'new']):
            return self.eval_list(args, st, lambda vs, s: leaf(OPAQUE, s))
        if len(p) >= 2 and p[-2] in ('Vec', 'VecDeque') and p[-2] == 'Vec' and last in ('new', 'with_capacity'):
            if len(args) != (1 if last == 'with_capacity' else 0):
                raise self.bad(f'Vec::{last} arity')
            return self.eval_list(args, st, lambda vs, s: leaf(('seq', 'stk', ('nil',), None), s))
        if last in self.src.free and all(re.fullmatch(r'[a-z_][a-z_0-9]*|crate|self|super', x) for x in p[:-1]):
            fn = self.src.free[last]
            if self.gen.is_root(last):
                return self.eval_list(args, st, lambda vs, s: self.call_root(last, None, vs, s))
            return self.eval_list(args, st, lambda vs, s: self.inline_fn(fn, None, vs, s, f))
        raise self.bad('call of `' + '::'.join(p) + '`')

    # ---- methods -------------------------------------------------------------------------------
    def method(self, v, name, args, st, site):
        obj = site[1]
        t = v[0]
        if t == 'self':
            return self.self_method(v, name, args, st, site)
        if t == 'ugraph':
            def run(vs, s):
                vs = [self.deref(x, s) for x in vs]
                if any(x[0] != 'nat' for x in vs):
                    raise self.bad(f'{name}: index arguments expected')
                if name == 'outgoing_edges' and len(vs) == 1:
                    return leaf(('symres', ('seq', 'iter', 'nat'), f'(outEdges g {vs[0][1]})', 'opt'), s)
                if name == 'shortest_path' and len(vs) == 2:
                    return leaf(('symopt', ('seq', 'vec', 'nat'), f'(sp {vs[0][1]} {vs[1][1]})'), s)
                raise self.bad(f'method {name} of the underlying graph is outside the vocabulary')
            return self.eval_list(args, st, run)
        if t == 'node':
            def run(vs, s):
                vs = [self.deref(x, s) for x in vs]
                if name == 'id' and not vs:
                    return leaf(('nat', f'{v[1]}.id'), s)
                if name == 'is_singleton' and not vs:
                    return leaf(('sym', 'bool', f'{v[1]}.isSingleton'), s)
                if name == 'verify_single_cause' and len(vs) == 1 and vs[0][0] == 'obs':
                    if self.root['role'] != 'res':
                        raise self.bad('a causaloid is evaluated in a function without an event log')
                    s = s.copy()
                    s.emit(('ev', f'mk {v[2]} {vs[0][1]}'))
                    return leaf(('symres', 'bool', f'({v[1]}.fn.apply {vs[0][1]})', 'V'), s)
                if name == 'verify_all_causes' and len(vs) == 2 and self.base_kind(kind_of(vs[0])) == ('seq', 'obs') \
                        and kind_of(vs[1]) == ('opt', 'map'):
                    return leaf(('symres', 'bool', f'({v[1]}.verifyAll {rv(vs[0])} {rv(vs[1])})', 'V'), s)
                if name in ('clone',) and not vs:
                    raise self.bad('a causaloid is cloned')
                raise self.bad(f'method {name} of a causaloid is outside the vocabulary')
            return self.eval_list(args, st, run)
        if t == 'ref' or t == 'seq':
            return self.seq_method(v, name, args, st, site)
        if t == 'map':
            def run(vs, s):
                vs = [self.deref(x, s) for x in vs]
                if name in ('get', 'contains_key') and len(vs) == 1 and vs[0][0] == 'nat':
                    r = ('symopt', 'nat', f'(List.lookup {vs[0][1]} {v[1]})')
                    if name == 'get':
                        return leaf(r, s)
                    return then(self.force(r, s), lambda c, s2: leaf(('bool', c[1] == 'some'), s2))
                if name == 'len' and not vs:
                    return leaf(('nat', f'(List.length {v[1]})'), s)
                if name == 'is_empty' and not vs:
                    return leaf(('sym', 'bool', f'(List.isEmpty {v[1]})'), s)
                raise self.bad(f'method {name} of the data index')
            return self.eval_list(args, st, run)
        if t in ('opt', 'symopt', 'res', 'symres'):
            return self.optres_method(v, name, args, st)
        if t == 'opaque':
            return self.eval_list(args, st, lambda vs, s: leaf(OPAQUE, s))
        if name in ('clone', 'to_owned') and not args and t in ('nat', 'obs', 'bool', 'sym', 'tuple'):
            return leaf(v, st)
        if name == 'into' and not args and t in ('nat',):
            return leaf(v, st)
        raise self.bad(f'method {name} of {t}')

    def self_method(self, v, name, args, st, site):
        if name in self.src.methods:
            fn = self.src.methods[name]
            if self.gen.is_root(name):
                return self.eval_list(args, st, lambda vs, s: self.call_root(name, v, vs, s))
            return self.eval_list(args, st, lambda vs, s: self.inline_fn(fn, v, vs, s, site))
        if name not in VOCAB_SELF or name not in self.src.declared:
            raise self.bad(f'method self.{name} is outside the vocabulary')

        def run(vs, s):
            vs = [self.deref(x, s) for x in vs]
            if any(x[0] != 'nat' for x in vs):
                raise self.bad(f'{name}: index arguments expected')
            if name == 'is_empty' and not vs:
                return leaf(('sym', 'bool', '(nodeCount g == 0)'), s)
            if name in ('size', 'number_nodes') and not vs:
                return leaf(('nat', '(nodeCount g)'), s)
            if name == 'contains_causaloid' and len(vs) == 1:
                return leaf(('sym', 'bool', f'(contains g {vs[0][1]})'), s)
            if name == 'get_causaloid' and len(vs) == 1:
                return leaf(('symopt', ('node', vs[0][1]), f'(getNode g {vs[0][1]})'), s)
            if name == 'contains_root_causaloid' and not vs:
                return then(self.force(('symopt', 'nat', 'g.root'), s), lambda c, s2: leaf(('bool', c[1] == 'some'), s2))
            if name == 'get_root_index' and not vs:
                return leaf(('symopt', 'nat', 'g.root'), s)
            if name == 'get_last_index' and not vs:
                return leaf(('symres', 'nat', '(lastIndexR g)', 'opt'), s)
            if name == 'get_graph' and not vs:
                return leaf(('ugraph',), s)
            raise self.bad(f'method self.{name} with {len(vs)} arguments')
        return self.eval_list(args, st, run)

    def seq_method(self, v0, name, args, st, site):
        place = self.place_of(site[1], st) if v0[0] != 'ref' else self.canon_place(v0[1], st)
        v = self.deref(v0, st)
        if v[0] != 'seq':
            return self.method(v, name, args, st, site)
        cls, L, ek = v[1], v[2], v[3]

        def store(s, newL, newek=ek):
            if place is None:
                raise self.bad(f'`{name}` on a temporary')
            self.write_place(place, ('seq', cls, newL, newek), s)

        def run(vs, s):
            vs = [self.deref(x, s) if x[0] == 'ref' else x for x in vs]
            if name in IDENT_METHODS and not vs:
                return leaf(v, s)
            if name in ('iter', 'into_iter') and not vs:
                if cls == 'stk':
                    raise self.bad('iteration over a locally built stack (its list is in reverse order)')
                return leaf(('seq', 'iter', L, ek), s)
            if name == 'len' and not vs:
                return leaf(('nat', f'(List.length {rL(L)})'), s)
            if name == 'is_empty' and not vs:
                if cls in MUTCLS:
                    return then(self.force_list(L, ek, s), lambda c, s2: leaf(('bool', c[1][0] == 'nil'), s2))
                return leaf(('sym', 'bool', f'(List.isEmpty {rL(L)})'), s)
            if name == 'first' and not vs and cls in ('slice', 'vec'):
                return leaf(('symopt', ek, f'(List.head? {rL(L)})'), s)
            if name == 'get' and len(vs) == 1 and vs[0][0] == 'nat' and cls in ('slice', 'vec'):
                return leaf(('symopt', ek, f'{rL(L)}[{vs[0][1]}]?'), s)
            if name == 'push' and len(vs) == 1 and cls == 'stk':
                nk = self.elem_kind(vs[0])
                if ek is not None and self.base_kind(nk) != self.base_kind(ek):
                    raise self.bad('push of a value of another type')
                s = s.copy()
                store(s, ('cons', vs[0], L), ek if ek is not None else nk)
                return leaf(UNIT, s)
            if name == 'pop' and not vs and cls == 'stk':
                def popped(c, s2):
                    if c[1][0] == 'nil':
                        return leaf(('opt', 'none'), s2)
                    s2 = s2.copy()
                    store(s2, c[1][2])
                    return leaf(('opt', 'some', c[1][1]), s2)
                return then(self.force_list(L, ek, s), popped)
            if name in ('last', 'last_mut') and not vs and cls == 'stk':
                def top(c, s2):
                    if c[1][0] == 'nil':
                        return leaf(('opt', 'none'), s2)
                    if place is None or place[0] != 'var' or (place[1], place[2]) not in s2.muts:
                        return leaf(('opt', 'some', c[1][1]), s2) if name == 'last' else self.no_place(name)
                    s2 = s2.copy()
                    store(s2, c[1])
                    return leaf(('opt', 'some', ('ref', ('top', place[1], place[2]))), s2)
                return then(self.force_list(L, ek, s), top)
            if name == 'next' and not vs and cls == 'iter':
                def nxt(c, s2):
                    if c[1][0] == 'nil':
                        return leaf(('opt', 'none'), s2)
                    s2 = s2.copy()
                    store(s2, c[1][2])
                    return leaf(('opt', 'some', c[1][1]), s2)
                return then(self.force_list(L, ek, s), nxt)
            raise self.bad(f'method {name} of a {cls} list')
        return self.eval_list(args, st, run)

    def no_place(self, name):
        raise self.bad(f'`{name}` on a temporary')


# ----------------------------------------------------------------------------------------------
# roots, rendering
# ----------------------------------------------------------------------------------------------
SLICE_OBS, OPT_MAP = ('seq', 'slice', 'obs'), ('opt', 'map')
ROOTS = [
    # name, where, parameter kinds, return kind, role, fueled
    ('get_obs', 'free', ['nat', SLICE_OBS, OPT_MAP], 'obs', 'obs', False),
    ('get_shortest_path', 'method', ['nat', 'nat'], ('res', ('seq', 'vec', 'nat')), 'path', False),
    ('reason_single_cause', 'method', ['nat', SLICE_OBS], ('res', 'bool'), 'res', False),
    ('reason_from_to_cause', 'method', ['nat', 'nat', SLICE_OBS, OPT_MAP], ('res', 'bool'), 'res', True),
    ('reason_all_causes', 'method', [SLICE_OBS, OPT_MAP], ('res', 'bool'), 'res', True),
    ('reason_subgraph_from_cause', 'method', ['nat', SLICE_OBS, OPT_MAP], ('res', 'bool'), 'res', True),
    ('reason_shortest_path_between_causes', 'method', ['nat', 'nat', SLICE_OBS, OPT_MAP], ('res', 'bool'), 'res', False),
]
SP_T = 'Nat → Nat → Option (List Nat)'


def rtype(spec):
    if spec['role'] == 'obs':
        return 'Option Nat'
    if spec['role'] == 'path':
        return 'Option (List Nat)'
    return 'Option (Res × List ε)' if spec['fueled'] else 'Res × List ε'


def commons(spec):
    if spec['role'] == 'obs':
        return []
    if spec['role'] == 'path':
        return [('g', 'CG'), ('sp', SP_T)]
    return [('mk', 'Nat → Nat → ε')] + ([('fuel', 'Nat')] if spec['fueled'] else []) + [('g', 'CG'), ('sp', SP_T)]


class Renderer:
    def __init__(self, ex, spec, nparams):
        self.ex, self.spec, self.nparams = ex, spec, nparams
        self.aux = []
        self.by_text = {}

    def leaf_text(self, lf):
        _, flow, v, st = lf
        role, fueled = self.spec['role'], self.spec['fueled']
        wrap = (lambda x: f'some {x}') if fueled else (lambda x: x)
        if flow == 'next':
            lid, args = v
            return f'@@L{lid}@@' + ''.join(' ' + a for a in args) + f' @@R{lid}@@'
        if flow == 'diverge':
            if not fueled:
                raise self.ex.bad('divergence in a function whose result type carries no fuel')
            return 'none'
        if flow == 'panic':
            if role == 'obs':
                return 'none'
            if role == 'path':
                raise self.ex.bad('a path of get_shortest_path reaches a panic')
            return wrap(f'(Res.panic, {render_log(st.log)})')
        if flow != 'normal':
            raise self.ex.bad(f'a `{flow}` escapes the function')
        if role == 'obs':
            if v[0] != 'obs' or st.log != (None, ()):
                raise self.ex.bad(f'returns {v[0]} where an observation is expected')
            return f'some {v[1]}'
        if v[0] != 'res':
            raise self.ex.bad(f'returns {v[0]} where a Result is expected')
        if role == 'path':
            if st.log != (None, ()):
                raise self.ex.bad('get_shortest_path has effects')
            if v[1] == 'err':
                return 'none'
            pv = self.ex.deref(v[2], st)
            if pv[0] != 'seq' or pv[1] == 'stk' or pv[3] != 'nat':
                raise self.ex.bad('get_shortest_path does not return a list of indices in path order')
            return f'some {rL(pv[2])}'
        if v[1] == 'err':
            return wrap(f'(Res.err, {render_log(st.log)})')
        if v[2][0] not in ('bool', 'sym'):
            raise self.ex.bad(f'returns Ok({v[2][0]}) where Ok(bool) is expected')
        return wrap(f'(Res.ok {rv(v[2])}, {render_log(st.log)})')

    def tree(self, t, ind):
        k = t[0]
        pad = '  ' * ind
        if k == 'leaf':
            return self.leaf_text(t)
        if k == 'match':
            arms = ''.join(f'\n{pad}| {p} => {self.tree(sub, ind + 2)}' for p, sub in t[2])
            return f'(match {t[1]} with{arms})'
        if k == 'if':
            return f'(if {t[1]} then\n{pad}  {self.tree(t[2], ind + 2)}\n{pad}else\n{pad}  {self.tree(t[3], ind + 2)})'
        return self.loop(t[1], ind)

    def loop(self, info, ind):
        lid = info['lid']
        com = commons(self.spec)
        body = self.tree(info['body'], 3)
        nil = self.tree(info['nil'], 3) if info['nil'] is not None else ''
        if re.search(r'@@[LR](?!%d@@)\d+@@' % lid, body + nil):
            raise self.ex.bad('a loop nested in a loop is outside the recognised grammar')
        # fixed parameters: the common ones, the function's parameters, and the locals the loop text mentions
        text0 = body + '\n' + nil + '\n' + ' '.join(i for _, _, i in info['carried'])
        fixed = []
        for j, (n, ty) in enumerate(info['fixed']):
            if j < self.nparams or re.search(r'(?<![\w.])' + re.escape(n) + r'(?![\w])', body + '\n' + nil):
                fixed.append((n, ty))
        names = ' '.join([n for n, _ in com] + [n for n, _ in fixed])
        binders = ''.join(f' ({n} : {ty})' for n, ty in com + fixed)
        carried = info['carried']
        if info['kind'] == 'for':
            ev, ety = info['elem']
            body = body.replace(f'@@L{lid}@@', '(@@SELF@@ ' + names).replace(f'@@R{lid}@@', info['rest'] + ')')
            binders += ''.join(f' ({n} : {ty})' for n, ty, _ in carried)
            text = (f'def @@SELF@@{binders} :\n    List {ety} → {rtype(self.spec)}\n'
                    f'  | [] => {nil}\n  | {ev} :: {info["rest"]} => {body}\n')
            doc = (f'a `for` loop of `{self.spec["name"]}`: `[]` = the rest of the function after the loop, '
                   f'`{ev} :: {info["rest"]}` = one pass through the body')
        else:
            body = body.replace(f'@@L{lid}@@', '(@@SELF@@ ' + names + ' fl').replace(f' @@R{lid}@@', ')')
            tys = ' → '.join(['Nat'] + [ty for _, ty, _ in carried])
            text = (f'def @@SELF@@{binders} :\n    {tys} → {rtype(self.spec)}\n'
                    f'  | 0{", _" * len(carried)} => none\n  | fl + 1{"".join(", " + n for n, _, _ in carried)} => {body}\n')
            doc = (f'a `while`/`loop` of `{self.spec["name"]}`, one pass per unit of fuel: where the condition fails the rest of '
                   f'the function, otherwise the body (`return` = a result, end of body = the call on `fl`)')
        if text in self.by_text:
            name = self.by_text[text]
        else:
            name = f'{self.spec["name"]}.loop{len(self.aux) + 1}'
            self.by_text[text] = name
            self.aux.append((name, f'/-- {doc} -/\n' + text.replace('@@SELF@@', name)))
        init = ' '.join(i for _, _, i in carried)
        if info['kind'] == 'for':
            return f'({name} {names}{" " + init if init else ""} {info["list"]})'
        return f'({name} {names} fuel{" " + init if init else ""})'


class Gen:
    def __init__(self, repo):
        self.src = Source(repo)
        self.specs = {}
        for name, where, pk, rk, role, fueled in ROOTS:
            table = self.src.free if where == 'free' else self.src.methods
            if name not in table:
                raise Unsupported(f'fn {name} not found ({"free function" if where == "free" else "default method"})')
            fn = table[name]
            kinds = [kind_of_type(t, fn['gens']) for _, t in fn['params']]
            if [self.norm(k) for k in kinds] != [self.norm(k) for k in pk]:
                raise Unsupported(f'{name}: parameter types {kinds}, expected {pk}')
            rk2 = kind_of_type(fn['ret'], fn['gens']) if fn['ret'] else 'unit'
            if self.norm(rk2) != self.norm(rk):
                raise Unsupported(f'{name}: return type {fn["ret"]}, expected {rk}')
            self.specs[name] = {'name': name, 'fn': fn, 'pkinds': kinds, 'role': role, 'fueled': fueled, 'gens': fn['gens']}
        self.done, self.active = {}, []

    @staticmethod
    def norm(k):
        return k

    def is_root(self, name):
        return name in self.specs

    def spec(self, name):
        return self.specs[name]

    def translate(self, name):
        if name in self.done:
            return self.done[name]
        if name in self.active:
            raise Unsupported(f'{name}: recursion between the translated functions')
        self.active.append(name)
        try:
            self.done[name] = self._translate(self.specs[name])
        finally:
            self.active.pop()
        return self.done[name]

    def _translate(self, spec):
        fn = spec['fn']
        ex = Exec(self, spec)
        st = St()
        if fn['self']:
            st.env[0]['self'] = ('self',)
        used = {n for n, _ in commons(spec)}
        for (pn, _), k in zip(fn['params'], spec['pkinds']):
            ln = lean_name(pn)
            while ln in used:
                ln += '_'
            used.add(ln)
            st.scope.append((ln, ltype(k)))
            st.env[0][pn] = mkval(k, ln)
        nparams = len(st.scope)
        tree = ex.exec_block(self.src.body(fn), st)
        tree = map_leaves(tree, lambda lf: ('leaf', 'normal', lf[2], lf[3]) if lf[1] == 'return' else lf)
        tree = then(tree, lambda v, s: ex.force(v, s) if spec['role'] != 'obs' else leaf(ex.deref(v, s), s))
        r = Renderer(ex, spec, nparams)
        body = r.tree(tree, 2)
        sig = ' '.join(fn['sig'].split())
        out = [a for _, a in r.aux]
        binders = ''.join(f' ({n} : {ty})' for n, ty in commons(spec) + st.scope[:nparams])
        out.append(f'/-- `{spec["name"]}` ({fn["file"].split("/")[-1]}) — `{sig}` -/\ndef {spec["name"]}{binders} :\n'
                   f'    {rtype(spec)} :=\n  {body}\n')
        return out


HEADER = ['-- GENERATED by /verif/tools/rs2lean.py reasoning from /repo — do not edit, regenerated on every check run',
          'import DcVerif.Model.ReasoningPrim',
          '/-! `get_obs`, `CausableGraph::get_shortest_path` and the default methods of `CausableGraphReasoning`',
          '(`deep_causality/src/protocols/causable_graph/`), one definition per Rust function, obtained by symbolic execution of the',
          'current source (`tools/rs2lean_reasoning.py`, vocabulary and grammar in its docstring). `g` = the graph store, `sp a b` =',
          'what `shortest_path(a, b)` of the underlying graph answers, `mk i o` = the event "the causal function of the causaloid',
          'fetched with index `i` was called on observation `o`", `fuel` bounds the passes through `while` loops (`none` = exhausted),',
          '`Res.panic` = a reached `unwrap` / `expect` / index / assertion that fails. -/',
          'set_option linter.unusedVariables false',
          'namespace Gen.Reasoning', 'open CausalGraph', 'open Dfs (V)', '', 'variable {ε : Type}', '']


def gen_reasoning(repo):
    gen = Gen(repo)
    out = list(HEADER)
    for name, *_ in ROOTS:
        gen.translate(name)
    emitted = set()
    for name in gen.done:                       # dict order = completion order: callees first
        for text in gen.done[name]:
            if text not in emitted:
                emitted.add(text)
                out.append(text)
    out += ['end Gen.Reasoning', '']
    return '\n'.join(out)


def install(register):
    def guarded(repo):
        try:
            return gen_reasoning(repo)
        except Unsupported:
            raise
        except RecursionError:
            raise Unsupported('reasoning: the source nests deeper than the translator follows')
        except Exception as ex:      # noqa: BLE001 — an unforeseen input is a rejection of the source, never a crash
            raise Unsupported(f'reasoning: internal {type(ex).__name__}: {ex}')
    register('reasoning', 'Reasoning.lean')(guarded)

    def nested(repo):
        """the same definitions, word for word, read against the vocabulary for graphs whose nodes may be wrappers
        (`Model/ReasoningPrimN.lean`, namespace `NestedGraph`: the same names — `CG`, `Node`, `contains`, `getNode`, `outEdges`,
        `lastIndexR`, `nodeCount`, `nd.fn.apply`, `nd.isSingleton`, `nd.verifyAll` — with `is_singleton` / `verify_all_causes`
        answering per node) -> Gen/ReasoningN.lean (C02: the graph level of the nested model)"""
        text = guarded(repo)
        for old, new in (('import DcVerif.Model.ReasoningPrim\n', 'import DcVerif.Model.ReasoningPrimN\n'),
                         ('namespace Gen.Reasoning\n', 'namespace Gen.ReasoningN\n'),
                         ('open CausalGraph\n', 'open NestedGraph\n'),
                         ('end Gen.Reasoning\n', 'end Gen.ReasoningN\n')):
            if text.count(old) != 1:
                raise Unsupported('reasoningN: header line `' + old.strip() + '` not found exactly once')
            text = text.replace(old, new)
        return text.replace('GENERATED by /verif/tools/rs2lean.py reasoning', 'GENERATED by /verif/tools/rs2lean.py reasoningN')
    register('reasoningN', 'ReasoningN.lean')(nested)
