#!/usr/bin/env python3
"""prints the markdown table of DESIGN.md §11 from seeded/*/meta.json"""
import json, glob, os, re
rows = []
for f in sorted(glob.glob(os.path.join(os.path.dirname(os.path.abspath(__file__)), '..', 'seeded', '*', 'meta.json'))):
    m = json.load(open(f))
    c = m.get('confirmed', {})
    det = []
    for p, v in m.get('detection', {}).items():
        if not isinstance(v, dict):
            continue
        if v.get('exit') == 1:
            how = 'no-failing-input-found' if 'no-failing-input-found' in v.get('line', '') else 'replay'
            kind = (v.get('replay') or {}).get('kind') or ''
            det.append(f'{p}: VIOLATION ({how}{", " + kind if kind else ""})')
        else:
            det.append(f'{p}: not reported')
    notes = m.get('needs_to_manifest', '')
    first = ''
    for line in notes.split('\n'):
        line = line.strip()
        if line and not line.startswith('#'):
            first = re.sub(r'\s+', ' ', line)[:150]
            break
    ok = c.get('applies') and c.get('suite_passes') and str(c.get('demo_with_change', '')).startswith('FAILS') and c.get('demo_without_change') == 'passes'
    rows.append(f"| {m['id']} | {', '.join(os.path.basename(x) for x in m.get('files', []))} | {first} | {'yes' if ok else 'NO: ' + json.dumps(c)[:80]} | {'; '.join(det)} |")
print('| id | file(s) | what the change is | confirmed (applies, 803 tests pass, demo fails with / passes without) | checks |')
print('|---|---|---|---|---|')
print('\n'.join(rows))
