"""Statement / block / item front end shared by the bitmap, adjustable and grid translators (rs2lean).

rsexpr's Pratt parser extended — fail closed, like rsexpr — by
  blocks            `{ stmt* [tail-expr] }`, `unsafe { … }`
  statements        `let <pat> [: <type>] = <expr>;`   <pat> ::= id | `mut` id | (p, …) | [p, …] | _
                    `<place> = <expr>;` (also without `;` as the last thing in a block: it has type `()`)
                    `return [<expr>];`   `for <pat> in <expr> { … }`   `<expr>;`
  expressions       `if c { … } [else if … ]* [else { … }]`, `match e { pat => expr, … }` (patterns kept as token text),
                    macro calls `name!(a, b, …)`, struct literals `Path { f, g: e }`, array literals `[a, b]` / `[e; N]`,
                    turbofish segments keep their text (`size_of::<AtomicU64>` -> path ['size_of', '<AtomicU64>'])
AST additions (tuples, as in rsexpr):
  ('block', [stmt], tail|None)   ('unsafe', block)     ('if', cond, block, block|if|None)
  ('match', scrutinee, [(pattern text, expr)])          ('macro', name, [expr])   ('struct', path, [(field, expr)])
  ('array', [expr])  ('repeat', expr, expr)
  stmt ::= ('let', pat, type text|None, expr) | ('assign', place, expr) | ('expr', expr) | ('return', expr|None)
         | ('for', pat, expr, block)
  pat  ::= ('id', name) | ('tuple', [pat]) | ('slice', [pat]) | ('wild',)
Nothing here gives a construct a meaning; the translators do, each for the subset it recognises.
"""
import re
from rsexpr import Unsupported, Parser, tokenize, strip_comments

BLOCK_LIKE = ('if', 'match', 'unsafe', 'for', 'loop', 'while')


def strip_strings(src):
    """string literals carry no behaviour in the translated fragments; replace each by the identifier `__str` so that
    neither the tokeniser nor any brace counting ever looks inside one"""
    return re.sub(r'"(?:[^"\\]|\\.)*"', '__str', src)


class BlockParser(Parser):
    def __init__(self, toks):
        super().__init__(toks)
        self.no_struct = 0          # > 0 while parsing an `if` / `match` / `for` head, where `Path {` opens the body

    # ---- expressions -------------------------------------------------------------------------
    def atom(self):
        kind, v = self.peek()
        if kind == 'id' and v == 'if':
            return self.if_expr()
        if kind == 'id' and v == 'match':
            return self.match_expr()
        if kind == 'id' and v == 'unsafe':
            self.next()
            return ('unsafe', self.block())
        if kind == 'op' and v == '{':
            return self.block()
        if kind == 'op' and v == '[':
            return self.array()
        if kind == 'op' and v in ('|', '||'):
            raise Unsupported('closure')
        if kind == 'id' and v in ('loop', 'while', 'for', 'let', 'return', 'break', 'continue', 'async', 'move', 'fn',
                                  'struct', 'impl', 'use', 'const', 'static'):
            raise Unsupported(f'`{v}` in expression position')
        if kind == 'id':
            return self.path_atom()
        return super().atom()

    def path_atom(self):
        path = [self.next()[1]]
        while self.peek()[1] == '::':
            self.next()
            if self.peek()[1] == '<':
                path.append(self.generic_text())
                continue
            k2, v2 = self.next()
            if k2 != 'id':
                raise Unsupported('path segment expected, got ' + v2)
            path.append(v2)
        nxt = self.peek()[1]
        if nxt == '!' and self.peek(1)[1] in ('(', '['):
            self.next()
            close = ')' if self.peek()[1] == '(' else ']'
            self.next()
            args = []
            while self.peek()[1] != close:
                args.append(self.expr())
                if self.peek()[1] == ',':
                    self.next()
                elif self.peek()[1] != close:
                    raise Unsupported(f'macro {path[-1]}!: unexpected token {self.peek()[1]!r}')
            self.next()
            return ('macro', '::'.join(path), args)
        if nxt == '{' and not self.no_struct and path[-1][:1].isupper():
            return self.struct_lit(path)
        return ('path', path)

    def generic_text(self):
        """`<…>` (balanced) as text"""
        depth, out = 0, []
        while True:
            kind, tk = self.next()
            if kind == 'eof':
                raise Unsupported('unterminated generic arguments')
            out.append(tk)
            depth += (tk == '<') - (tk == '>') - 2 * (tk == '>>')
            if depth <= 0:
                if depth < 0:
                    raise Unsupported('unbalanced generic arguments')
                return ''.join(out)

    def struct_lit(self, path):
        self.expect('{')
        fields = []
        while self.peek()[1] != '}':
            kind, name = self.next()
            if kind != 'id':
                raise Unsupported('struct literal field: ' + name)
            if self.peek()[1] == ':':
                self.next()
                saved, self.no_struct = self.no_struct, 0
                val = self.expr()
                self.no_struct = saved
            else:
                val = ('path', [name])
            fields.append((name, val))
            if self.peek()[1] == ',':
                self.next()
            elif self.peek()[1] != '}':
                raise Unsupported('struct literal: unexpected token ' + self.peek()[1])
        self.expect('}')
        return ('struct', path, fields)

    def array(self):
        self.expect('[')
        saved, self.no_struct = self.no_struct, 0
        items = []
        try:
            if self.peek()[1] == ']':
                self.next()
                return ('array', [])
            first = self.expr()
            if self.peek()[1] == ';':
                self.next()
                n = self.expr()
                self.expect(']')
                return ('repeat', first, n)
            items.append(first)
            while self.peek()[1] == ',':
                self.next()
                if self.peek()[1] == ']':
                    break
                items.append(self.expr())
            self.expect(']')
            return ('array', items)
        finally:
            self.no_struct = saved

    def head_expr(self):
        self.no_struct += 1
        try:
            return self.expr()
        finally:
            self.no_struct -= 1

    def if_expr(self):
        self.expect('if')
        if self.peek()[1] == 'let':
            raise Unsupported('if let')
        cond = self.head_expr()
        then = self.block()
        els = None
        if self.peek()[1] == 'else':
            self.next()
            els = self.if_expr() if self.peek()[1] == 'if' else self.block()
        return ('if', cond, then, els)

    def match_expr(self):
        self.expect('match')
        scrut = self.head_expr()
        self.expect('{')
        arms = []
        while self.peek()[1] != '}':
            pat, depth = [], 0
            while True:
                kind, tk = self.peek()
                if kind == 'eof':
                    raise Unsupported('unterminated match')
                if depth == 0 and tk == '=>':
                    break
                if tk == 'if' and depth == 0:
                    raise Unsupported('match guard')
                depth += (tk in '([{') - (tk in ')]}') if len(tk) == 1 else 0
                pat.append(tk)
                self.next()
            self.expect('=>')
            saved, self.no_struct = self.no_struct, 0
            body = self.expr()
            self.no_struct = saved
            arms.append((' '.join(pat), body))
            if self.peek()[1] == ',':
                self.next()
            elif self.peek()[1] != '}' and body[0] not in ('block', 'if', 'match', 'unsafe'):
                raise Unsupported('match arm not terminated by `,`')
        self.expect('}')
        return ('match', scrut, arms)

    def type_(self):
        """the type after `as`: an identifier, or a raw-pointer / reference type (`*const S`, `*mut S`, `&T`) as text"""
        kind, v = self.next()
        if v == '*':
            k2, q = self.next()
            if q not in ('const', 'mut'):
                raise Unsupported('pointer type: ' + q)
            return f'*{q} ' + self.type_()
        if v == '&':
            if self.peek()[1] == 'mut':
                self.next()
                return '&mut ' + self.type_()
            return '&' + self.type_()
        if kind != 'id':
            raise Unsupported('type expected, got ' + v)
        return v

    def postfix(self, e):
        while True:
            v = self.peek()[1]
            if v == '.' and self.peek(1)[0] == 'id' and self.peek(2)[1] == '::':
                # method call with turbofish: `.collect::<Vec<_>>()`
                self.next()
                name = self.next()[1]
                self.next()
                if self.peek()[1] != '<':
                    raise Unsupported('`::` after a method name without `<`')
                g = self.generic_text()
                if self.peek()[1] != '(':
                    raise Unsupported('turbofish without call')
                e = ('mcall', e, name + '::' + g, self.args())
                continue
            if v in ('(', '.', '[', '?'):
                # one step of rsexpr's postfix loop
                e = self._one_postfix(e)
                continue
            return e

    def _one_postfix(self, e):
        v = self.peek()[1]
        if v == '(':
            return ('call', e, self.args())
        if v == '.':
            self.next()
            kind, name = self.next()
            if kind == 'num':
                return ('field', e, str(name))
            if kind != 'id':
                raise Unsupported('field expected after .')
            if self.peek()[1] == '(':
                return ('mcall', e, name, self.args())
            return ('field', e, name)
        if v == '[':
            self.next()
            saved, self.no_struct = self.no_struct, 0
            idx = self.expr()
            self.no_struct = saved
            self.expect(']')
            return ('index', e, idx)
        self.next()
        return ('try', e)

    def args(self):
        saved, self.no_struct = self.no_struct, 0
        try:
            return super().args()
        finally:
            self.no_struct = saved

    # ---- patterns, types ---------------------------------------------------------------------
    def pattern(self):
        kind, v = self.next()
        if v == 'mut' or v == '&':
            return self.pattern()
        if v == '_':
            return ('wild',)
        if kind == 'id':
            if self.peek()[1] in ('(', '{', '::'):
                raise Unsupported('refutable / path pattern')
            return ('id', v)
        if v in ('(', '['):
            close = ')' if v == '(' else ']'
            items = []
            while self.peek()[1] != close:
                items.append(self.pattern())
                if self.peek()[1] == ',':
                    self.next()
                elif self.peek()[1] != close:
                    raise Unsupported('pattern: unexpected token ' + self.peek()[1])
            self.next()
            return ('tuple' if v == '(' else 'slice', items)
        raise Unsupported('pattern: unexpected token ' + v)

    def type_text(self, stop):
        """a type annotation up to (not including) one of the `stop` tokens at bracket depth 0, as text"""
        depth, out = 0, []
        while True:
            kind, tk = self.peek()
            if kind == 'eof':
                raise Unsupported('unterminated type')
            if depth == 0 and tk in stop:
                return ' '.join(out)
            depth += (tk in ('<', '(', '[')) - (tk in ('>', ')', ']')) - 2 * (tk == '>>')
            out.append(tk)
            self.next()

    def skip_attrs(self):
        while self.peek()[1] == '#':
            self.next()
            self.expect('[')
            depth = 1
            while depth:
                kind, tk = self.next()
                if kind == 'eof':
                    raise Unsupported('unterminated attribute')
                depth += (tk == '[') - (tk == ']')

    # ---- blocks ------------------------------------------------------------------------------
    def block(self):
        self.expect('{')
        saved, self.no_struct = self.no_struct, 0
        stmts, tail = [], None
        while self.peek()[1] != '}':
            if tail is not None:
                raise Unsupported('expression without `;` in the middle of a block')
            self.skip_attrs()
            kind, v = self.peek()
            if kind == 'eof':
                raise Unsupported('unterminated block')
            if v == ';':
                self.next()
            elif v == 'let':
                self.next()
                pat = self.pattern()
                ty = None
                if self.peek()[1] == ':':
                    self.next()
                    ty = self.type_text(('=', ';'))
                if self.peek()[1] != '=':
                    raise Unsupported('let without initialiser (or let-else)')
                self.next()
                rhs = self.expr()
                if self.peek()[1] == 'else':
                    raise Unsupported('let … else')
                self.expect(';')
                stmts.append(('let', pat, ty, rhs))
            elif v == 'for':
                self.next()
                pat = self.pattern()
                self.expect('in')
                it = self.head_expr()
                stmts.append(('for', pat, it, self.block()))
            elif v == 'return':
                self.next()
                e = None if self.peek()[1] in (';', '}') else self.expr()
                if self.peek()[1] == ';':
                    self.next()
                stmts.append(('return', e))
            elif v in ('while', 'loop', 'fn', 'struct', 'use', 'const', 'static', 'impl', 'break', 'continue', 'enum',
                       'type', 'trait', 'mod'):
                raise Unsupported(f'`{v}` statement')
            elif v in ('if', 'match', 'unsafe', '{'):
                # Rust: a block-like expression at statement position ends the statement (no postfix / binary continuation)
                e = self.atom()
                if self.peek()[1] == '}':
                    tail = e
                else:
                    if self.peek()[1] == ';':
                        self.next()
                    stmts.append(('expr', e))
            else:
                e = self.expr()
                nxt = self.peek()[1]
                if nxt == '=':
                    self.next()
                    rhs = self.expr()
                    if self.peek()[1] == ';':
                        self.next()
                    elif self.peek()[1] != '}':
                        raise Unsupported('assignment not terminated')
                    stmts.append(('assign', e, rhs))
                elif nxt in ('+=', '-=', '*=', '/=', '<<=', '>>='):
                    raise Unsupported('compound assignment')
                elif nxt == ';':
                    self.next()
                    stmts.append(('expr', e))
                elif nxt == '}':
                    tail = e
                else:
                    raise Unsupported('unexpected token in statement: ' + nxt)
        self.expect('}')
        self.no_struct = saved
        return ('block', stmts, tail)


def parse_body(body_text):
    """the text between the braces of a function body -> ('block', stmts, tail)"""
    p = BlockParser(tokenize('{' + body_text + '}'))
    b = p.block()
    if not p.at_end():
        raise Unsupported('trailing tokens after function body')
    return b


def parse_expr2(text):
    p = BlockParser(tokenize(text))
    e = p.expr()
    if not p.at_end():
        raise Unsupported('trailing tokens in expression: ' + text)
    return e


def strip_blocks(b):
    """`{ e }` / `unsafe { e }` with no statements -> e (recursively on the outside only)"""
    while True:
        if b[0] == 'unsafe':
            b = b[1]
        elif b[0] == 'block' and not b[1] and b[2] is not None:
            b = b[2]
        elif b[0] == 'paren':
            b = b[1]
        else:
            return b


# ----------------------------------------------------------------------------------------------
# items
# ----------------------------------------------------------------------------------------------
def fn_items(src):
    """every `fn name …(params) [-> ret] [where …] { body }` of `src` (comments stripped), in source order:
    dicts name / sig (text up to the body) / params (text inside the parentheses) / ret (text or None) / body / vis"""
    out = []
    for m in re.finditer(r'\bfn\s+(\w+)', src):
        i = m.end()
        # generics
        j = i
        while src[j].isspace():
            j += 1
        if src[j] == '<':
            depth = 0
            while True:
                depth += (src[j] == '<') - (src[j] == '>' and src[j - 1] != '-')
                j += 1
                if depth == 0:
                    break
        while src[j].isspace():
            j += 1
        if src[j] != '(':
            raise Unsupported(f'fn {m.group(1)}: parameter list not found')
        depth, k = 0, j
        while True:
            depth += (src[k] == '(') - (src[k] == ')')
            k += 1
            if depth == 0:
                break
        params = src[j + 1:k - 1]
        b, depth = k, 0
        while depth or src[b] not in '{;':
            depth += (src[b] in '([') - (src[b] in ')]')
            b += 1
        if src[b] == ';':
            continue                                   # declaration without body (trait)
        head = src[k:b]
        mr = re.match(r'\s*->\s*(.*?)\s*(?:\bwhere\b.*)?$', head, flags=re.S)
        ret = ' '.join(mr.group(1).split()) if mr else None
        depth, e = 1, b + 1
        while depth:
            depth += (src[e] == '{') - (src[e] == '}')
            e += 1
        pre = src[max(0, m.start() - 40):m.start()]
        vis = 'pub' if re.search(r'\bpub(\([^)]*\))?\s+((const|unsafe)\s+)*$', pre) else ''
        out.append({'name': m.group(1), 'sig': ' '.join(src[m.start():b].split()), 'params': ' '.join(params.split()),
                    'ret': ret, 'body': src[b + 1:e - 1], 'vis': vis, 'start': m.start(), 'end': e})
    return out


def split_top(s, sep=','):
    """split on `sep` at bracket depth 0 (angle brackets count)"""
    out, cur, depth = [], '', 0
    prev = ''
    for ch in s:
        if ch in '([{<':
            depth += 1
        elif ch in ')]}' or (ch == '>' and prev != '-'):
            depth -= 1
        if ch == sep and depth == 0:
            out.append(cur)
            cur = ''
        else:
            cur += ch
        prev = ch
    if cur.strip():
        out.append(cur)
    return [x.strip() for x in out]


def const_items(src):
    """`[pub] const NAME: TYPE = EXPR;` items anywhere in `src` (module level or inside an impl) -> [(name, type, expr text)];
    `const fn` is not a const item"""
    out = []
    for m in re.finditer(r'(?m)^[ \t]*(?:pub(?:\([^)]*\))?\s+)?const\s+(\w+)\s*:\s*((?:\[[^\]]*\]|[^=;,{}()\[\]])+?)\s*=\s*([^;]+);', src):
        out.append((m.group(1), ' '.join(m.group(2).split()), ' '.join(m.group(3).split())))
    return out


class Scope:
    """Rust name -> Lean name. A binding whose name is already in use in the generated definition (a Rust shadowing,
    or a local of an inlined helper that happens to be called like a local of its caller) gets a fresh Lean name;
    references are resolved through the map, so the renaming is a consistent alpha-renaming."""

    def __init__(self, used):
        self.used = used          # Lean names in use in the generated definition (shared by all its scopes)
        self.map = {}

    def bind(self, name, esc):
        lean = name
        k = 1
        while lean in self.used:
            lean = f'{name}_{k}'
            k += 1
        self.used.add(lean)
        self.map[name] = esc(lean)
        return self.map[name]

    def alias(self, name, lean):
        self.map[name] = lean

    def ref(self, name):
        return self.map.get(name)
