#!/usr/bin/env python3
"""Self-test of the `context` translator (C09) on edited *copies* of the sources it reads — never touches the repo.

    python3 tools/test_rs2lean_context.py [--repo /repo]

REFUSE: edits outside the grammar — the translator must fail closed (Unsupported, reason printed).
ACCEPT: meaning-preserving edits — the translator must still produce a file (whether the equality proofs of
Props/C09Gen.lean absorb the new text is checked by `./check C09`, not here).
DIFFER: semantic edits — the generated text must differ from the text generated for the unchanged source.
"""
import os, sys, shutil, tempfile, argparse, pathlib

HERE = os.path.dirname(os.path.abspath(__file__))
sys.path.insert(0, HERE)
import rs2lean_context as rc          # noqa: E402
from rsexpr import Unsupported         # noqa: E402

X, B, I, M = 'extendable_contextuable_graph.rs', 'contextuable_graph.rs', 'indexable.rs', 'mod.rs'
REFUSE = {
    'for-loop': (B, '        self.base_context.size()', '        let mut n = 0; for _ in 0..3 { n += 1; } self.base_context.size() + n'),
    'while-loop': (B, '        self.base_context.size()', '        while false {} self.base_context.size()'),
    'unknown-ultragraph-method': (B, 'self.base_context.number_edges()', 'self.base_context.get_all_edges().len()'),
    'cfg': (B, '    fn size(&self)', '    #[cfg(test)]\n    fn size(&self)'),
    'unsafe': (B, '        self.base_context.size()', '        unsafe { std::hint::unreachable_unchecked() }'),
    'effect-in-error-payload': (X, 'Err(ContextIndexError::new("context does not exists".into()))',
                                'Err(ContextIndexError::new(self.extra_ctx_add_new(0, true).to_string()))'),
    'closure-call': (X, '        idx <= self.number_of_extra_contexts', '        let f = |x: u64| x <= self.number_of_extra_contexts; f(idx)'),
    'division': (X, '        idx <= self.number_of_extra_contexts', '        idx / 1 <= self.number_of_extra_contexts'),
    'narrowing-cast': (X, 'weight as u64', 'weight as u8 as u64'),
    'extra-field': (M, '    id: u64,\n', '    id: u64,\n    generation: u64,\n'),
    'string-literal-as-name': (M, 'name: name.to_string(),', 'name: "fixed".to_string(),'),
    'by-value-receiver': (B, '    fn size(&self) -> usize {', '    fn size(self) -> usize {'),
    'recursion': (B, '        self.base_context.size()', '        self.size()'),
    'mut-through-shared': (B, '    fn size(&self) -> usize {\n        self.base_context.size()',
                           '    fn size(&self) -> usize {\n        self.extra_context_id = 0;\n        self.base_context.size()'),
    'match-guard': (I, '            if current {\n                self.current_index_map.get(key)',
                    '            if let Some(x) = match current { true if *key > 0 => None, _ => Some(1) } { let _ = x; }\n'
                    '            if current {\n                self.current_index_map.get(key)'),
}
ACCEPT = {
    'comments-attributes': (X, '    fn extra_ctx_check_exists(', '    #[inline] // fast\n    fn extra_ctx_check_exists('),
    'let-else': (X, '        match ctx {\n            None => Err(ContextIndexError::new("context does not exists".into())),\n            Some(ctx) => Ok(ctx),\n        }',
                 '        let Some(found) = ctx else { return Err(ContextIndexError::new("x".into())); };\n        Ok(found)'),
    'checked-subtraction': (X, '        idx <= self.number_of_extra_contexts', '        idx + 1 - 1 <= self.number_of_extra_contexts'),
    'owned-local-map': (X, '            self.extra_contexts = Some(HashMap::new());',
                        '            let mut fresh = HashMap::new();\n            fresh.remove(&0);\n            self.extra_contexts = Some(fresh);'),
}
DIFFER = {
    'operand-order': (X, '        idx <= self.number_of_extra_contexts', '        self.number_of_extra_contexts <= idx'),
    'insert-before-increment': (X, '        self.number_of_extra_contexts += 1;\n\n', ''),
    'other-map': (I, 'self.current_index_map.insert(key, index);', 'self.previous_index_map.insert(key, index);'),
    'swapped-arguments': (X, 'ctx.add_edge_with_weight(a, b, weight as u64)', 'ctx.add_edge_with_weight(b, a, weight as u64)'),
}


def edited(repo, tmp, f, old, new):
    dst = pathlib.Path(tmp) / rc.DIR
    if dst.exists():
        shutil.rmtree(dst)
    shutil.copytree(pathlib.Path(repo) / rc.DIR, dst)
    p = dst / f
    s = p.read_text()
    assert old in s, f'edit target not found in {f}: {old[:40]}'
    p.write_text(s.replace(old, new, 1))
    return rc.gen_context(pathlib.Path(tmp))


def main():
    ap = argparse.ArgumentParser()
    ap.add_argument('--repo', default=os.environ.get('VERIF_REPO', '/repo'))
    a = ap.parse_args()
    base = rc.gen_context(pathlib.Path(a.repo))
    bad = 0
    with tempfile.TemporaryDirectory() as tmp:
        for name, (f, old, new) in REFUSE.items():
            try:
                edited(a.repo, tmp, f, old, new)
                print(f'FAIL refuse/{name}: accepted')
                bad += 1
            except (Unsupported, KeyError, ValueError) as ex:
                print(f'ok   refuse/{name}: {str(ex)[:110]}')
        for name, (f, old, new) in ACCEPT.items():
            try:
                edited(a.repo, tmp, f, old, new)
                print(f'ok   accept/{name}')
            except Unsupported as ex:
                print(f'FAIL accept/{name}: {ex}')
                bad += 1
        for name, (f, old, new) in DIFFER.items():
            try:
                t = edited(a.repo, tmp, f, old, new)
                if t == base:
                    print(f'FAIL differ/{name}: same text')
                    bad += 1
                else:
                    print(f'ok   differ/{name}')
            except Unsupported as ex:
                print(f'ok   differ/{name}: refused ({str(ex)[:80]})')
    print('self-test', 'FAILED' if bad else 'passed')
    sys.exit(1 if bad else 0)


if __name__ == '__main__':
    main()
