#!/usr/bin/env python3
"""Self-test of the `causable` translator (C11 / C02) on edited *copies* of the sources it reads — never touches the repo.

    python3 tools/test_rs2lean_causable.py [--repo /repo]

REFUSE: edits outside the grammar / vocabulary — the translator must fail closed (exit 2, reason printed).
ACCEPT: meaning-preserving edits — the translator must still produce a file (whether the equality proofs of
Props/C11Gen.lean absorb the new text is checked by `./check C11`, not here).
"""
import os, sys, json, shutil, subprocess, tempfile, argparse

HERE = os.path.dirname(os.path.abspath(__file__))
S = 'deep_causality/src/'
CAUS, MOD = S + 'types/reasoning_types/causaloid/causable.rs', S + 'types/reasoning_types/causaloid/mod.rs'
TRAIT, GRAPH, EXT = S + 'protocols/causable/mod.rs', S + 'types/reasoning_types/causaloid_graph/causable_graph.rs', \
    S + 'extensions/causable/mod.rs'
LOOP = ("        for (i, cause) in self.get_all_items().iter().enumerate() {\n            let valid = if cause.is_singleton() {\n"
        "                cause.verify_single_cause(data.get(i).expect(\"failed to get value\"))?\n            } else {\n"
        "                cause.verify_all_causes(data, None)?\n            };\n\n            if !valid {\n"
        "                return Ok(false);\n            }\n        }")
PLAIN = ("            let res = (causal_fn)(obs.to_owned())?;\n\n            let mut guard = self.active.write().unwrap();\n"
         "            *guard = res;\n\n            Ok(res)")
SINGLETON = ("        match self.causal_type {\n            CausalType::Singleton => true,\n            CausalType::Collection => false,\n"
             "            CausalType::Graph => false,\n        }")
NUM = "            .filter(|c| c.is_active())\n            .count() as NumericalValue"

REFUSE = {
    'while-loop': (TRAIT, LOOP, "        let items = self.get_all_items();\n        let mut i = 0;\n        while i < items.len() {\n"
                                "            if !items[i].verify_all_causes(data, None)? { return Ok(false); }\n            i += 1;\n        }"),
    'unsigned-subtraction': (TRAIT, 'data.get(i).expect', 'data.get(i - 0).expect'),
    'override-in-extension': (EXT, "impl<T> CausableReasoning<T> for Vec<T>\nwhere\n    T: Causable + Clone,\n{\n    make_len!();",
                              "impl<T> CausableReasoning<T> for Vec<T>\nwhere\n    T: Causable + Clone,\n{\n"
                              "    fn number_active(&self) -> f64 { 0.0 }\n    make_len!();"),
    'vec-impl-not-the-macros': (EXT, "    make_vec_to_vec!();\n    make_get_all_items!();",
                                "    make_vec_to_vec!();\n    fn get_all_items(&self) -> Vec<&T> { self.iter().rev().collect() }"),
    'member-method-outside-dictionary': (TRAIT, 'let valid = if cause.is_singleton() {', 'let valid = if cause.explain().is_ok() {'),
    'cfg-attribute': (CAUS, '    fn is_singleton(&self) -> bool {', '    #[cfg(not(test))]\n    fn is_singleton(&self) -> bool {'),
    'second-lock-while-guard-alive': (CAUS, PLAIN, "            let res = (causal_fn)(obs.to_owned())?;\n\n"
                                                   "            let mut guard = self.active.write().unwrap();\n"
                                                   "            *guard = res && *self.active.read().unwrap();\n\n            Ok(res)"),
    'flag-initialised-by-call': (MOD, "            active: Arc::new(RwLock::new(false)),\n            causal_type: CausalType::Singleton,\n"
                                      "            causal_fn: Some(causal_fn),",
                                 "            active: Arc::new(RwLock::new(id > 3)),\n            causal_type: CausalType::Singleton,\n"
                                 "            causal_fn: Some(causal_fn),"),
    'field-of-unmodelled-type': (MOD, "    has_context: bool,", "    has_context: bool,\n    history: Vec<bool>,"),
    'write-in-a-bool-function': (CAUS, SINGLETON, "        *self.active.write().unwrap() = true;\n        true"),
    'to-vec': (TRAIT, "        for cause in self.get_all_items() {\n            if !cause.is_active() {",
               "        for cause in self.to_vec().iter() {\n            if !cause.is_active() {"),
    'panic-in-a-total-function': (CAUS, SINGLETON, "        self.causal_fn.unwrap();\n        true"),
    'closure-with-effects': (TRAIT, NUM, "            .filter(|c| c.verify_all_causes(&[], None).is_ok())\n            .count() as NumericalValue"),
    'loop-in-loop': (TRAIT, LOOP, "        for c in self.get_all_items() {\n            for d in self.get_all_items() {\n"
                                  "                if !d.verify_all_causes(data, None)? { return Ok(false); }\n            }\n"
                                  "            if !c.verify_all_causes(data, None)? { return Ok(false); }\n        }"),
    'causal-fn-with-other-signature': (S + 'types/alias_types/mod.rs', 'pub type CausalFn = fn(NumericalValue) -> Result<bool, CausalityError>;',
                                       'pub type CausalFn = fn(NumericalValue, NumericalValue) -> Result<bool, CausalityError>;'),
    'default-became-required': (TRAIT, "    fn percent_active(&self) -> NumericalValue {\n        let count = self.number_active();\n"
                                       "        let total = self.len() as NumericalValue;\n        (count / total) * (100 as NumericalValue)\n    }",
                                "    fn percent_active(&self) -> NumericalValue;"),
    'recursion': (CAUS, SINGLETON, "        self.is_singleton()"),
    'struct-update-syntax': (MOD, "            description,\n            ty: PhantomData,\n        }\n    }\n\n    pub fn new_with_context(",
                             "            description,\n            ..Self::new(id, causal_fn, description)\n        }\n    }\n\n    pub fn new_with_context("),
    'graph-method-outside-vocabulary': (GRAPH, "(self.number_active() / self.size() as NumericalValue)",
                                        "(self.number_active() / self.graph.number_edges() as NumericalValue)"),
}
ACCEPT = {
    'unchanged': None,
    'question-mark-as-match': (CAUS, PLAIN, "            let res = match (causal_fn)(obs.to_owned()) {\n                Ok(v) => v,\n"
                                            "                Err(e) => return Err(e),\n            };\n"
                                            "            *self.active.write().unwrap() = res;\n            Ok(res)"),
    'matches': (CAUS, SINGLETON, "        matches!(self.causal_type, CausalType::Singleton)"),
    'or-pattern-and-wildcard': (CAUS, SINGLETON, "        match self.causal_type {\n            CausalType::Collection | CausalType::Graph => false,\n"
                                                 "            _ => true,\n        }"),
    'counter-loop': (TRAIT, "        self.get_all_items()\n            .iter()\n" + NUM,
                     "        let mut n: usize = 0;\n        for c in self.get_all_items() {\n            if c.is_active() {\n"
                     "                n += 1;\n            }\n        }\n        n as NumericalValue"),
    'explicit-index': (TRAIT, LOOP, LOOP.replace("for (i, cause) in self.get_all_items().iter().enumerate() {",
                                                  "let mut i = 0;\n        for cause in self.get_all_items() {")
                       .replace("                return Ok(false);\n            }\n", "                return Ok(false);\n            }\n            i += 1;\n")),
    'let-else': (CAUS, "            let causal_fn = self\n                .causal_fn\n                .expect(\"Causaloid::verify_single_cause: causal_fn is None\");",
                 "            let Some(causal_fn) = self.causal_fn else {\n                panic!(\"Causaloid::verify_single_cause: causal_fn is None\");\n            };"),
    'drop-guard': (CAUS, PLAIN, "            let res = (causal_fn)(obs.to_owned())?;\n            let mut guard = self.active.write().unwrap();\n"
                                "            *guard = res;\n            drop(guard);\n            let again = self.active.read().unwrap();\n"
                                "            let _unused = *again;\n            Ok(res)"),
}


def main():
    ap = argparse.ArgumentParser()
    ap.add_argument('--repo', default=os.environ.get('VERIF_REPO', '/repo'))
    a = ap.parse_args()
    bad = 0
    for expect_ok, table in ((False, REFUSE), (True, ACCEPT)):
        for name, edit in table.items():
            with tempfile.TemporaryDirectory() as tmp:
                shutil.copytree(os.path.join(a.repo, 'deep_causality', 'src'), os.path.join(tmp, 'deep_causality', 'src'))
                if edit:
                    f, old, new = edit
                    path = os.path.join(tmp, f)
                    s = open(path).read()
                    if s.count(old) < 1:
                        print(f'SKIP {name}: the source no longer contains the text this case edits')
                        continue
                    open(path, 'w').write(s.replace(old, new, 1))
                p = subprocess.run([sys.executable, os.path.join(HERE, 'rs2lean.py'), 'causable', '--repo', tmp, '--out', os.path.join(tmp, 'gen')],
                                   capture_output=True, text=True)
                r = json.loads(p.stdout)['causable']
                good = r['ok'] == expect_ok and (p.returncode == 0) == expect_ok
                bad += not good
                print(f"{'ok  ' if good else 'FAIL'} {'accept' if expect_ok else 'refuse'} {name:34s} {r.get('error', '')[:150]}")
    sys.exit(1 if bad else 0)


if __name__ == '__main__':
    main()
