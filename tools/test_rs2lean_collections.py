#!/usr/bin/env python3
"""Self-test of the `collections` translator (C18) on edited *copies* of the sources it reads — never touches the repo.

    python3 tools/test_rs2lean_collections.py [--repo /repo]

REFUSE: edits outside the grammar — the translator must fail closed (exit 2, reason printed).
ACCEPT: edits inside the grammar — the translator must still produce a file (whether the equality proofs of
Props/C18Gen.lean absorb the new text — they must for the meaning-preserving ones and must not for the others — is
checked by `./check C18`, not here).
"""
import os, sys, json, shutil, subprocess, tempfile, argparse

HERE = os.path.dirname(os.path.abspath(__file__))
S = 'deep_causality/src/'
INF, ASM, OBS = S + 'protocols/inferable/mod.rs', S + 'protocols/assumable/mod.rs', S + 'protocols/observable/mod.rs'
AIMPL, AMOD = S + 'types/reasoning_types/assumption/assumable.rs', S + 'types/reasoning_types/assumption/mod.rs'
EXT, MATH = S + 'extensions/inferable/mod.rs', S + 'utils/math_utils.rs'
LOOP_INF = ("        for element in self.get_all_items() {\n            if !element.is_inferable() {\n                return false;\n"
            "            }\n        }\n        true")
NUM_INF = ("    fn number_inferable(&self) -> NumericalValue {\n        self.get_all_items()\n            .into_iter()\n"
           "            .filter(|i| i.is_inferable())\n            .count() as NumericalValue")

REFUSE = {
    'match-guard': (OBS, "(self.observation() >= target_threshold) && (self.observed_effect() == target_effect)",
                    "match self.observation() >= target_threshold { true if self.observed_effect() == target_effect => true, _ => false }"),
    'two-accumulators': (INF, NUM_INF, "    fn number_inferable(&self) -> NumericalValue {\n        let mut n = 0;\n        let mut m = 0;\n"
                                       "        for i in self.get_all_items() { if i.is_inferable() { n += 1; } else { m += 1; } }\n        n as NumericalValue"),
    'break-in-loop': (INF, NUM_INF, "    fn number_inferable(&self) -> NumericalValue {\n        let mut n = 0;\n"
                                    "        for i in self.get_all_items() { if i.is_inferable() { n += 1; } else { break; } }\n        n as NumericalValue"),
    'iterator-used-after-while-let': (INF, NUM_INF, "    fn number_inferable(&self) -> NumericalValue {\n        let mut n = 0;\n"
                                      "        let mut it = self.get_all_items().into_iter();\n        while let Some(i) = it.next() { if i.is_inferable() { n += 1; } }\n"
                                      "        (n + it.count()) as NumericalValue"),
    'reversed-iteration': (INF, ".filter(|i| i.is_inferable())\n            .collect()", ".rev().filter(|i| i.is_inferable())\n            .collect()"),
    'filter-map-to-something-else': (ASM, ".filter(|a| a.assumption_valid())\n            .collect()",
                                     ".filter_map(|a| a.assumption_valid().then_some(self.get_all_items()[0]))\n            .collect()"),
    'retain-on-a-temporary': (ASM, ".filter(|a| a.assumption_valid())\n            .collect()", ".collect::<Vec<_>>()\n            .retain(|a| a.assumption_valid())"),
    'three-parameter-closure': (ASM, ".filter(|a| a.assumption_valid())\n            .count()", ".fold(0, |n, a, b| n + 1)"),
    'while-loop': (INF, LOOP_INF, "        let items = self.get_all_items();\n        let mut k = 0;\n        while k < items.len() {\n"
                                  "            if !items[k].is_inferable() { return false; }\n            k += 1;\n        }\n        true"),
    'return-inside-value-block': (INF, "        let one = 1.0;", "        let one = { if self.len() == 0 { return 0.0; } 1.0 };"),
    'override-in-extension': (EXT, "impl<T> InferableReasoning<T> for Vec<T>\nwhere\n    T: Inferable,\n{\n    make_len!();",
                              "impl<T> InferableReasoning<T> for Vec<T>\nwhere\n    T: Inferable,\n{\n"
                              "    fn number_inferable(&self) -> f64 { 0.0 }\n    make_len!();"),
    'member-value-vs-literal': (OBS, "(self.observation() >= target_threshold)", "(self.observation() >= 0.5)"),
    'map-sum': (INF, NUM_INF, "    fn number_inferable(&self) -> NumericalValue {\n        self.get_all_items().into_iter()"
                              ".map(|i| if i.is_inferable() { 1.0 } else { 0.0 }).sum::<f64>()"),
    'flag-initialised-by-call': (AMOD, "assumption_valid: Arc::new(RwLock::new(false))", "assumption_valid: Arc::new(RwLock::new(compute()))"),
    'store-to-non-cell': (AIMPL, "*guard_tested = true;", "*guard_tested = true; self.id = 3;"),
    'default-became-required': (INF, "    fn percent_non_inferable(&self) -> NumericalValue {\n        (self.number_non_inferable() / self.len() as "
                                     "NumericalValue) * (100 as NumericalValue)\n    }", "    fn percent_non_inferable(&self) -> NumericalValue;"),
    'local-captures-generated-name': (INF, "let non_inferable = self.number_non_inferable();",
                                      "let abs_num = self.number_non_inferable(); let non_inferable = abs_num;"),
    'unsigned-subtraction': (INF, "let total = self.len() as NumericalValue;", "let total = (self.len() - 0) as NumericalValue;"),
}
ACCEPT = {
    'unchanged': None,
    'mut-counter-loop': (INF, NUM_INF, "    fn number_inferable(&self) -> NumericalValue {\n        let mut n = 0;\n"
                                  "        for i in self.get_all_items() { if i.is_inferable() { n += 1; } }\n        n as NumericalValue"),
    'match-on-bool': (OBS, "(self.observation() >= target_threshold) && (self.observed_effect() == target_effect)",
              "match self.observation() >= target_threshold { true => self.observed_effect() == target_effect, false => false }"),
    # inside the grammar and transcribed as written (K.partial_cmp, i.e. `>` / `==`); it is *not* total_cmp, and is_inferable_eq fails
    'partial_cmp-instead-of-total_cmp': (INF, "(self.observation().total_cmp(&self.threshold()) == Ordering::Greater)",
                    "(self.observation().partial_cmp(&self.threshold()) == Some(Ordering::Greater))"),
    'fold-two-parameter-closure': (ASM, ".filter(|a| a.assumption_valid())\n            .count()", ".fold(0, |n, a| if a.assumption_valid() { n + 1 } else { n })"),
    'loop-to-all': (INF, LOOP_INF, "        self.get_all_items().iter().all(|element| element.is_inferable())"),
    'count-to-collect-len': (INF, NUM_INF, NUM_INF.replace(".count()", ".collect::<Vec<_>>()\n            .len()")),
    'typed-closure-param-and-deref': (ASM, ".filter(|a| !a.assumption_tested())", ".filter(|a: &&T| !(*a).assumption_tested())"),
    'direct-store': (AIMPL, "        let mut guard_tested = self.assumption_tested.write().unwrap();\n        *guard_tested = true;",
                     "        *self.assumption_tested.write().unwrap() = true;"),
    'block-statement-and-drop': (AIMPL, "        let mut guard_tested = self.assumption_tested.write().unwrap();\n        *guard_tested = true;",
                                 "        {\n            let mut g = self.assumption_tested.write().unwrap();\n            *g = true;\n            drop(g);\n        }"),
    'flipped-comparison': (OBS, "(self.observation() >= target_threshold)", "(target_threshold <= self.observation())"),
    'return-statement': (MATH, "    if val > ZERO {\n        val\n    } else {\n        MINUS_ONE * val\n    }",
                         "    if val > ZERO {\n        return val;\n    }\n    return MINUS_ONE * val;"),
}


def main():
    ap = argparse.ArgumentParser()
    ap.add_argument('--repo', default=os.environ.get('VERIF_REPO', '/repo'))
    a = ap.parse_args()
    bad = 0
    for expect_ok, table in ((False, REFUSE), (True, ACCEPT)):
        for name, edit in table.items():
            with tempfile.TemporaryDirectory() as tmp:
                shutil.copytree(os.path.join(a.repo, 'deep_causality', 'src'), os.path.join(tmp, 'deep_causality', 'src'))
                if edit:
                    f, old, new = edit
                    path = os.path.join(tmp, f)
                    s = open(path).read()
                    if s.count(old) != 1:
                        print(f'SKIP {name}: the source no longer contains the text this case edits')
                        continue
                    open(path, 'w').write(s.replace(old, new))
                p = subprocess.run([sys.executable, os.path.join(HERE, 'rs2lean.py'), 'collections', '--repo', tmp, '--out', os.path.join(tmp, 'gen')],
                                   capture_output=True, text=True)
                r = json.loads(p.stdout)['collections']
                good = r['ok'] == expect_ok and (p.returncode == 0) == expect_ok
                bad += not good
                print(f"{'ok  ' if good else 'FAIL'} {'accept' if expect_ok else 'refuse'} {name:32s} {r.get('error', '')[:140]}")
    sys.exit(1 if bad else 0)


if __name__ == '__main__':
    main()
