#!/usr/bin/env python3
"""mk_mutation_task.py <group-name> <count-per-property> <Cxx> [<Cyy> …] [--focus "<extra paragraph>"]
Creates /tmp/mut-<group>/{repo (detached worktree of /repo HEAD), out/, task.md}: the brief for a fresh sub-agent that is to seed
defects. The brief contains only the text of the properties — nothing from /verif."""
import sys, os, json, subprocess
args = sys.argv[1:]
focus = ''
if '--focus' in args:
    i = args.index('--focus'); focus = args[i + 1]; args = args[:i] + args[i + 2:]
g, count, ids = args[0], args[1], args[2:]
props = {json.loads(l)['id']: json.loads(l) for l in open(os.path.join(os.path.dirname(os.path.abspath(__file__)), '..', 'properties.jsonl'))}
d = f'/tmp/mut-{g}'
os.makedirs(d + '/out', exist_ok=True)
subprocess.run(['git', '-C', '/repo', 'worktree', 'add', '--detach', d + '/repo', 'HEAD'], capture_output=True)
txt = ''
for i in ids:
    p = props[i]
    txt += (f"### Property {i}: {p['title']}\n\nStatement: {p['statement']}\n\nQuantification: {p['quantifier']['text']}\n\n"
            f"Why the existing tests cannot settle it: {p['why_tests_cant']}\n\nCode it is anchored in: {', '.join(p['anchors']['files'])}\n\n")
open(d + '/task.md', 'w').write(f"""You are helping to evaluate a verification effort for the Rust workspace deepcausality-rs/deep_causality (a causal-reasoning library with
a Disruptor-style ring buffer, sliding windows, grids and a graph store). You get the text of semantic properties the code is supposed
to satisfy, and your own scratch git worktree of the code at {d}/repo (a detached worktree; work ONLY there and under {d}/out).
Strictly off limits: the directory /verif (do not list, read or search it) and the original checkout /repo (do not modify it). No network.

{txt}
## Task

For EACH property above produce {count} *distinct* source changes ("seeded defects") to the library code, each of which
 (a) makes the property false,
 (b) still compiles (`cargo build --workspace --offline`),
 (c) passes the repository's existing test suite unedited: `cd {d}/repo && cargo nextest run --workspace --no-fail-fast --offline` (803 tests; all must pass),
 (d) needs something *specific* to manifest — a particular multi-step operation sequence, an unusual input/size/configuration, a crash of a
     corner case, a particular thread interleaving, or two cooperating sites that each look fine alone — NOT something ordinary use or a
     trivial smoke test would expose at once. Prefer realistic slips a maintainer could make (off-by-one at a boundary, wrong operand after a
     refactoring, a dropped branch, a weakened memory ordering, a stale cached value, an early return, swapped arguments), in the files the
     property is anchored in or in code they call. Vary the mechanism between your changes.
{focus}
For each change k (numbered per property, e.g. C19-1, C19-2) write into {d}/out/<id>-<k>/ :
  - patch.diff   : `git diff` against HEAD of the worktree (only library source files; do not touch tests, Cargo files or CI files),
  - demo.rs : a demonstration — an integration test file that can be dropped into the matching crate's `tests/` directory
    (say which crate in notes.md) — that FAILS (assertion/panic/hang with timeout) with the change applied and PASSES without it; for
    changes that need a thread interleaving, a stress loop or a hand-driven sequence of API calls from several threads is acceptable, but say how
    reliable it is,
  - notes.md     : which property it breaks and why, what exactly is needed for it to manifest, the commands you ran and what you observed.
You MUST verify all of (b), (c) and the demonstration yourself, both with and without the change, and leave the worktree clean
(`git -C {d}/repo checkout -- . && git -C {d}/repo clean -fd`) after each change. Build output may live in the worktree's target directory.
Note: a cfg flag `deep_causality_verif` exists in dcl_data_structures (file ring_buffer/verif_sync.rs and cfg-guarded imports); it is
verification scaffolding — leave those lines alone and make sure a change to the ring buffer also compiles with
`RUSTFLAGS='--cfg deep_causality_verif'` (use a separate --target-dir for that build).
Final message: a table of the changes (id, files touched, one-line description, what it needs to manifest, test-suite result, demo result).
""")
print(d)
