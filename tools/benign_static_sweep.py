#!/usr/bin/env python3
"""benign_static_sweep.py [<benign dir> …]

Static false-alarm sweep: for every behaviour-preserving patch under /verif/benign (or the directories given) apply it to a scratch
worktree of /repo's HEAD, run EVERY translator on the patched source into a scratch copy of the Lean project, rebuild every theorem
module that is tied to generated definitions, and report which translator refused / which theorem module no longer checks. Nothing in
/repo or /verif/lean is touched; the scratch worktree and the Lean copy are removed afterwards. Run this after any change to a
translator or to a `Props/*Gen` proof: it is how a loss of quietness shows up (≈ 25 s per patch).
"""
import subprocess, glob, os, json, sys, shutil, tempfile

VERIF = os.path.dirname(os.path.dirname(os.path.abspath(__file__)))
MODS = ('DcVerif.Props.C01Gen DcVerif.Props.C02Gen DcVerif.Props.C03Gen DcVerif.Props.C04Gen DcVerif.Props.C05Gen DcVerif.Props.C06Gen '
        'DcVerif.Props.C07Gen DcVerif.Props.C07 DcVerif.Props.C08Gen DcVerif.Props.C09Gen DcVerif.Props.C11Gen DcVerif.Props.C12Gen '
        'DcVerif.Props.C13Gen DcVerif.Props.C13WaitGen DcVerif.Props.C14Gen DcVerif.Props.C14MGen DcVerif.Props.C15Gen DcVerif.Props.C01Store DcVerif.Props.C16 '
        'DcVerif.Props.C17 DcVerif.Props.C18Gen DcVerif.Props.C19 DcVerif.Props.C05 DcVerif.Lemmas.RingMultiHBW')


def main():
    dirs = sys.argv[1:] or sorted(glob.glob(os.path.join(VERIF, 'benign', '*')))
    tmp = tempfile.mkdtemp(prefix='benign-sweep-')
    wt, lean = os.path.join(tmp, 'repo'), os.path.join(tmp, 'lean')
    subprocess.run(['git', '-C', '/repo', 'worktree', 'add', '--detach', wt, 'HEAD'], capture_output=True, check=True)
    shutil.copytree(os.path.join(VERIF, 'lean'), lean, symlinks=True)
    gen = os.path.join(lean, 'DcVerif', 'Gen')
    alarms = []
    try:
        for d in dirs:
            bid = os.path.basename(d.rstrip('/'))
            a = subprocess.run(['git', '-C', wt, 'apply', os.path.join(d, 'patch.diff')], capture_output=True, text=True)
            if a.returncode:
                print(bid, 'patch does not apply'); continue
            t = subprocess.run([sys.executable, os.path.join(VERIF, 'tools', 'rs2lean.py'), 'all', '--repo', wt, '--out', gen],
                               capture_output=True, text=True)
            rep = json.loads(t.stdout)
            refused = {k: v['error'][:110] for k, v in rep.items() if not v['ok']}
            notes = [k for k, v in rep.items() if v.get('note')]
            b = subprocess.run('lake build ' + MODS + " 2>&1 | grep -E '^error: DcVerif' | head -3", shell=True, cwd=lean,
                               capture_output=True, text=True).stdout.strip()
            if refused or b:
                alarms.append(bid)
            print(bid, 'ALARM' if refused or b else 'QUIET', refused or '', b[:200], ('fail-open: ' + ','.join(notes)) if notes else '', flush=True)
            subprocess.run(['git', '-C', wt, 'checkout', '--', '.']); subprocess.run(['git', '-C', wt, 'clean', '-fdq'])
    finally:
        subprocess.run(['git', '-C', '/repo', 'worktree', 'remove', '--force', wt], capture_output=True)
        shutil.rmtree(tmp, ignore_errors=True)
    print('TOTAL', len(dirs), 'static alarms:', len(alarms), alarms)


if __name__ == '__main__':
    main()
