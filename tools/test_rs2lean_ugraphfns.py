#!/usr/bin/env python3
"""Self-test of the `ugraphfns` translator (C08) on edited *copies* of the sources it reads — never touches the repo.

    python3 tools/test_rs2lean_ugraphfns.py [--repo /repo]

REFUSE: edits outside the grammar — the translator must fail closed (Unsupported, reason printed).
ACCEPT: meaning-preserving edits — the translator must still produce a file (whether the equality proofs of
Props/C08Gen.lean absorb the new text is checked by `./check C08`, not here).
"""
import os, sys, shutil, tempfile, pathlib, argparse

HERE = os.path.dirname(os.path.abspath(__file__))
sys.path.insert(0, HERE)
import rs2lean_ugraphfns as U          # noqa: E402
from rsexpr import Unsupported          # noqa: E402

D = 'ultragraph/src/storage/matrix_graph/'
GL, GR, GS, MOD = 'graph_like.rs', 'graph_root.rs', 'graph_storage.rs', 'mod.rs'
GET_NODE = ('        if !self.contains_node(index) {\n            None\n        } else {\n'
            '            let k = self.index_map.get(&index).expect("index not found");\n            self.node_map.get(k)\n        }')
ALL_NODES_LOOP = 'for val in self.node_map.values() {\n            res.push(val);\n        }'

REFUSE = {
    'while-loop': (GS, ALL_NODES_LOOP, 'let mut it = self.node_map.values();\n        while let Some(val) = it.next() {\n'
                                       '            res.push(val);\n        }'),
    'return-in-loop': (GS, 'res.push(val);', 'if res.len() > 3 { return res; } res.push(val);'),
    'unknown-map-method': (GL, 'self.index_map.get(&index).is_some()', 'self.index_map.get_key_value(&index).is_some()'),
    'unknown-graph-method': (GL, 'self.graph.add_edge(*k, *l, 0);', 'self.graph.update_edge(*k, *l, 0);'),
    'weight-of-remove_edge-used': (GL, 'self.graph.remove_edge(*k, *l);',
                                   'let w = self.graph.remove_edge(*k, *l); if w > 3 { return Ok(()); }'),
    'closure-with-effect': (GR, 'self.node_map.get(&self.root_index.unwrap())', 'self.root_index.and_then(|r| self.get_node(r.index()))'),
    'unsafe': (GS, 'self.graph.edge_count()', 'unsafe { self.graph.edge_count() }'),
    'truncating-cast': (GL, 'node_index.index()\n', '(node_index.index() as u32) as usize\n'),
    'second-impl-target': (MOD, 'impl<T> UltraMatrixGraph<T> {', 'struct Other; impl Other { fn f() {} }\nimpl<T> UltraMatrixGraph<T> {'),
    'extra-field': (MOD, '    index_map: IndexMap,\n}', '    index_map: IndexMap,\n    extra: usize,\n}'),
    'cfg': (GL, '    fn contains_node(', '    #[cfg(test)]\n    fn contains_node('),
    'recursion': (GL, 'self.index_map.get(&index).is_some()', 'self.get_node(index).is_some()'),
    'division': (GR, 'Ok(self.node_map.len())', 'Ok(self.node_map.len() / 2)'),
    'missing-fn': (GS, 'fn number_edges', 'fn number_of_edges'),
    'err-payload-with-effect': (GL, 'return Err(UltraGraphError(format!("index {} not found", index)));',
                                'return Err(UltraGraphError(format!("index {} not found", self.add_node_dbg(index))));'),
    'macro_rules': (GL, 'impl<T> GraphLike<T>', 'macro_rules! m { () => {} }\nimpl<T> GraphLike<T>'),
    'labelled-break': (GL, 'for b in outgoing {', "'l: for b in outgoing { if false { break 'l; }"),
    'alias-of-the-graph': (GS, 'self.graph.edge_count()', '{ let g = &self.graph; g.edge_count() }'),
    'mutation-in-&self': (GS, 'self.graph.edge_count()', '{ self.node_map.clear(); 0 }'),
    'or-pattern': (GL, GET_NODE, 'match self.index_map.get(&index) { Some(k) => self.node_map.get(k), None | Some(_) => None }'),
    'astar-swapped-closure': ('graph_algorithms.rs', '|e| *e.weight(),\n            |_| 0,', '|_| 0,\n            |e| *e.weight(),'),
}
ACCEPT = {
    'match': (GL, GET_NODE, 'match self.index_map.get(&index) {\n            Some(k) => self.node_map.get(k),\n            None => None,\n        }'),
    'question-mark': (GL, GET_NODE, 'let k = self.index_map.get(&index)?;\n        self.node_map.get(k)'),
    'let-else': (GL, GET_NODE, 'let Some(k) = self.index_map.get(&index) else {\n            return None;\n        };\n        self.node_map.get(k)'),
    'and_then': (GL, GET_NODE, 'self.index_map.get(&index).and_then(|k| self.node_map.get(k))'),
    'contains_key': (GL, 'self.index_map.get(&index).is_some()', 'self.index_map.contains_key(&index)'),
    'collect': (GS, 'let mut res = Vec::with_capacity(self.graph.node_count());\n\n        ' + ALL_NODES_LOOP + '\n\n        res',
                'self.node_map.values().collect()'),
    'extend': (GS, ALL_NODES_LOOP, 'res.extend(self.node_map.values());'),
    'private-helper': (MOD, '    pub fn new_with_capacity(', '    fn lookup(&self, i: usize) -> Option<NodeIndex> {\n        self.index_map.get(&i).copied()\n    }\n\n    pub fn new_with_capacity('),
    'attribute+comment': (GL, '    fn contains_node(', '    #[inline(always)] /* hot */\n    fn contains_node('),
    'if-let': (GR, 'if self.contains_root_node() {\n            self.node_map.get(&self.root_index.unwrap())\n        } else {\n            None\n        }',
               'if let Some(r) = self.root_index {\n            self.node_map.get(&r)\n        } else {\n            None\n        }'),
    'tuple-match': (GL, 'let k = self.index_map.get(&a).expect("index not found");\n        let l = self.index_map.get(&b).expect("index not found");\n        self.graph.has_edge(*k, *l)',
                    'match (self.index_map.get(&a), self.index_map.get(&b)) {\n            (Some(k), Some(l)) => self.graph.has_edge(*k, *l),\n            _ => false,\n        }'),
    'debug_assert': (GL, 'let k = *self.index_map.get(&index).unwrap();', 'let k = *self.index_map.get(&index).unwrap();\n        debug_assert_eq!(k.index(), index);'),
    'previous-value-of-remove': (GL, '        self.node_map.remove(&k);\n', '        let old = self.node_map.remove(&k);\n        debug_assert!(old.is_some());\n'),
}


def run(repo, f, old, new):
    tmp = pathlib.Path(tempfile.mkdtemp(prefix='ugfns-'))
    try:
        shutil.copytree(pathlib.Path(repo) / D, tmp / D)
        p = tmp / D / f
        s = p.read_text()
        if old not in s:
            return 'edit does not apply (the source has changed): ' + old[:50]
        p.write_text(s.replace(old, new, 1))
        try:
            U.gen_ugraphfns(tmp)
            return None
        except Unsupported as ex:
            return 'Unsupported: ' + str(ex)
    finally:
        shutil.rmtree(tmp, ignore_errors=True)


def main():
    ap = argparse.ArgumentParser()
    ap.add_argument('--repo', default=os.environ.get('VERIF_REPO', '/repo'))
    a = ap.parse_args()
    bad = 0
    for name, (f, old, new) in REFUSE.items():
        r = run(a.repo, f, old, new)
        ok = r is not None and r.startswith('Unsupported')
        bad += not ok
        print(f'{"ok  " if ok else "FAIL"} refuse {name}: {r}')
    for name, (f, old, new) in ACCEPT.items():
        r = run(a.repo, f, old, new)
        bad += r is not None
        print(f'{"ok  " if r is None else "FAIL"} accept {name}' + (f': {r}' if r else ''))
    sys.exit(1 if bad else 0)


if __name__ == '__main__':
    main()
