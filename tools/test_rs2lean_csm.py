#!/usr/bin/env python3
"""Self-test of the `csm` translator (C03) on edited *copies* of the sources it reads — never touches the repo.

    python3 tools/test_rs2lean_csm.py [--repo /repo]

REFUSE: edits outside the grammar (or reaching a run-time panic) — the translator must fail closed (exit 2, reason printed).
SAME:   meaning-preserving edits the symbolic execution maps to the *same* generated text (up to parameter names).
ACCEPT: meaning-preserving edits that give a different generated text (whether the proofs of Props/C03Gen.lean absorb it is
        checked by `./check C03`, not here).
DIFFER: semantic edits — the translator must produce a text that differs from the unedited one (what breaks then is a theorem).
"""
import os, sys, json, shutil, subprocess, tempfile, argparse

HERE = os.path.dirname(os.path.abspath(__file__))
D = 'deep_causality/src/types/csm_types/'
MOD, STATE, ACTION = D + 'mod.rs', D + 'csm_state.rs', D + 'csm_action.rs'
ADD_CHECK = ("        if self.state_actions.borrow().get(&idx).is_some() {\n"
             "            return Err(UpdateError(format!(\"State {} already exists.\", idx)));\n        }\n")
REMOVE_CHECK = ("        let state_action = binding.get(&id);\n        if state_action.is_none() {\n"
                "            return Err(UpdateError(format!(\n                \"State {} does not exists and  cannot be removed\",\n"
                "                id\n            )));\n        }\n")
NEW_LOOP = ("        for (state, action) in state_actions {\n            state_map.insert(*state.id(), (state, action));\n        }\n\n"
            "        Self {")
FIRE = "if trigger && action.fire().is_err() {"
EVALALL_FOR = "        for (_, (state, action)) in self.state_actions.borrow().iter() {\n            let eval = state.eval();\n"

REFUSE = {
    'while-loop': (MOD, NEW_LOOP, "        let mut i = 0;\n        while i < state_actions.len() {\n            let (state, action) = state_actions[i];\n"
                                  "            state_map.insert(*state.id(), (state, action));\n            i += 1;\n        }\n\n        Self {"),
    'cfg-attribute': (MOD, "    pub fn len(&self) -> usize {", "    #[cfg(not(test))]\n    pub fn len(&self) -> usize {"),
    'unsafe': (MOD, "        self.state_actions.borrow().len()", "        unsafe { (*self.state_actions.as_ptr()).len() }"),
    'entry-api': (MOD, ADD_CHECK, "        if let std::collections::hash_map::Entry::Occupied(_) = self.state_actions.borrow_mut().entry(idx) {\n"
                                  "            return Err(UpdateError(format!(\"State {} already exists.\", idx)));\n        }\n"),
    'double-borrow-panics': (MOD, ADD_CHECK, "        let held = self.state_actions.borrow();\n        if held.get(&idx).is_some() {\n"
                                             "            return Err(UpdateError(format!(\"State {} already exists.\", idx)));\n        }\n"),
    'unwrap-may-panic': (MOD, REMOVE_CHECK, "        let _present = binding.get(&id).unwrap();\n"),
    'impl-drop': (MOD, "pub type CSMStateActions", "impl<'l, D, S, T, ST, V> Drop for CSM<'l, D, S, T, ST, V>\nwhere\n    D: Datable + Clone + Copy,\n"
                  "    S: Spatial<V> + Clone + Copy,\n    T: Temporable<V> + Clone + Copy,\n    ST: SpaceTemporal<V> + Clone + Copy,\n"
                  "    V: Default + Copy + Clone + Hash + Eq + PartialEq + Add<V, Output = V> + Sub<V, Output = V> + Mul<V, Output = V>,\n"
                  "{\n    fn drop(&mut self) {}\n}\n\npub type CSMStateActions"),
    'closure-in-local': (MOD, "        let trigger =\n            eval.expect(\"CSM[eval]: Failed to unwrap evaluation result from causal state}\");\n\n"
                              "        // If the state evaluated to true, fire the associated action.\n        if trigger && action.fire().is_err() {",
                         "        let trigger =\n            eval.expect(\"CSM[eval]: Failed to unwrap evaluation result from causal state}\");\n\n"
                         "        let go = || action.fire();\n        if trigger && go().is_err() {"),
    'data-inspected': (MOD, "        let eval = state.eval_with_data(&data);", "        if data.is_nan() {\n            return Ok(());\n        }\n"
                                                                                  "        let eval = state.eval_with_data(&data);"),
    'second-field': (MOD, "    state_actions: RefCell<CSMMap<'l, D, S, T, ST, V>>,\n}", "    state_actions: RefCell<CSMMap<'l, D, S, T, ST, V>>,\n"
                                                                                        "    calls: RefCell<usize>,\n}"),
    'version-as-key': (MOD, NEW_LOOP, NEW_LOOP.replace("*state.id()", "*state.version()")),
    'capacity': (MOD, "        binding.remove(&id);\n", "        binding.remove(&id);\n        if binding.capacity() > 64 {\n            binding.shrink_to_fit();\n        }\n"),
    'enumeration-inside-loop': (MOD, NEW_LOOP, "        for (state, action) in state_actions {\n            for k in state_map.keys() {\n                let _ = k;\n"
                                               "            }\n            state_map.insert(*state.id(), (state, action));\n        }\n\n        Self {"),
    'nested-loops': (MOD, NEW_LOOP, "        for (state, action) in state_actions {\n            for (s2, _a2) in state_actions {\n                let _ = s2;\n"
                                    "            }\n            state_map.insert(*state.id(), (state, action));\n        }\n\n        Self {"),
    'unsigned-subtraction': (MOD, "        self.state_actions.borrow_mut().insert(idx, state_action);\n\n        Ok(())\n    }\n\n    /// Removes",
                             "        self.state_actions.borrow_mut().insert(idx - 0, state_action);\n\n        Ok(())\n    }\n\n    /// Removes"),
    'state-eval-overridden-by-macro': (STATE, "        self.causaloid.verify_single_cause(&self.data)", "        todo!()"),
}

SAME = {
    'unchanged': None,
    'comments-attributes': (MOD, "    pub fn len(&self) -> usize {", "    #[inline]\n    /* size */ #[must_use]\n    pub fn len(&self) -> usize { // n"),
    'add-match': (MOD, ADD_CHECK, "        match self.state_actions.borrow().get(&idx) {\n"
                                  "            Some(_) => return Err(UpdateError(format!(\"State {} already exists.\", idx))),\n            None => {}\n        }\n"),
    'add-contains-key': (MOD, "self.state_actions.borrow().get(&idx).is_some()", "self.state_actions.borrow().contains_key(&idx)"),
    'remove-contains-key': (MOD, REMOVE_CHECK, "        if !binding.contains_key(&id) {\n            return Err(UpdateError(format!(\"gone {}\", id)));\n        }\n"),
    'remove-let-else': (MOD, REMOVE_CHECK, "        let Some(_) = binding.get(&id) else {\n            return Err(UpdateError(format!(\"gone {}\", id)));\n        };\n"),
    'new-iter-deref-pattern': (MOD, NEW_LOOP, "        for &(state, action) in state_actions.iter() {\n            let key = *state.id();\n"
                                              "            let entry = (state, action);\n            state_map.insert(key, entry);\n        }\n\n        Self {"),
    'evalall-values': (MOD, EVALALL_FOR, "        let table = self.state_actions.borrow();\n        for (state, action) in table.values() {\n            let eval = state.eval();\n"),
    'evalall-collect': (MOD, EVALALL_FOR, "        let pairs: Vec<_> = self.state_actions.borrow().values().copied().collect();\n"
                                          "        for (state, action) in pairs {\n            let eval = state.eval();\n"),
    'state-eval-through-eval-with-data': (STATE, "        self.causaloid.verify_single_cause(&self.data)", "        self.eval_with_data(&self.data)"),
    'fire-local': (ACTION, "        (self.action)()", "        let f = self.action;\n        f()"),
}

ACCEPT = {
    'remove-match-on-remove': (MOD, REMOVE_CHECK + "\n        // remove the new state/action at the idx position\n        binding.remove(&id);\n\n        Ok(())",
                               "        match binding.remove(&id) {\n            Some(_) => Ok(()),\n            None => Err(UpdateError(format!(\"gone {}\", id))),\n        }"),
    'is-empty-via-len': (MOD, "self.state_actions.borrow().is_empty()", "self.len() == 0"),
    'add-insert-then-restore': (MOD, ADD_CHECK + "\n        // Insert the new state/action at the idx position\n        self.state_actions.borrow_mut().insert(idx, state_action);\n",
                                "        let mut binding = self.state_actions.borrow_mut();\n        if let Some(previous) = binding.insert(idx, state_action) {\n"
                                "            binding.insert(idx, previous);\n            return Err(UpdateError(format!(\"State {} already exists.\", idx)));\n        }\n"),
}

DIFFER = {
    'add-key-off-by-one': (MOD, "        self.state_actions.borrow_mut().insert(idx, state_action);\n\n        Ok(())\n    }\n\n    /// Removes",
                           "        self.state_actions.borrow_mut().insert(idx + 1, state_action);\n\n        Ok(())\n    }\n\n    /// Removes"),
    'remove-absent-ok': (MOD, REMOVE_CHECK, "        let state_action = binding.get(&id);\n        if state_action.is_none() {\n            return Ok(());\n        }\n"),
    'evals-on-stored-data': (MOD, "let eval = state.eval_with_data(&data);", "let eval = state.eval();"),
    'new-first-wins': (MOD, NEW_LOOP, "        for (state, action) in state_actions {\n            if !state_map.contains_key(state.id()) {\n"
                                      "                state_map.insert(*state.id(), (state, action));\n            }\n        }\n\n        Self {"),
    'action-not-called': (ACTION, "        (self.action)()", "        Ok(())"),
    'fire-regardless': (MOD, FIRE, "if action.fire().is_err() && trigger {"),
}


def run(repo_src, edit, tmp):
    shutil.copytree(os.path.join(repo_src, 'deep_causality', 'src', 'types', 'csm_types'),
                    os.path.join(tmp, 'deep_causality', 'src', 'types', 'csm_types'))
    if edit:
        f, old, new = edit
        path = os.path.join(tmp, f)
        s = open(path).read()
        if s.count(old) < 1:
            return None, None
        open(path, 'w').write(s.replace(old, new, 1))
    p = subprocess.run([sys.executable, os.path.join(HERE, 'rs2lean.py'), 'csm', '--repo', tmp, '--out', os.path.join(tmp, 'gen')],
                       capture_output=True, text=True)
    r = json.loads(p.stdout)['csm']
    text = open(os.path.join(tmp, 'gen', 'Csm.lean')).read() if r['ok'] else None
    return r, text


def main():
    ap = argparse.ArgumentParser()
    ap.add_argument('--repo', default=os.environ.get('VERIF_REPO', '/repo'))
    a = ap.parse_args()
    with tempfile.TemporaryDirectory() as tmp:
        _, base = run(a.repo, None, tmp)
    bad = 0
    for kind, table in (('refuse', REFUSE), ('same', SAME), ('accept', ACCEPT), ('differ', DIFFER)):
        for name, edit in table.items():
            with tempfile.TemporaryDirectory() as tmp:
                r, text = run(a.repo, edit, tmp)
                if r is None:
                    print(f'SKIP {name}: the source no longer contains the text this case edits')
                    continue
                if kind == 'refuse':
                    good = not r['ok']
                elif kind == 'same':
                    good = r['ok'] and text == base
                elif kind == 'accept':
                    good = r['ok']
                else:
                    good = r['ok'] and text != base
                bad += not good
                print(f"{'ok  ' if good else 'FAIL'} {kind:6s} {name:36s} {r.get('error', '')[:150]}")
    sys.exit(1 if bad else 0)


if __name__ == '__main__':
    main()
