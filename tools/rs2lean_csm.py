"""rs2lean generator `csm` (C03): the causal state machine -> Gen/Csm.lean.

Sources read (all from the *current* tree):
    deep_causality/src/types/csm_types/mod.rs          type aliases CSMMap / CSMStateActions, struct CSM, every inherent method
    deep_causality/src/types/csm_types/csm_state.rs    struct CausalState, eval, eval_with_data (+ whatever they call)
    deep_causality/src/types/csm_types/csm_action.rs   struct CausalAction, fire

What is emitted: one Lean definition per Rust function
    CSM::new is_empty len add_single_state update_single_state remove_single_state eval_single_state eval_all_states
    update_all_states, CausalState::eval eval_with_data, CausalAction::fire
written against the vocabulary of the hand model only (`Model/CsmPrim.lean`: `Table`, `lookup`, `upsert`, `delete`, `entries`;
`Spec/Csm.lean`: `Env`, `Ev`, `Out`, `Verdict`):
  * `HashMap<usize, (&CausalState, &CausalAction)>` is a `Table σ α` (`iter.map(|x| (k, v)).collect()` into one = the loop that
    inserts every `(k, v)` into a fresh map); `get`/`contains_key` = `lookup`, `insert` = `upsert`
    (its result = `lookup` before), `remove` = `delete` (result = `lookup` before), `len` = `List.length`, `is_empty` =
    `List.isEmpty`, `new`/`with_capacity` = `[]`; `iter`/`values`/`keys` = `entries m order` for an enumeration order `order` that is
    a parameter of the generated definition (external nondeterminism); `RefCell`/`RwLock`/`Mutex`/`Arc` around the map is a plain
    cell (a second borrow that would panic at run time is refused);
  * state and action references are opaque (`σ`, `α`), data values are opaque (`δ`);
    `causaloid.verify_single_cause(d)` on the state `s` is `env.eval s d` and leaves `Ev.call s d` in the effect log,
    the action's function pointer called on the action `a` is `env.fire a` (`true` = `Ok(())`) and leaves `Ev.fire a`;
    the data field of a state is `env.stored s`, its id field (getter `id()`) is `key s`;
  * every `&self` method returns `Table σ α × Out σ α δ` (the table when the function returns — also on the error path —, `Ok`/`Err`
    and the effect log in program order); `new` returns the table; `len`/`is_empty` the number / flag;
    `CausalState::eval…` return `Verdict × log`, `CausalAction::fire` `Bool × log`.

Method: the bodies are parsed (rsblock's parser extended by refutable patterns, `if let`, `let … else`, `match` with parsed
patterns, closures as arguments, `return` in expression position) and **symbolically executed**. Locals are substituted; a value
of type `Option`/`Result`/`bool` that decides control flow (`is_some()`, `is_none()`, `is_err()`, `unwrap()`, `expect()`, `?`,
`ok_or`, `map_err`, `match`, `if let`, `let else`, `if`, `&&`, `||`, `!`) *forks* the execution on the Lean term it stands for
(`match lookup t id with | none => … | some v1 => …`, `match env.eval s d with | .err | .okTrue | .okFalse`, `if env.fire a then … else …`);
what is learnt about a term is remembered along the path, so `is_none()` + `unwrap()`, `match`, `if let`, `let else`, `?` on
`ok_or(..)`, `contains_key` vs `get(..).is_some()`, early return vs `else`, renamed locals / fields / helpers, private helper
functions (inlined) and reordered independent `let`s all give the *same* decision tree.  The result is a decision tree whose leaves
are `(table, ⟨ok, log⟩)`.  A `for` loop becomes an auxiliary recursive definition over the list it walks (`<fn>.loopN`): parameters =
what the body changes (found by executing the body; the table cell, the effect log, `let mut` locals), `[]` case = the rest of the
function after the loop, `x :: rest` case = the body, where `return` leaves the function, falling off the end / `continue` calls
`loopN` on `rest`, and `break` goes on with the rest of the function right there (inlined).

Recognised calls. Map (through a guard, or a `let mut` local map): get contains_key insert remove len is_empty clear iter values keys;
cell: borrow borrow_mut | read/write/lock + unwrap/expect, `*guard = map`, `drop(guard)`; Option/Result: is_some is_none is_ok is_err
unwrap expect ok_or ok_or_else ok map_err map and_then unwrap_or_else copied cloned as_ref `?`; slices / iterators: iter into_iter
copied cloned map collect len count; `Ok Err Some None`, `…Error(..)`, `format!`, `HashMap::new/with_capacity/default`,
`RefCell::new`-like wrappers, `Self { <cell field>: … }`, `Self::helper(..)`, `self.helper(..)`, `state.method(..)`,
`action.method(..)`, the derived getters `id()` / `data()` of a state, `causaloid.verify_single_cause(d)`, `(self.<fn field>)()`;
usize `+ * == != < <= > >=` (no overflow assumed), `&&` `||` `!`, casts to usize/u64.
Identification by type, not by name: the cell field of `CSM`, the data / causaloid fields of `CausalState` (its id = the first
`usize` field, the position `#[derive(Constructor)]` gives it), the `fn` field of `CausalAction`.

Nothing is normalised: which key a map call gets, which table term ends up in the cell on which path, which branch returns
`Ok`/`Err`, the order of effects in the log, and terms such as `lookup (upsert t k v) k` stay as written — the equality proofs of
`Props/C03Gen.lean` absorb harmless variation.

Fail closed (`Unsupported`, the obligations of C03 then count as broken): any construct, method, macro, type or item outside the
above; a path that reaches a panic (`unwrap()` on a value that is `None`/`Err` on that path, a second `RefCell` borrow while a guard
is alive); `while`/`loop`, labelled `break`/`continue`, a loop inside a loop; compound assignment; unsigned `-`; `#[cfg]`, `unsafe`, `macro_rules!`; a trait `impl` for `CSM`;
a missing / duplicated / re-typed function.
"""
import re
from rsexpr import Unsupported, strip_comments
from rsblock import BlockParser, fn_items, split_top

DIR = 'deep_causality/src/types/csm_types/'
F_MOD, F_STATE, F_ACTION = DIR + 'mod.rs', DIR + 'csm_state.rs', DIR + 'csm_action.rs'

# ----------------------------------------------------------------------------------------------
# tokens: rsexpr's + lifetimes, chars, floats
# ----------------------------------------------------------------------------------------------
TOKEN = re.compile(r"""
    (?P<ws>\s+)
  | (?P<chr>'(?:[^'\\]|\\.)')
  | (?P<life>'[A-Za-z_][A-Za-z_0-9]*)
  | (?P<flt>\d[\d_]*\.\d[\d_]*(?:_?f(?:32|64))?|\d[\d_]*_?f(?:32|64))
  | (?P<num>\d[\d_]*(?:(?:u|i)(?:8|16|32|64|128|size))?)
  | (?P<id>[A-Za-z_][A-Za-z_0-9]*)
  | (?P<op><<=|>>=|<<|>>|==|!=|<=|>=|&&|\|\||::|->|=>|\+=|-=|\*=|/=|\.\.=|\.\.|[-+*/%&|^!<>=.,;:(){}\[\]\#?@])
""", re.X)


def tokenize(s):
    out, i = [], 0
    while i < len(s):
        m = TOKEN.match(s, i)
        if not m:
            raise Unsupported('cannot tokenise at: ' + s[i:i + 30])
        i = m.end()
        if m.lastgroup != 'ws':
            out.append((m.lastgroup, m.group(m.lastgroup)))
    return out


def strip_strings(src):
    return re.sub(r'"(?:[^"\\]|\\.)*"', '__str', src)


# ----------------------------------------------------------------------------------------------
# parser: rsblock + refutable patterns, if-let, let-else, parsed match arms, closures, `return` as an expression
# AST additions: ('iflet', pat, expr, block, else|None)  ('match', scrut, [(pat, expr)])  ('closure', [pat], expr)
#                ('return_expr', expr|None)   stmt ('let', pat, ty, expr, else_block|None)
# pat ::= ('wild',) | ('bind', name) | ('tuple', [pat]) | ('ctor', 'Some'|'Ok'|'Err', pat) | ('none',) | ('lit', bool)
# ----------------------------------------------------------------------------------------------
class CsmParser(BlockParser):
    def atom(self):
        kind, v = self.peek()
        if kind in ('flt', 'chr', 'life'):
            raise Unsupported(f'literal / lifetime {v} in expression position')
        if kind == 'id' and v == 'move' and self.peek(1)[1] in ('|', '||'):
            self.next()
            kind, v = self.peek()
        if kind == 'op' and v in ('|', '||'):
            return self.closure()
        if kind == 'id' and v in ('break', 'continue'):
            self.next()
            if self.peek()[1] not in (';', '}', ','):
                raise Unsupported(f'`{v}` with a label or a value')
            return ('jump', v)
        if kind == 'id' and v == 'return':
            self.next()
            if self.peek()[1] in (';', '}', ',', ')'):
                return ('return_expr', None)
            return ('return_expr', self.expr())
        return super().atom()

    def closure(self):
        params = []
        if self.next()[1] == '|':
            while self.peek()[1] != '|':
                params.append(self.pattern())
                if self.peek()[1] == ':':
                    self.next()
                    self.type_text((',', '|'))
                if self.peek()[1] == ',':
                    self.next()
                elif self.peek()[1] != '|':
                    raise Unsupported('closure parameters: unexpected token ' + self.peek()[1])
            self.next()
        if self.peek()[1] == '->':
            raise Unsupported('closure with return type')
        saved, self.no_struct = self.no_struct, 0
        body = self.expr()
        self.no_struct = saved
        return ('closure', params, body)

    def pattern(self):
        kind, v = self.next()
        if v == '&':
            if self.peek()[1] == 'mut':
                self.next()
            return self.pattern()
        if kind == 'id' and v == 'ref':
            return self.pattern()
        if kind == 'id' and v == 'mut':
            p = self.pattern()
            return ('bind', p[1], True) if p[0] == 'bind' else p
        if v == '_':
            return ('wild',)
        if v == '(':
            items = []
            while self.peek()[1] != ')':
                items.append(self.pattern())
                if self.peek()[1] == ',':
                    self.next()
                elif self.peek()[1] != ')':
                    raise Unsupported('pattern: unexpected token ' + self.peek()[1])
            self.next()
            return ('tuple', items)
        if kind == 'id':
            if v in ('true', 'false'):
                return ('lit', v == 'true')
            path = [v]
            while self.peek()[1] == '::':
                self.next()
                k2, v2 = self.next()
                if k2 != 'id':
                    raise Unsupported('pattern path')
                path.append(v2)
            name = path[-1]
            if self.peek()[1] == '(':
                if name not in ('Some', 'Ok', 'Err'):
                    raise Unsupported('pattern constructor ' + name)
                self.next()
                inner = self.pattern()
                if self.peek()[1] == ',':
                    self.next()
                self.expect(')')
                return ('ctor', name, inner)
            if self.peek()[1] in ('{', '@', '..', '..='):
                raise Unsupported('struct / binding / range pattern')
            if name == 'None':
                return ('none',)
            if len(path) == 1 and not name[:1].isupper():
                return ('bind', name)
            raise Unsupported('pattern ' + '::'.join(path))
        raise Unsupported('pattern: unexpected token ' + v)

    def if_expr(self):
        self.expect('if')
        if self.peek()[1] == 'let':
            self.next()
            pat = self.pattern()
            if self.peek()[1] == '|':
                raise Unsupported('or-pattern')
            self.expect('=')
            scrut = self.head_expr()
            if self.peek()[1] in ('&&', '||'):
                raise Unsupported('let chain')
            then = self.block()
            els = None
            if self.peek()[1] == 'else':
                self.next()
                els = self.if_expr() if self.peek()[1] == 'if' else self.block()
            return ('iflet', pat, scrut, then, els)
        cond = self.head_expr()
        then = self.block()
        els = None
        if self.peek()[1] == 'else':
            self.next()
            els = self.if_expr() if self.peek()[1] == 'if' else self.block()
        return ('if', cond, then, els)

    def match_expr(self):
        self.expect('match')
        scrut = self.head_expr()
        self.expect('{')
        arms = []
        while self.peek()[1] != '}':
            if self.peek()[1] == '|':
                raise Unsupported('or-pattern')
            pat = self.pattern()
            if self.peek()[1] == '|':
                raise Unsupported('or-pattern')
            if self.peek()[1] == 'if':
                raise Unsupported('match guard')
            self.expect('=>')
            saved, self.no_struct = self.no_struct, 0
            body = self.expr()
            self.no_struct = saved
            arms.append((pat, body))
            if self.peek()[1] == ',':
                self.next()
            elif self.peek()[1] != '}' and body[0] not in ('block', 'if', 'iflet', 'match'):
                raise Unsupported('match arm not terminated by `,`')
        self.expect('}')
        return ('match', scrut, arms)

    def block(self):
        self.expect('{')
        saved, self.no_struct = self.no_struct, 0
        stmts, tail = [], None
        while self.peek()[1] != '}':
            if tail is not None:
                raise Unsupported('expression without `;` in the middle of a block')
            if self.peek()[1] == '#':
                raise Unsupported('attribute inside a function body')
            kind, v = self.peek()
            if kind == 'eof':
                raise Unsupported('unterminated block')
            if v == ';':
                self.next()
            elif v == 'let':
                self.next()
                pat = self.pattern()
                ty = None
                if self.peek()[1] == ':':
                    self.next()
                    ty = self.type_text(('=', ';'))
                if self.peek()[1] != '=':
                    raise Unsupported('let without initialiser')
                self.next()
                rhs = self.expr()
                els = None
                if self.peek()[1] == 'else':
                    self.next()
                    els = self.block()
                self.expect(';')
                stmts.append(('let', pat, ty, rhs, els))
            elif v == 'for':
                self.next()
                pat = self.pattern()
                self.expect('in')
                it = self.head_expr()
                stmts.append(('for', pat, it, self.block()))
            elif v == 'return':
                self.next()
                e = None if self.peek()[1] in (';', '}') else self.expr()
                if self.peek()[1] == ';':
                    self.next()
                stmts.append(('return', e))
            elif kind == 'id' and v in ('while', 'loop', 'fn', 'struct', 'use', 'const', 'static', 'impl',
                                        'enum', 'type', 'trait', 'mod', 'unsafe', 'async', 'macro_rules'):
                raise Unsupported(f'`{v}` statement')
            elif v in ('if', 'match', '{'):
                e = self.atom()
                if self.peek()[1] == '}':
                    tail = e
                else:
                    if self.peek()[1] == ';':
                        self.next()
                    elif self.peek()[1] in ('.', '?'):
                        raise Unsupported('method call on a block-like expression at statement position')
                    stmts.append(('expr', e))
            else:
                e = self.expr()
                nxt = self.peek()[1]
                if nxt == '=':
                    self.next()
                    rhs = self.expr()
                    if self.peek()[1] == ';':
                        self.next()
                    elif self.peek()[1] != '}':
                        raise Unsupported('assignment not terminated')
                    stmts.append(('assign', e, rhs))
                elif nxt in ('+=', '-=', '*=', '/=', '<<=', '>>='):
                    raise Unsupported('compound assignment')
                elif nxt == ';':
                    self.next()
                    stmts.append(('expr', e))
                elif nxt == '}':
                    tail = e
                else:
                    raise Unsupported('unexpected token in statement: ' + nxt)
        self.expect('}')
        self.no_struct = saved
        return ('block', stmts, tail)


def parse_fn_body(text):
    p = CsmParser(tokenize('{' + text + '}'))
    b = p.block()
    if not p.at_end():
        raise Unsupported('trailing tokens after function body')
    return b


# ----------------------------------------------------------------------------------------------
# items: impl blocks, structs, type aliases; classification of the types that occur
# ----------------------------------------------------------------------------------------------
def _match_brace(src, i):
    depth, j = 1, i + 1
    while depth:
        if j >= len(src):
            raise Unsupported('unbalanced braces')
        depth += (src[j] == '{') - (src[j] == '}')
        j += 1
    return j


def _skip_generics(s, i):
    while i < len(s) and s[i].isspace():
        i += 1
    if i < len(s) and s[i] == '<':
        depth = 0
        while True:
            depth += (s[i] == '<') - (s[i] == '>' and s[i - 1] != '-')
            i += 1
            if depth == 0:
                break
    return i


def impl_blocks(src):
    """[(trait|None, type name, body start, body end)] of every `impl` item"""
    out = []
    for m in re.finditer(r'(?m)^[ \t]*(?:unsafe\s+)?impl\b', src):
        b = src.index('{', m.end())
        head = src[m.end():b]
        i = _skip_generics(head, 0)
        m1 = re.match(r'\s*([A-Za-z_][\w:]*)', head[i:])
        if not m1:
            raise Unsupported('impl header: ' + ' '.join(head.split())[:80])
        first = m1.group(1).split('::')[-1]
        j = _skip_generics(head, i + m1.end())
        m2 = re.match(r'\s*for\s+([A-Za-z_][\w:]*)', head[j:])
        trait, ty = (first, m2.group(1).split('::')[-1]) if m2 else (None, first)
        out.append((trait, ty, b, _match_brace(src, b)))
    return out


def struct_fields(src, name):
    """(derive list, [(field, type text)]) of `struct name`"""
    ms = list(re.finditer(r'\bstruct\s+' + name + r'\b', src))
    if len(ms) != 1:
        raise Unsupported(f'struct {name}: {len(ms)} definitions')
    m = ms[0]
    b = m.end()
    depth = 0
    while src[b] not in '{;' or depth:
        depth += (src[b] in '(<') - (src[b] in ')' or (src[b] == '>' and src[b - 1] != '-'))
        b += 1
    if src[b] != '{':
        raise Unsupported(f'struct {name}: not a struct with named fields')
    body = src[b + 1:_match_brace(src, b) - 1]
    pre = src[max(0, m.start() - 300):m.start()]
    derives = []
    for dm in re.finditer(r'#\s*\[\s*derive\s*\(([^)]*)\)\s*\]', pre[pre.rfind('}') + 1 if '}' in pre else 0:]):
        derives += [d.strip().split('::')[-1] for d in dm.group(1).split(',') if d.strip()]
    fields = []
    for part in split_top(body):
        part = re.sub(r'#\s*\[[^\]]*\]', '', part).strip()
        if not part:
            continue
        fm = re.match(r'(?:pub(?:\([^)]*\))?\s+)?([A-Za-z_]\w*)\s*:\s*(.+)$', part, flags=re.S)
        if not fm:
            raise Unsupported(f'struct {name}: field `{part[:40]}`')
        fields.append((fm.group(1), ' '.join(fm.group(2).split())))
    return derives, fields


def type_aliases(src):
    out = {}
    for m in re.finditer(r'\btype\s+(\w+)\s*(?:<[^=]*>)?\s*=\s*([^;]+);', src):
        out[m.group(1)] = ' '.join(m.group(2).split())
    return out


class Types:
    """kind of a Rust type text: 'nat' 'bool' 'data' 'state' 'action' 'pair' 'unit' 'self' 'map' 'causaloid' 'actionfn'
    ('slice', k) ('cell', style) ('res', k) ('opt', k) ('tuple', [k])"""

    def __init__(self, aliases):
        self.aliases = aliases

    def kind(self, t, depth=0):
        if depth > 6:
            raise Unsupported('type alias cycle')
        t = re.sub(r"'\w+\s*", '', t)              # lifetimes
        t = re.sub(r'\bmut\b\s*', '', t).strip()
        while t.startswith('&'):
            t = t[1:].strip()
        if t == '()':
            return 'unit'
        if t.startswith('('):
            if not t.endswith(')'):
                raise Unsupported('type ' + t)
            ks = [self.kind(x, depth) for x in split_top(t[1:-1]) if x]
            if ks == ['state', 'action']:
                return 'pair'
            return ('tuple', ks)
        if t.startswith('['):
            if not t.endswith(']') or ';' in t:
                raise Unsupported('type ' + t)
            return ('slice', self.kind(t[1:-1], depth))
        if t.startswith('fn'):
            if re.fullmatch(r'fn\s*\(\s*\)\s*->\s*Result\s*<\s*\(\s*\)\s*,\s*[\w:]+\s*>', t):
                return 'actionfn'
            raise Unsupported('fn type ' + t)
        m = re.match(r'([A-Za-z_][\w:]*)\s*(?:<(.*)>)?$', t, flags=re.S)
        if not m:
            raise Unsupported('type ' + t)
        name, args = m.group(1).split('::')[-1], split_top(m.group(2)) if m.group(2) else []
        args = [a for a in args if not re.fullmatch(r"'\w+", a.strip()) and a.strip()]
        if name in self.aliases:
            return self.kind(self.aliases[name], depth + 1)
        if name in ('usize', 'u64'):
            return 'nat'
        if name == 'bool':
            return 'bool'
        if name in ('NumericalValue', 'f64'):
            return 'data'
        if name == 'CausalState':
            return 'state'
        if name == 'CausalAction':
            return 'action'
        if name == 'Causaloid':
            return 'causaloid'
        if name == 'Self':
            return 'self'
        if name in ('HashMap', 'BTreeMap') and len(args) >= 2:
            if name != 'HashMap' or self.kind(args[0], depth) != 'nat' or self.kind(args[1], depth) != 'pair':
                raise Unsupported('map type ' + t)
            return 'map'
        if name in ('RefCell', 'RwLock', 'Mutex') and len(args) == 1:
            inner = self.kind(args[0], depth)
            if inner != 'map':
                raise Unsupported('cell type ' + t)
            return ('cell', name)
        if name in ('Arc', 'Rc', 'Box') and len(args) == 1:
            return self.kind(args[0], depth)
        if name == 'Result' and len(args) == 2:
            return ('res', self.kind(args[0], depth))
        if name == 'Option' and len(args) == 1:
            return ('opt', self.kind(args[0], depth))
        raise Unsupported('type ' + t)


class Source:
    """the three files, parsed down to function items"""

    def __init__(self, repo):
        self.text = {}
        for f in (F_MOD, F_STATE, F_ACTION):
            raw = (repo / f).read_text()
            s = strip_strings(strip_comments(raw))
            for bad, why in ((r'#\s*!?\s*\[\s*cfg', '#[cfg]'), (r'\bmacro_rules\s*!', 'macro_rules!'), (r'\bunsafe\b', 'unsafe'),
                             (r'\binclude\s*!', 'include!')):
                if re.search(bad, s):
                    raise Unsupported(f'{f}: {why} is outside the recognised grammar')
            self.text[f] = s
        mod = self.text[F_MOD]
        self.types = Types(type_aliases(mod))
        for alias, want in (('CSMMap', 'map'), ('CSMStateActions', ('slice', 'pair'))):
            if alias in self.types.aliases and self.types.kind(alias) != want:
                raise Unsupported(f'type alias {alias} is not the expected {want}')
        # struct CSM: exactly one field, the cell around the map
        _, fields = struct_fields(mod, 'CSM')
        if len(fields) != 1:
            raise Unsupported('struct CSM: expected exactly one field (the table)')
        k = self.types.kind(fields[0][1])
        if not (isinstance(k, tuple) and k[0] == 'cell'):
            raise Unsupported('struct CSM: the field is not a cell around the map')
        self.cell_field, self.cell_style = fields[0][0], k[1]
        # struct CausalState: id = first usize field (constructor position), data = the NumericalValue field, causaloid
        der, fields = struct_fields(self.text[F_STATE], 'CausalState')
        self.state_getters = 'Getters' in der
        ks = [(n, self.types.kind(t)) for n, t in fields]
        nats = [n for n, k in ks if k == 'nat']
        datas = [n for n, k in ks if k == 'data']
        caus = [n for n, k in ks if k == 'causaloid']
        if len(nats) != 2 or len(datas) != 1 or len(caus) != 1 or len(ks) != 4:
            raise Unsupported('struct CausalState: expected (id: usize, version: usize, data: NumericalValue, causaloid: &Causaloid)')
        self.state_fields = {nats[0]: 'id', nats[1]: 'version', datas[0]: 'data', caus[0]: 'causaloid'}
        der, fields = struct_fields(self.text[F_ACTION], 'CausalAction')
        ks = [(n, t) for n, t in fields if t.startswith('fn')]
        if len(ks) != 1 or self.types.kind(ks[0][1]) != 'actionfn':
            raise Unsupported('struct CausalAction: expected exactly one `fn() -> Result<(), ActionError>` field')
        self.action_fields = {n: ('fn' if n == ks[0][0] else 'other') for n, _ in fields}
        self.fns = {'CSM': self._fns(F_MOD, 'CSM'), 'CausalState': self._fns(F_STATE, 'CausalState'),
                    'CausalAction': self._fns(F_ACTION, 'CausalAction')}

    def _fns(self, f, ty):
        src = self.text[f]
        blocks = impl_blocks(src)
        for trait, t, _, _ in blocks:
            if t == ty and trait is not None and trait not in ('Display', 'Debug', 'fmt::Display', 'fmt::Debug'):
                raise Unsupported(f'{f}: `impl {trait} for {ty}` is outside the recognised grammar')
        items = fn_items(src)
        out = {}
        for it in items:
            for other in items:
                if other is not it and other['start'] < it['start'] < other['end']:
                    raise Unsupported(f'{f}: nested fn {it["name"]}')
            owner = [(tr, t) for tr, t, b, e in blocks if b < it['start'] < e]
            if len(owner) != 1:
                if not owner:
                    raise Unsupported(f'{f}: free function {it["name"]} is outside the recognised grammar')
                raise Unsupported(f'{f}: nested impl')
            tr, t = owner[0]
            if t != ty or tr is not None:
                continue
            if it['name'] in out:
                raise Unsupported(f'{f}: fn {it["name"]} defined twice')
            if re.search(r'\b(async|const|extern)\s+$', src[max(0, it['start'] - 30):it['start']]):
                raise Unsupported(f'{f}: qualified fn {it["name"]}')
            ps = split_top(it['params'])
            has_self, params = False, []
            for i, p in enumerate(ps):
                if re.fullmatch(r"&\s*(?:'\w+\s+)?(?:mut\s+)?self|(?:mut\s+)?self", p):
                    if i != 0 or 'mut' in p.split('self')[0] and '&' in p:
                        raise Unsupported(f'fn {it["name"]}: receiver `{p}`')
                    has_self = True
                    continue
                pm = re.match(r'(?:mut\s+)?([A-Za-z_]\w*)\s*:\s*(.+)$', p, flags=re.S)
                if not pm:
                    raise Unsupported(f'fn {it["name"]}: parameter `{p}`')
                params.append((pm.group(1), pm.group(2)))
            out[it['name']] = {'name': it['name'], 'self': has_self, 'params': params, 'ret': it['ret'], 'body_text': it['body'],
                               'owner': ty, 'body': None}
        return out

    def body(self, fn):
        if fn['body'] is None:
            fn['body'] = parse_fn_body(fn['body_text'])
        return fn['body']


# ----------------------------------------------------------------------------------------------
# symbolic values, Lean types, trees
# ----------------------------------------------------------------------------------------------
UNIT = ('unit',)
SIMPLE = ('nat', 'data', 'state', 'action', 'pair', 'map')
LTYPE = {'nat': 'Nat', 'bool': 'Bool', 'data': 'δ', 'state': 'σ', 'action': 'α', 'pair': '(σ × α)', 'map': 'Table σ α', 'unit': 'Unit'}


def ltype(k):
    if isinstance(k, str):
        if k in LTYPE:
            return LTYPE[k]
        raise Unsupported(f'no Lean type for kind {k}')
    if k[0] == 'opt':
        return f'(Option {ltype(k[1])})'
    if k[0] == 'res':
        if k[1] == 'bool':
            return 'Verdict'
        if k[1] == 'unit':
            return 'Bool'
        raise Unsupported(f'no Lean type for Result<{k[1]}, _>')
    if k[0] == 'tuple':
        if len(k[1]) < 2:
            raise Unsupported('1-tuple')
        return '(' + ' × '.join(ltype(x) for x in k[1]) + ')'
    if k[0] == 'slice':
        return f'(List {ltype(k[1])})'
    raise Unsupported(f'no Lean type for kind {k}')


def proj(term, i, n):
    """component i of an n-tuple term (Lean tuples nest to the right)"""
    base = term if re.fullmatch(r'[A-Za-z_][\w.]*', term) else f'({term})' if not term.startswith('(') else term
    s = base + '.2' * i
    return s if i == n - 1 else s + '.1'


def mkval(k, term):
    if k == 'bool':
        return ('sym', 'bool', term)
    if k == 'unit':
        return UNIT
    if k in SIMPLE:
        return (k, term)
    if isinstance(k, tuple):
        if k[0] == 'opt':
            return ('symopt', k[1], term)
        if k[0] == 'res' and k[1] in ('bool', 'unit'):
            return ('symres', k[1], term)
        if k[0] == 'tuple':
            return ('tuple', tuple(mkval(x, proj(term, i, len(k[1]))) for i, x in enumerate(k[1])))
        if k[0] == 'slice':
            return ('slice', term, k[1])
    raise Unsupported(f'cannot make a symbolic value of kind {k}')


def kind_of(v):
    t = v[0]
    if t in SIMPLE:
        return t
    if t == 'bool' or (t == 'sym' and v[1] == 'bool'):
        return 'bool'
    if t == 'unit':
        return 'unit'
    if t == 'tuple':
        return ('tuple', [kind_of(x) for x in v[1]])
    if t == 'symopt':
        return ('opt', v[1])
    if t == 'symres':
        return ('res', v[1])
    if t == 'opt' and v[1] == 'some':
        return ('opt', kind_of(v[2]))
    if t == 'res' and v[1] == 'ok':
        return ('res', kind_of(v[2]))
    if t == 'slice':
        return ('slice', v[2])
    raise Unsupported(f'the kind of the value {v[:2]} is not determined (annotate / restructure)')


def rv(v):
    """Lean term of a value"""
    t = v[0]
    if t in SIMPLE:
        return v[1]
    if t == 'bool':
        return 'true' if v[1] else 'false'
    if t == 'sym':
        return v[2]
    if t == 'unit':
        return '()'
    if t == 'tuple':
        if len(v[1]) == 2 and v[1][0][0] == 'state' and v[1][1][0] == 'action':
            m1, m2 = re.fullmatch(r'(.+)\.1', v[1][0][1]), re.fullmatch(r'(.+)\.2', v[1][1][1])
            # (x.1, x.2) is kept as written: the proofs absorb the eta step
        return '(' + ', '.join(rv(x) for x in v[1]) + ')'
    if t in ('symopt', 'symres'):
        return v[2]
    if t == 'opt':
        return 'none' if v[1] == 'none' else f'(some {rv(v[2])})'
    if t == 'res':
        if v[1] == 'err':
            raise Unsupported('an `Err` value whose type is not known cannot be rendered')
        if v[2] == UNIT:
            return 'true'
        if v[2][0] == 'bool':
            return 'Verdict.okTrue' if v[2][1] else 'Verdict.okFalse'
        if v[2][0] == 'sym':
            return f'(if {v[2][2]} then Verdict.okTrue else Verdict.okFalse)'
        raise Unsupported('Result payload')
    if t == 'slice':
        return v[1]
    raise Unsupported(f'value {t} cannot be rendered')


def rv_as(v, k):
    """Lean term of a value at a known kind (needed for `Err`, whose payload kind the value does not carry)"""
    if isinstance(k, tuple) and k[0] == 'res' and v[0] == 'res' and v[1] == 'err':
        return 'Verdict.err' if k[1] == 'bool' else 'false'
    if isinstance(k, tuple) and k[0] == 'opt' and v[0] == 'opt' and v[1] == 'none':
        return 'none'
    return rv(v)


class St:
    __slots__ = ('env', 'cell', 'log', 'known', 'guards', 'temps', 'scope', 'nloops', 'nbound', 'muts')

    def __init__(self):
        self.env = [{}]
        self.cell = None            # Lean term of the table in the cell (None: no `self` table in this function)
        self.log = (None, ())       # (base variable | None, events appended since)
        self.known = {}             # Lean term -> concrete value it has on this path
        self.guards = []            # (name, frame depth, mutable) RefCell guards bound by `let`
        self.temps = []             # mutable? of the temporaries alive in the statement being executed
        self.scope = []             # (Lean variable, Lean type) in scope, in order of introduction
        self.nloops = 0
        self.nbound = 0
        self.muts = set()           # (frame index, name) of `let mut` locals

    def copy(self):
        s = St()
        s.env = [dict(f) for f in self.env]
        s.cell, s.log, s.known = self.cell, self.log, dict(self.known)
        s.guards, s.temps, s.scope = list(self.guards), list(self.temps), list(self.scope)
        s.nloops, s.nbound, s.muts = self.nloops, self.nbound, set(self.muts)
        return s

    def lookup(self, name):
        for f in reversed(self.env):
            if name in f:
                return f[name]
        return None

    def assign(self, name, v):
        for f in reversed(self.env):
            if name in f:
                f[name] = v
                return True
        return False

    def emit(self, ev):
        self.log = (self.log[0], self.log[1] + (ev,))


def render_log(log):
    base, evs = log
    lst = '[' + ', '.join(evs) + ']'
    if base is None:
        return lst
    return base if not evs else f'({base} ++ {lst})'


def leaf(v, st, flow='normal'):
    return ('leaf', flow, v, st)


def then(tree, f):
    """continue every leaf that falls through (`normal`) with f(value, state)"""
    k = tree[0]
    if k == 'leaf':
        return f(tree[2], tree[3]) if tree[1] == 'normal' else tree
    if k == 'match':
        return ('match', tree[1], tree[2], [(p, then(t, f)) for p, t in tree[3]])
    if k == 'if':
        return ('if', tree[1], then(tree[2], f), then(tree[3], f))
    info = dict(tree[1])
    info['body'], info['nil'] = then(info['body'], f), then(info['nil'], f)
    return ('loop', info)


def map_leaves(tree, f):
    k = tree[0]
    if k == 'leaf':
        return f(tree)
    if k == 'match':
        return ('match', tree[1], tree[2], [(p, map_leaves(t, f)) for p, t in tree[3]])
    if k == 'if':
        return ('if', tree[1], map_leaves(tree[2], f), map_leaves(tree[3], f))
    info = dict(tree[1])
    info['body'], info['nil'] = map_leaves(info['body'], f), map_leaves(info['nil'], f)
    return ('loop', info)


def leaves(tree, own_only=None):
    k = tree[0]
    if k == 'leaf':
        yield tree
    elif k == 'match':
        for _, t in tree[3]:
            yield from leaves(t)
    elif k == 'if':
        yield from leaves(tree[2])
        yield from leaves(tree[3])
    else:
        yield from leaves(tree[1]['body'])
        yield from leaves(tree[1]['nil'])


# ----------------------------------------------------------------------------------------------
# the symbolic executor
# ----------------------------------------------------------------------------------------------
LEAN_KEYWORDS = {'at', 'from', 'end', 'in', 'do', 'then', 'else', 'if', 'let', 'have', 'show', 'fun', 'by', 'with', 'match', 'def',
                 'theorem', 'where', 'open', 'namespace', 'section', 'structure', 'instance', 'class', 'Type', 'Prop', 'Sort',
                 'return', 'for', 'mut', 'import', 'deriving', 'example', 'variable', 'universe', 'abbrev', 'inductive', 'using',
                 'calc', 'suffices', 'obtain', 'forall', 'exists', 'macro', 'syntax', 'some', 'none', 'true', 'false', 'fun',
                 'key', 'env', 't', 'lookup', 'upsert', 'delete', 'entries', 'Table', 'Env', 'Ev', 'Out', 'Verdict', 'List',
                 'Option', 'Nat', 'Bool', 'Prod', 'decide', 'not', 'id', 'Unit'}
CANON = re.compile(r'(order|lg|tbl|v|e|rest|c)\d*(_\d+)?')
MAP_CTORS = ('new', 'with_capacity', 'default')
IDENT_METHODS = ('clone', 'to_owned', 'copied', 'cloned', 'as_ref', 'borrow', 'iter', 'into_iter', 'by_ref')
MAX_INLINE = 8
MAX_LEAVES = 4000


def lean_name(n):
    return n + '_' if n in LEAN_KEYWORDS or CANON.fullmatch(n) else n


class Exec:
    def __init__(self, src, owner, fname):
        self.src, self.owner, self.fname = src, owner, fname
        self.orders = {}             # (site, inline stack) -> Lean name of the enumeration-order parameter
        self.inline = []             # call-site stack of the helper inlining
        self.owners = [owner]        # the type whose `impl` the code being executed belongs to (`Self`)
        self.collect_hint = None     # target of a bare `collect()`: 'map' | 'vec' | None (from the `let` annotation / return type)
        self.tail_hint = None        # (id of a function body, hint for a `collect()` in its tail position)
        self.loopdepth = 0
        self.nlid = 0
        self.nleaves = 0

    # ---- small helpers ---------------------------------------------------------------------
    def where(self):
        return f'{self.owner}::{self.fname}'

    def bad(self, msg):
        return Unsupported(f'{self.where()}: {msg}')

    def order_for(self, site):
        if self.loopdepth:
            raise self.bad('a hash map is enumerated inside a loop (each enumeration needs its own order)')
        k = (id(site), tuple(self.inline))
        if k not in self.orders:
            self.orders[k] = 'order' if not self.orders else f'order{len(self.orders) + 1}'
        return self.orders[k]

    def eval_list(self, es, st, k, acc=()):
        if not es:
            return k(list(acc), st)
        return then(self.eval(es[0], st), lambda v, s: self.eval_list(es[1:], s, k, acc + (v,)))

    def borrow(self, st, mut):
        live = [g[2] for g in st.guards] + st.temps
        if live and (mut or any(live)):
            raise self.bad('the cell is borrowed while another borrow of it is alive (would panic at run time)')
        st = st.copy()
        st.temps.append(mut)
        return leaf(('cell', mut), st)

    def map_term(self, v):
        if v[0] == 'map':
            return v[1]
        raise self.bad(f'a map was expected, got {v[0]}')

    # ---- forcing: fork on the Lean term a value stands for ------------------------------------
    def force(self, v, st):
        """-> tree whose leaves carry the value in constructor form (`none`/`some x`, `Ok x`/`Err`, `true`/`false`)"""
        t = v[0]
        if t in ('symopt', 'symres') or (t == 'sym' and v[1] == 'bool'):
            term = v[2]
            if term in st.known:
                return leaf(st.known[term], st)
            self.nleaves += 1
            if self.nleaves > MAX_LEAVES:
                raise self.bad('decision tree too large')

            def br(val, bound=None):
                s = st.copy()
                s.known[term] = val
                if bound:
                    s.scope.append(bound)
                    s.nbound += 1
                return leaf(val, s)
            if t == 'symopt':
                var = f'v{st.nbound + 1}'
                val = mkval(v[1], var)
                return ('match', term, 'opt', [('none', br(('opt', 'none'))),
                                               (f'some {var}', br(('opt', 'some', val), (var, ltype(v[1]))))])
            if t == 'symres' and v[1] == 'bool':
                return ('match', term, 'verdict', [('Verdict.err', br(('res', 'err'))),
                                                   ('Verdict.okTrue', br(('res', 'ok', ('bool', True)))),
                                                   ('Verdict.okFalse', br(('res', 'ok', ('bool', False))))])
            if t == 'symres':
                return ('if', term, br(('res', 'ok', UNIT)), br(('res', 'err')))
            return ('if', term, br(('bool', True)), br(('bool', False)))
        return leaf(v, st)

    def eval_bool(self, e, st):
        def chk(v, s):
            if v[0] != 'bool':
                raise self.bad(f'a bool was expected, got {v[0]}')
            return leaf(v, s)
        return then(then(self.eval(e, st), self.force), chk)

    # ---- patterns --------------------------------------------------------------------------
    def match_pat(self, pat, v, st):
        """-> tree with leaves ('bool', matched?) ; bindings go to the innermost frame"""
        k = pat[0]
        if k == 'wild':
            return leaf(('bool', True), st)
        if k == 'bind':
            st = st.copy()
            st.env[-1][pat[1]] = v
            st.muts.discard((len(st.env) - 1, pat[1]))
            if len(pat) > 2:
                st.muts.add((len(st.env) - 1, pat[1]))
            return leaf(('bool', True), st)
        if k == 'tuple':
            if v[0] == 'pair' and len(pat[1]) == 2:
                v = ('tuple', (('state', proj(v[1], 0, 2)), ('action', proj(v[1], 1, 2))))
            if v[0] == 'unit' and not pat[1]:
                return leaf(('bool', True), st)
            if v[0] != 'tuple' or len(v[1]) != len(pat[1]):
                raise self.bad(f'tuple pattern against {v[0]}')

            def go(i, s):
                if i == len(pat[1]):
                    return leaf(('bool', True), s)
                return then(self.match_pat(pat[1][i], v[1][i], s),
                            lambda m, s2: go(i + 1, s2) if m[1] else leaf(('bool', False), s2))
            return go(0, st)
        if k in ('ctor', 'none', 'lit'):
            def on(cv, s):
                if k == 'lit':
                    if cv[0] != 'bool':
                        raise self.bad('literal pattern against ' + cv[0])
                    return leaf(('bool', cv[1] == pat[1]), s)
                if k == 'none':
                    if cv[0] != 'opt':
                        raise self.bad('`None` pattern against ' + cv[0])
                    return leaf(('bool', cv[1] == 'none'), s)
                want = {'Some': ('opt', 'some'), 'Ok': ('res', 'ok'), 'Err': ('res', 'err')}[pat[1]]
                if cv[0] != want[0]:
                    raise self.bad(f'`{pat[1]}(..)` pattern against {cv[0]}')
                if cv[1] != want[1]:
                    return leaf(('bool', False), s)
                return self.match_pat(pat[2], cv[2] if want[1] != 'err' else ('opaque',), s)
            return then(self.force(v, st), on)
        raise self.bad('pattern ' + k)

    def bind_irrefutable(self, pat, v, st):
        def chk(m, s):
            if not m[1]:
                raise self.bad('refutable pattern where an irrefutable one is needed')
            return leaf(UNIT, s)
        return then(self.match_pat(pat, v, st), chk)

    # ---- blocks and statements ---------------------------------------------------------------
    def exec_block(self, blk, st):
        if blk[0] != 'block':
            return self.eval(blk, st)
        st = st.copy()
        st.env.append({})
        depth = len(st.env)
        stmts, tail = blk[1], blk[2]

        def end(v, s):
            s = s.copy()
            s.env = s.env[:depth - 1]
            s.guards = [g for g in s.guards if g[1] < depth]
            s.muts = {m for m in s.muts if m[0] < depth - 1}
            return leaf(v, s)

        def run(i, s):
            if i == len(stmts):
                if tail is None:
                    return end(UNIT, s)
                base = len(s.temps)

                def fin(v, s2):
                    s2 = s2.copy()
                    del s2.temps[base:]
                    return end(v, s2)
                saved_hint = self.collect_hint
                self.collect_hint = self.tail_hint[1] if self.tail_hint and self.tail_hint[0] == id(blk) else None
                try:
                    t_tail = self.eval(tail, s)
                finally:
                    self.collect_hint = saved_hint
                return then(t_tail, fin)
            return then(self.exec_stmt(stmts[i], s), lambda _, s2: run(i + 1, s2))
        return run(0, st)

    def hint_of_type(self, ty):
        if ty is None:
            return None
        ty = ty.replace(' ', '')
        if re.match(r'Vec\b', ty):
            return 'vec'
        try:
            return 'map' if self.src.types.kind(ty) == 'map' else None
        except Unsupported:
            return None

    def exec_stmt(self, stmt, st):
        k = stmt[0]
        base = len(st.temps)

        def done(_, s):
            s = s.copy()
            del s.temps[base:]
            return leaf(UNIT, s)
        if k == 'let':
            _, pat, ty, rhs, els = stmt
            is_mut = False

            def bound(v, s):
                if v[0] == 'cell':
                    if pat[0] != 'bind':
                        raise self.bad('a guard bound by a pattern')
                    s = s.copy()
                    if not s.temps:
                        raise self.bad('a guard without its borrow')
                    s.temps.pop()
                    s.guards.append((pat[1], len(s.env), v[1]))
                if v[0] in ('closure', 'cellfield', 'lockres', 'self'):
                    raise self.bad(f'a {v[0]} bound to a local')
                if v[0] == 'opt' and v[1] == 'none' or v[0] == 'res' and v[1] == 'err':
                    if ty is not None:           # keep the payload kind for a later loop parameter
                        pass
                if els is None:
                    return self.bind_irrefutable(pat, v, s)

                def on(m, s2):
                    if m[1]:
                        return leaf(UNIT, s2)

                    def fell(_, s3):
                        raise self.bad('the `else` block of a `let … else` falls through')
                    return then(self.exec_block(els, s2), fell)
                return then(self.match_pat(pat, v, s), on)
            saved_hint = self.collect_hint
            self.collect_hint = self.hint_of_type(ty)
            try:
                t_rhs = self.eval(rhs, st)
            finally:
                self.collect_hint = saved_hint
            return then(then(t_rhs, bound), done)
        if k == 'expr':
            return then(self.eval(stmt[1], st), done)
        if k == 'return':
            if stmt[1] is None:
                return leaf(UNIT, st, 'return')
            return then(self.eval(stmt[1], st), lambda v, s: leaf(v, s, 'return'))
        if k == 'assign':
            place, rhs = stmt[1], stmt[2]

            def store(v, s):
                if place[0] == 'deref':
                    def into(c, s2):
                        if c[0] != 'cell' or not c[1]:
                            raise self.bad('assignment through something that is not a mutable borrow of the table')
                        s2 = s2.copy()
                        s2.cell = self.map_term(v)
                        return leaf(UNIT, s2)
                    return then(self.eval(place[1], s), into)
                if place[0] == 'path' and len(place[1]) == 1:
                    old = s.lookup(place[1][0])
                    if old is None or old[0] in ('cell', 'self'):
                        raise self.bad(f'assignment to `{place[1][0]}`')
                    s = s.copy()
                    s.assign(place[1][0], v)
                    return leaf(UNIT, s)
                raise self.bad('assignment to a place outside the recognised grammar')
            return then(then(self.eval(rhs, st), store), done)
        if k == 'for':
            return then(then(self.eval(stmt[2], st), lambda itv, s: self.loop(stmt[1], itv, stmt[3], s)), done)
        raise self.bad('statement ' + k)

    # ---- loops -------------------------------------------------------------------------------
    def view_elem(self, view, base, st):
        """what the loop variable of the source stands for, given an element of the list the generated loop walks:
        None = the element, i = its i-th component (`keys()` / `values()`), ('map', closure, inner) = `.map(closure)`"""
        if view is None:
            return leaf(base, st)
        if isinstance(view, int):
            return leaf(base[1][view], st)
        return then(self.view_elem(view[2], base, st), lambda v, s: self.apply_closure(view[1], [v], s))

    def collect_map(self, itv, st):
        """`iter.collect::<HashMap<..>>()` = `let mut acc = HashMap::new(); for kv in iter { acc.insert(kv.0, kv.1); } acc`"""
        s = st.copy()
        s.env.append({'__acc': ('map', '[]')})
        depth = len(s.env)
        s.muts.add((depth - 1, '__acc'))
        kv = ('path', ['__kv'])
        body = ('block', [('expr', ('mcall', ('path', ['__acc']), 'insert', [('field', kv, '0'), ('field', kv, '1')]))], None)

        def fin(_, s2):
            v = s2.lookup('__acc')
            s2 = s2.copy()
            s2.env = s2.env[:depth - 1]
            s2.muts = {m for m in s2.muts if m[0] < depth - 1}
            return leaf(v, s2)
        return then(self.loop(('bind', '__kv'), itv, body, s), fin)

    def loop(self, pat, itv, body, st):
        if itv[0] == 'slice':
            itv = ('iter', itv[1], itv[2], None)
        if itv[0] != 'iter':
            raise self.bad(f'`for` over {itv[0]}')
        d = st.nloops + 1
        sfx = '' if d == 1 else str(d)
        cands = []
        if st.cell is not None:
            cands.append(('cell',))
        cands.append(('log',))
        for fi, name in sorted(st.muts):
            if fi < len(st.env) and name in st.env[fi] and st.env[fi][name][0] != 'cell':     # (a `let mut` guard is an alias)
                cands.append(('var', fi, name))
        self.nlid += 1
        lid = self.nlid
        evar, rest = f'e{d}', f'rest{d}'
        while True:
            head = st.copy()
            head.nloops = d
            params = []      # (candidate, Lean name, kind, initial term, parameter value)
            nvar = 0
            for c in cands:
                if c[0] == 'cell':
                    name, kind, init = 'tbl' + sfx, 'map', st.cell
                    head.cell = name
                    pv = ('map', name)
                elif c[0] == 'log':
                    name, kind, init = 'lg' + sfx, 'log', render_log(st.log)
                    head.log = (name, ())
                    pv = None
                else:
                    nvar += 1
                    name = f'c{nvar}' if d == 1 else f'c{d}_{nvar}'
                    old = st.env[c[1]][c[2]]
                    kind = kind_of(old)
                    init = rv(old)
                    pv = mkval(kind, name)
                    head.env[c[1]][c[2]] = pv
                head.scope.append((name, 'List (Ev σ α δ)' if kind == 'log' else ltype(kind)))
                params.append((c, name, kind, init, pv))
            b = head.copy()
            b.scope.append((evar, ltype(itv[2])))
            b.env.append({})
            self.loopdepth += 1
            tree = then(self.view_elem(itv[3], mkval(itv[2], evar), b),
                        lambda elem, s: then(self.bind_irrefutable(pat, elem, s), lambda _, s2: self.exec_block(body, s2)))
            self.loopdepth -= 1
            changed = {c: False for c in cands}

            def to_next(lf):
                if lf[1] == 'break':
                    # leaves the loop with the state it has: the rest of the function is executed from here (inlined)
                    s = lf[3].copy()
                    s.env = s.env[:len(head.env)]
                    s.guards = [g for g in s.guards if g[1] <= len(head.env)]
                    s.muts = {m for m in s.muts if m[0] < len(head.env)}
                    return ('leaf', 'normal', UNIT, s)
                if lf[1] not in ('normal', 'continue'):
                    return lf
                s = lf[3]
                args = []
                for c, name, kind, init, pv in params:
                    if c[0] == 'cell':
                        a, same = s.cell, s.cell == name
                    elif c[0] == 'log':
                        a, same = render_log(s.log), s.log == (name, ())
                    else:
                        cur = s.env[c[1]][c[2]]
                        a, same = rv_as(cur, kind), cur == pv
                    if not same:
                        changed[c] = True
                    args.append(a)
                return ('leaf', 'next', (lid, args), s)
            tree = map_leaves(tree, to_next)
            keep = [c for c in cands if changed[c]]
            if keep == cands:
                break
            cands = keep
        nil = head.copy()
        info = {'lid': lid, 'fixed': list(st.scope), 'carried': [(n, 'List (Ev σ α δ)' if k == 'log' else ltype(k), i)
                                                              for _, n, k, i, _ in params],
                'list': itv[1], 'elem': (evar, ltype(itv[2])), 'rest': rest, 'body': tree, 'nil': leaf(UNIT, nil)}
        return ('loop', info)

    # ---- expressions -------------------------------------------------------------------------
    def eval(self, e, st):
        k = e[0]
        if k == 'num':
            return leaf(('nat', str(e[1])), st)
        if k == 'unit':
            return leaf(UNIT, st)
        if k in ('paren', 'ref', 'deref'):
            return self.eval(e[1], st)
        if k == 'path':
            return self.eval_path(e[1], st)
        if k == 'tuple':
            return self.eval_list(e[1], st, lambda vs, s: leaf(('tuple', tuple(vs)), s))
        if k == 'not':
            return then(self.eval_bool(e[1], st), lambda v, s: leaf(('bool', not v[1]), s))
        if k == 'bin':
            return self.eval_bin(e[1], e[2], e[3], st)
        if k == 'cast':
            def cast(v, s):
                if v[0] == 'nat' and e[2] in ('usize', 'u64'):
                    return leaf(v, s)
                raise self.bad(f'cast of {v[0]} to {e[2]}')
            return then(self.eval(e[1], st), cast)
        if k == 'field':
            return then(self.eval(e[1], st), lambda v, s: self.field(v, e[2], s))
        if k == 'call':
            return self.eval_call(e[1], e[2], st)
        if k == 'mcall':
            return self.eval_mcall(e, st)
        if k == 'macro':
            if e[1] not in ('format', 'std::format'):
                raise self.bad(f'macro {e[1]}!')
            return self.eval_list(e[2], st, lambda vs, s: leaf(('opaque',), s))
        if k == 'struct':
            if e[1] not in (['Self'], ['CSM']) or self.owners[-1] != 'CSM' or len(e[2]) != 1 or e[2][0][0] != self.src.cell_field:
                raise self.bad('struct literal outside the recognised grammar')

            def mk(v, s):
                return leaf(('selfval', self.map_term(v)), s)
            return then(self.eval(e[2][0][1], st), mk)
        if k == 'if':
            base = len(st.temps)

            def branch(c, s):
                s = s.copy()
                del s.temps[base:]
                if c[1]:
                    return self.exec_block(e[2], s)
                return self.exec_block(e[3], s) if e[3] is not None else leaf(UNIT, s)
            return then(self.eval_bool(e[1], st), branch)
        if k == 'iflet':
            def scrut(v, s):
                s = s.copy()
                s.env.append({})
                depth = len(s.env)

                def pop(v2, s2):
                    s2 = s2.copy()
                    s2.env = s2.env[:depth - 1]
                    return leaf(v2, s2)

                def on(m, s2):
                    if m[1]:
                        return then(self.exec_block(e[3], s2), pop)
                    return then(self.exec_block(e[4], s2) if e[4] is not None else leaf(UNIT, s2), pop)
                return then(self.match_pat(e[1], v, s), on)
            return then(self.eval(e[2], st), scrut)
        if k == 'match':
            def scrut(v, s):
                s = s.copy()
                s.env.append({})
                depth = len(s.env)

                def pop(v2, s2):
                    s2 = s2.copy()
                    s2.env = s2.env[:depth - 1]
                    return leaf(v2, s2)

                def arm(i, s2):
                    if i == len(e[2]):
                        raise self.bad('no arm of the `match` applies on a path')
                    pat, body = e[2][i]
                    s3 = s2.copy()
                    s3.env[-1] = {}
                    return then(self.match_pat(pat, v, s3),
                                lambda m, s4: then(self.exec_block(body, s4), pop) if m[1] else arm(i + 1, s4))
                return arm(0, s)
            return then(self.eval(e[1], st), scrut)
        if k == 'block':
            return self.exec_block(e, st)
        if k == 'try':
            def q(v, s):
                if v[0] == 'res':
                    return leaf(v[2], s) if v[1] == 'ok' else leaf(('res', 'err'), s, 'return')
                if v[0] == 'opt':
                    return leaf(v[2], s) if v[1] == 'some' else leaf(('opt', 'none'), s, 'return')
                raise self.bad('`?` on ' + v[0])
            return then(then(self.eval(e[1], st), self.force), q)
        if k == 'return_expr':
            if e[1] is None:
                return leaf(UNIT, st, 'return')
            return then(self.eval(e[1], st), lambda v, s: leaf(v, s, 'return'))
        if k == 'jump':
            if not self.loopdepth:
                raise self.bad(f'`{e[1]}` outside a loop')
            return leaf(UNIT, st, e[1])
        if k == 'closure':
            raise self.bad('a closure that is not the argument of a recognised combinator')
        raise self.bad('expression form ' + k)

    def eval_path(self, p, st):
        if len(p) == 1:
            n = p[0]
            if n == 'self':
                v = st.lookup('self')
                if v is None:
                    raise self.bad('`self` in a function without receiver')
                return leaf(v, st)
            if n in ('true', 'false'):
                return leaf(('bool', n == 'true'), st)
            if n == '__str':
                return leaf(('opaque',), st)
            v = st.lookup(n)
            if v is not None:
                return leaf(v, st)
        if p[-1] == 'None' and all(x in ('Option', 'std', 'core', 'option') for x in p[:-1]):
            return leaf(('opt', 'none'), st)
        raise self.bad('name `' + '::'.join(p) + '` is not a local, parameter or recognised constant')

    def eval_bin(self, op, a, b, st):
        if op in ('&&', '||'):
            def lhs(v, s):
                if (op == '&&') != v[1]:
                    return leaf(v, s)
                return self.eval_bool(b, s)
            return then(self.eval_bool(a, st), lhs)

        def both(vs, s):
            x, y = vs
            if x[0] == 'nat' and y[0] == 'nat':
                if op in ('+', '*'):
                    return leaf(('nat', f'({x[1]} {op} {y[1]})'), s)
                if op in ('==', '!='):
                    return leaf(('sym', 'bool', f'({x[1]} {op} {y[1]})'), s)
                if op in ('<', '<=', '>', '>='):
                    return leaf(('sym', 'bool', f'(decide ({x[1]} {op} {y[1]}))'), s)
                raise self.bad(f'operator {op} on usize')
            if op in ('==', '!=') and kind_of(x) == 'bool' and kind_of(y) == 'bool':
                return then(self.force(x, s), lambda cx, s2: then(self.force(y, s2), lambda cy, s3: leaf(
                    ('bool', (cx[1] == cy[1]) == (op == '==')), s3)))
            raise self.bad(f'operator {op} on {x[0]} and {y[0]}')
        return self.eval_list([a, b], st, both)

    def field(self, v, name, st):
        if v[0] == 'self':
            if name != self.src.cell_field:
                raise self.bad(f'field self.{name}')
            return leaf(('cellfield',), st)
        if v[0] == 'state':
            role = self.src.state_fields.get(name)
            if role == 'id':
                return leaf(('nat', f'(key {v[1]})'), st)
            if role == 'data':
                return leaf(('data', f'(env.stored {v[1]})'), st)
            if role == 'causaloid':
                return leaf(('causaloid', v[1]), st)
            raise self.bad(f'field {name} of a causal state is not modelled')
        if v[0] == 'action':
            if self.src.action_fields.get(name) == 'fn':
                return leaf(('fnfield', v[1]), st)
            raise self.bad(f'field {name} of a causal action is not modelled')
        if name in ('0', '1', '2', '3'):
            i = int(name)
            if v[0] == 'pair' and i < 2:
                return leaf((('state', 'action')[i], proj(v[1], i, 2)), st)
            if v[0] == 'tuple' and i < len(v[1]):
                return leaf(v[1][i], st)
        raise self.bad(f'field .{name} of {v[0]}')

    # ---- calls -------------------------------------------------------------------------------
    def call_fn(self, owner, name, selfv, args, st, site):
        fn = self.src.fns[owner][name]
        if len(self.inline) >= MAX_INLINE:
            raise self.bad(f'inlining of {name} too deep (recursion?)')
        if len(args) != len(fn['params']) or (selfv is not None) != fn['self']:
            raise self.bad(f'call of {owner}::{name} with the wrong shape')
        for a in args:
            if a[0] in ('map', 'closure', 'selfval'):
                raise self.bad(f'a {a[0]} passed to the helper {name}')
        frame = {}
        if selfv is not None:
            frame['self'] = selfv
        for (pn, pt), a in zip(fn['params'], args):
            frame[pn] = a
        callee = st.copy()
        callee.env, callee.muts = [frame], set()
        saved = (st.env, st.guards, st.temps, st.muts)
        self.inline.append(id(site))
        self.owners.append(owner)
        saved_tail = self.tail_hint
        self.tail_hint = (id(self.src.body(fn)), self.hint_of_type(fn['ret']))
        try:
            tree = self.exec_block(self.src.body(fn), callee)
        finally:
            self.inline.pop()
            self.owners.pop()
            self.tail_hint = saved_tail

        def ret(lf):
            if lf[1] not in ('normal', 'return'):
                return lf
            s = lf[3].copy()
            s.env, s.guards, s.temps, s.muts = [dict(f) for f in saved[0]], list(saved[1]), list(saved[2]), set(saved[3])
            return ('leaf', 'normal', lf[2], s)
        return map_leaves(tree, ret)

    def apply_closure(self, clos, args, st):
        if len(clos[1]) != len(args):
            raise self.bad('closure arity')
        s = st.copy()
        s.env.append({})
        depth = len(s.env)

        def bind(i, s2):
            if i == len(args):
                return self.exec_block(clos[2], s2)
            return then(self.bind_irrefutable(clos[1][i], args[i], s2), lambda _, s3: bind(i + 1, s3))

        def ret(lf):
            if lf[1] not in ('normal', 'return'):
                return lf
            s2 = lf[3].copy()
            s2.env = s2.env[:depth - 1]
            return ('leaf', 'normal', lf[2], s2)
        return map_leaves(bind(0, s), ret)

    def eval_call(self, f, args, st):
        loc = st.lookup(f[1][0]) if f[0] == 'path' and len(f[1]) == 1 else None
        if loc is not None and loc[0] != 'fnfield':      # (a local holding the action's function pointer is called below)
            raise self.bad('call of a local')
        if f[0] == 'path' and loc is None:
            p = f[1]
            last = p[-1]
            if last in ('Ok', 'Some') and len(args) == 1 and len(p) <= 2:
                tag = ('res', 'ok') if last == 'Ok' else ('opt', 'some')
                return then(self.eval(args[0], st), lambda v, s: leaf(tag + (v,), s))
            if last == 'Err' and len(args) == 1 and len(p) <= 2:
                return then(self.eval(args[0], st), lambda v, s: leaf(('res', 'err'), s))
            if last.endswith('Error') or p in (['String', 'from'], ['String', 'new']):
                return self.eval_list(args, st, lambda vs, s: leaf(('opaque',), s))
            if last == 'drop' and len(args) == 1 and len(p) <= 3:
                a = args[0]
                if a[0] == 'path' and len(a[1]) == 1:
                    gs = [g for g in st.guards if g[0] == a[1][0]]
                    if gs:
                        s = st.copy()
                        s.guards = [g for g in s.guards if g[0] != a[1][0]]
                        for fr in s.env:
                            fr.pop(a[1][0], None)
                        return leaf(UNIT, s)
                raise self.bad('drop of something that is not a guard')
            if len(p) == 2 and last in MAP_CTORS and (p[0] == 'HashMap' or (p[0] in self.src.types.aliases
                                                                           and self.src.types.kind(p[0]) == 'map')):
                return self.eval_list(args, st, lambda vs, s: leaf(('map', '[]'), s))
            if len(p) >= 2 and last == 'new' and p[-2] in ('RefCell', 'RwLock', 'Mutex', 'Arc', 'Rc') and len(args) == 1:
                return self.eval(args[0], st)
            cur = self.owners[-1]
            if len(p) == 2 and p[0] in ('Self', cur) and last in self.src.fns[cur]:
                fn = self.src.fns[cur][last]
                if fn['self']:
                    raise self.bad(f'`{p[0]}::{last}(self, ..)` call syntax')
                return self.eval_list(args, st, lambda vs, s: self.call_fn(cur, last, None, vs, s, f))
            raise self.bad('call of `' + '::'.join(p) + '`')
        # `(self.action)()`
        def callee(fv, s):
            if fv[0] == 'fnfield' and not args:
                s = s.copy()
                s.emit(f'Ev.fire {fv[1]}')
                return leaf(('symres', 'unit', f'(env.fire {fv[1]})'), s)
            raise self.bad(f'call of a {fv[0]} value')
        return then(self.eval(f, st), callee)

    def eval_mcall(self, e, st):
        _, obj, name, args = e
        if '::' in name and not name.startswith('collect::'):
            raise self.bad('turbofish on a method')
        return then(self.eval(obj, st), lambda v, s: self.method(v, name, args, s, e))

    def closure_arg(self, args):
        if len(args) != 1 or args[0][0] != 'closure':
            raise self.bad('a closure argument was expected')
        return args[0]

    def method(self, v, name, args, st, site):
        t = v[0]
        obj = site[1]
        # ---- the CSM itself, states, actions: inline the method ----
        if t == 'self':
            if name in self.src.fns['CSM']:
                return self.eval_list(args, st, lambda vs, s: self.call_fn('CSM', name, v, vs, s, site))
            raise self.bad(f'method self.{name}')
        if t == 'state':
            if name in self.src.fns['CausalState']:
                return self.eval_list(args, st, lambda vs, s: self.call_fn('CausalState', name, v, vs, s, site))
            if self.src.state_getters and name in self.src.state_fields and not args:
                return self.field(v, name, st)
            if name in ('clone',) and not args:
                return leaf(v, st)
            raise self.bad(f'method {name} of a causal state')
        if t == 'action':
            if name in self.src.fns['CausalAction']:
                return self.eval_list(args, st, lambda vs, s: self.call_fn('CausalAction', name, v, vs, s, site))
            raise self.bad(f'method {name} of a causal action')
        if t == 'causaloid':
            if name == 'verify_single_cause' and len(args) == 1:
                def call(d, s):
                    if d[0] != 'data':
                        raise self.bad('verify_single_cause on ' + d[0])
                    s = s.copy()
                    s.emit(f'Ev.call {v[1]} {d[1]}')
                    return leaf(('symres', 'bool', f'(env.eval {v[1]} {d[1]})'), s)
                return then(self.eval(args[0], st), call)
            raise self.bad(f'method {name} of the causaloid')
        # ---- the cell ----
        if t == 'cellfield':
            style = self.src.cell_style
            if style == 'RefCell' and name in ('borrow', 'borrow_mut') and not args:
                return self.borrow(st, name == 'borrow_mut')
            if style == 'RwLock' and name in ('read', 'write') and not args:
                return then(self.borrow(st, name == 'write'), lambda c, s: leaf(('lockres', c[1]), s))
            if style == 'Mutex' and name == 'lock' and not args:
                return then(self.borrow(st, True), lambda c, s: leaf(('lockres', c[1]), s))
            raise self.bad(f'method {name} of the {style} around the table')
        if t == 'lockres':
            if name in ('unwrap', 'expect'):
                return self.eval_list(args, st, lambda vs, s: leaf(('cell', v[1]), s))
            raise self.bad(f'method {name} of a lock result')
        # ---- maps: the cell through a guard, or a local ----
        if t in ('cell', 'map'):
            if t == 'cell':
                get = lambda s: s.cell                                   # noqa: E731
                if st.cell is None:
                    raise self.bad('no table in this function')

                def put(s, m):
                    if not v[1]:
                        raise self.bad(f'{name} through a shared borrow')
                    s.cell = m
            else:
                get = lambda s: v[1]                                     # noqa: E731
                place = obj
                while place[0] in ('paren', 'ref', 'deref'):
                    place = place[1]

                def put(s, m):
                    if place[0] != 'path' or len(place[1]) != 1 or not s.assign(place[1][0], ('map', m)):
                        raise self.bad(f'{name} on a map that is not a local')
            return self.map_method(name, args, st, get, put, site)
        if t in ('slice', 'iter'):
            term, ek = v[1], v[2]
            view = v[3] if t == 'iter' else None
            lazy = isinstance(view, tuple)          # a `.map(closure)` not yet run
            if name in ('iter', 'into_iter', 'copied', 'cloned', 'by_ref') and not args:
                return leaf(('iter', term, ek, view), st)
            if name == 'map':
                return leaf(('iter', term, ek, ('map', self.closure_arg(args), view)), st)
            if name.split('::')[0] == 'collect' and not args:
                target = self.collect_hint
                if '::' in name:
                    ty = name[len('collect::<'):-1]
                    target = 'vec' if re.match(r'Vec\b', ty) else 'map' if self.src.types.kind(ty) == 'map' else None
                    if target is None:
                        raise self.bad('collect into ' + ty)
                if target == 'map':
                    return self.collect_map(('iter', term, ek, view), st)
                if lazy:
                    raise self.bad('`.map(..)` collected into a Vec (the closure would run before the loop)')
                # into a Vec: the same list (only a later `for` / `len` accepts it)
                return leaf(('iter', term, ek, view), st)
            if t == 'iter' and name in ('len', 'count') and not args and not lazy:
                return leaf(('nat', f'(List.length {term})'), st)
            if t == 'slice' and name == 'len' and not args:
                return leaf(('nat', f'(List.length {term})'), st)
            if t == 'slice' and name == 'is_empty' and not args:
                return leaf(('sym', 'bool', f'(List.isEmpty {term})'), st)
            raise self.bad(f'method {name} of a slice / iterator')
        # ---- Option / Result ----
        if t in ('opt', 'symopt', 'res', 'symres'):
            return self.optres_method(v, name, args, st)
        if name in ('clone', 'to_owned') and not args and t in ('nat', 'data', 'pair', 'tuple', 'bool', 'sym'):
            return leaf(v, st)
        raise self.bad(f'method {name} of {t}')

    def map_method(self, name, args, st, get, put, site):
        def key(vs):
            if len(vs) < 1 or vs[0][0] != 'nat':
                raise self.bad(f'{name}: the key is not a usize')
            return vs[0][1]

        def run(vs, s):
            m = get(s)
            if name in ('get', 'contains_key') and len(vs) == 1:
                r = ('symopt', 'pair', f'(lookup {m} {key(vs)})')
                if name == 'get':
                    return leaf(r, s)
                return then(self.force(r, s), lambda c, s2: leaf(('bool', c[1] == 'some'), s2))
            if name == 'insert' and len(vs) == 2:
                val = vs[1]
                if kind_of(val) not in ('pair', ('tuple', ['state', 'action'])):
                    raise self.bad('insert of something that is not a (state, action) pair')
                s = s.copy()
                put(s, f'(upsert {m} {key(vs)} {rv(val)})')
                return leaf(('symopt', 'pair', f'(lookup {m} {key(vs)})'), s)
            if name == 'remove' and len(vs) == 1:
                s = s.copy()
                put(s, f'(delete {m} {key(vs)})')
                return leaf(('symopt', 'pair', f'(lookup {m} {key(vs)})'), s)
            if name == 'len' and not vs:
                return leaf(('nat', f'(List.length {m})'), s)
            if name == 'is_empty' and not vs:
                return leaf(('sym', 'bool', f'(List.isEmpty {m})'), s)
            if name == 'clear' and not vs:
                s = s.copy()
                put(s, '[]')
                return leaf(UNIT, s)
            if name in ('iter', 'values', 'keys') and not vs:
                ents = f'(entries {m} {self.order_for(site)})'
                # `values()` / `keys()` walk the same entries and hand out one component: the loop is generated over the
                # entries either way (4th component = which part of an entry the loop variable of the source stands for)
                view = {'iter': None, 'keys': 0, 'values': 1}[name]
                return leaf(('iter', ents, ('tuple', ['nat', 'pair']), view), s)
            raise self.bad(f'method {name} of the hash map')
        return self.eval_list(args, st, run)

    def optres_method(self, v, name, args, st):
        if name in ('copied', 'cloned', 'as_ref', 'clone') and not args:
            return leaf(v, st)
        lazy = name in ('ok_or_else', 'map_err', 'map', 'unwrap_or_else', 'and_then')
        if lazy:
            clos = self.closure_arg(args)

        def on(c, s):
            isopt = c[0] == 'opt'
            has = c[1] in ('some', 'ok')
            if name in ('is_some', 'is_none') and isopt and not args:
                return leaf(('bool', has == (name == 'is_some')), s)
            if name in ('is_ok', 'is_err') and not isopt and not args:
                return leaf(('bool', has == (name == 'is_ok')), s)
            if name in ('unwrap', 'expect'):
                if not has:
                    raise self.bad(f'a path reaches `{name}()` on a value that is `{"None" if isopt else "Err"}` there (panic)')
                return self.eval_list(args, s, lambda _, s2: leaf(c[2], s2))
            if name == 'ok_or' and isopt and len(args) == 1:
                return then(self.eval(args[0], s), lambda _, s2: leaf(('res', 'ok', c[2]) if has else ('res', 'err'), s2))
            if name == 'ok_or_else' and isopt:
                if has:
                    return leaf(('res', 'ok', c[2]), s)
                return then(self.apply_closure(clos, [], s), lambda _, s2: leaf(('res', 'err'), s2))
            if name == 'ok' and not isopt and not args:
                return leaf(('opt', 'some', c[2]) if has else ('opt', 'none'), s)
            if name == 'map_err' and not isopt:
                if has:
                    return leaf(c, s)
                return then(self.apply_closure(clos, [('opaque',)], s), lambda _, s2: leaf(('res', 'err'), s2))
            if name == 'map':
                if not has:
                    return leaf(c, s)
                return then(self.apply_closure(clos, [c[2]], s), lambda r, s2: leaf((c[0], c[1], r), s2))
            if name == 'and_then':
                if not has:
                    return leaf(c, s)
                return then(self.apply_closure(clos, [c[2]], s), self.force)
            if name == 'unwrap_or_else':
                if has:
                    return leaf(c[2], s)
                return self.apply_closure(clos, [] if isopt else [('opaque',)], s)
            raise self.bad(f'method {name} of an {"Option" if isopt else "Result"}')
        return then(self.force(v, st), on)


# ----------------------------------------------------------------------------------------------
# rendering
# ----------------------------------------------------------------------------------------------
ROOTS = [
    # owner, fn, parameter kinds, return kind, role
    ('CSM', 'new', [('slice', 'pair')], 'self', 'ctor'),
    ('CSM', 'len', [], 'nat', 'nat'),
    ('CSM', 'is_empty', [], 'bool', 'bool'),
    ('CSM', 'add_single_state', ['nat', 'pair'], ('res', 'unit'), 'method'),
    ('CSM', 'update_single_state', ['nat', 'pair'], ('res', 'unit'), 'method'),
    ('CSM', 'remove_single_state', ['nat'], ('res', 'unit'), 'method'),
    ('CSM', 'eval_single_state', ['nat', 'data'], ('res', 'unit'), 'method'),
    ('CSM', 'eval_all_states', [], ('res', 'unit'), 'method'),
    ('CSM', 'update_all_states', [('slice', 'pair')], 'unit', 'method'),
    ('CausalState', 'eval', [], ('res', 'bool'), 'verdict'),
    ('CausalState', 'eval_with_data', ['data'], ('res', 'bool'), 'verdict'),
    ('CausalAction', 'fire', [], ('res', 'unit'), 'fired'),
]
RTYPE = {'ctor': 'Table σ α', 'nat': 'Nat', 'bool': 'Bool', 'method': 'Table σ α × Out σ α δ',
         'verdict': 'Verdict × List (Ev σ α δ)', 'fired': 'Bool × List (Ev σ α δ)'}
EVT = 'List (Ev σ α δ)'


class Renderer:
    def __init__(self, ex, role, defname, doc):
        self.ex, self.role, self.defname, self.doc = ex, role, defname, doc
        self.aux = []               # [(name, text)] in emission order
        self.by_text = {}

    def common(self):
        return ['key', 'env'] + list(self.ex.orders.values())

    def common_binders(self):
        return '(key : σ → Nat) (env : Env σ α δ)' + ''.join(f' ({o} : List Nat)' for o in self.ex.orders.values())

    def leaf_text(self, lf):
        _, flow, v, st = lf
        if flow == 'next':
            lid, args = v
            return f'@@L{lid}@@' + ''.join(' ' + a for a in args) + f' @@R{lid}@@'
        if flow != 'normal':
            raise self.ex.bad(f'a `{flow}` escapes the function')
        role = self.role
        if role == 'method':
            if v == UNIT:
                ok = 'true'
            else:
                if not (v[0] == 'res' and v[1] == 'err') and kind_of(v) != ('res', 'unit'):
                    raise self.ex.bad(f'returns {v[0]} where a Result<(), _> is expected')
                ok = rv_as(v, ('res', 'unit'))
            return f'({st.cell}, ⟨{ok}, {render_log(st.log)}⟩)'
        if role == 'ctor':
            if v[0] != 'selfval' or st.log != (None, ()):
                raise self.ex.bad('the constructor does not return a fresh machine without side effects')
            return v[1]
        if role in ('nat', 'bool'):
            if st.cell != 't' or st.log != (None, ()) or kind_of(v) != role:
                raise self.ex.bad('a getter that changes the table, has effects, or returns another type')
            return rv(v)
        want = ('res', 'bool') if role == 'verdict' else ('res', 'unit')
        if not (v[0] == 'res' and v[1] == 'err') and kind_of(v) != want:
            raise self.ex.bad(f'returns {v[0]} where {want} is expected')
        return f'({rv_as(v, want)}, {render_log(st.log)})'

    def tree(self, t, ind):
        k = t[0]
        pad = '  ' * ind
        if k == 'leaf':
            return self.leaf_text(t)
        if k == 'match':
            arms = ''.join(f'\n{pad}| {p} => {self.tree(sub, ind + 2)}' for p, sub in t[3])
            return f'(match {t[1]} with{arms})'
        if k == 'if':
            return f'(if {t[1]} then\n{pad}  {self.tree(t[2], ind + 2)}\n{pad}else\n{pad}  {self.tree(t[3], ind + 2)})'
        return self.loop(t[1], ind)

    def loop(self, info, ind):
        ph = f'@@L{info["lid"]}@@'
        fixed = ' '.join(self.common() + [n for n, _ in info['fixed']])
        nil = self.tree(info['nil'], 3)
        body = self.tree(info['body'], 3).replace(ph, '(@@SELF@@ ' + fixed).replace(f'@@R{info["lid"]}@@', info['rest'] + ')')
        binders = self.common_binders() + ''.join(f' ({n} : {ty})' for n, ty in info['fixed']) + \
            ''.join(f' ({n} : {ty})' for n, ty, _ in info['carried'])
        ev, ety = info['elem']
        text = (f'def @@SELF@@ {binders} :\n    List {ety} → {RTYPE[self.role]}\n'
                f'  | [] => {nil}\n  | {ev} :: {info["rest"]} => {body}\n')
        if re.search(r'@@[LRB]\d+@@', text):
            # the rest of an outer loop's body would have to call the outer loop from inside the inner one (mutual recursion)
            raise self.ex.bad('a loop nested in a loop is outside the recognised grammar')
        if text in self.by_text:
            name = self.by_text[text]
        else:
            name = f'{self.defname}.loop{len(self.aux) + 1}'
            self.by_text[text] = name
            self.aux.append((name, f'/-- a `for` loop of `{self.doc}`: `[]` = the rest of the function after the loop, '
                                   f'`{ev} :: {info["rest"]}` = one pass through the body -/\n' + text.replace('@@SELF@@', name)))
        init = ' '.join(i for _, _, i in info['carried'])
        return f'({name} {fixed}{" " + init if init else ""} {info["list"]})'


def translate(src, owner, fname, pkinds, rkind, role):
    fns = src.fns[owner]
    if fname not in fns:
        raise Unsupported(f'fn {owner}::{fname} not found')
    fn = fns[fname]
    kinds = [src.types.kind(t) for _, t in fn['params']]
    if kinds != pkinds:
        raise Unsupported(f'{owner}::{fname}: parameter types {kinds}, expected {pkinds}')
    rk = src.types.kind(fn['ret']) if fn['ret'] else 'unit'
    if rk != rkind:
        raise Unsupported(f'{owner}::{fname}: return type {fn["ret"]}, expected {rkind}')
    if fn['self'] != (role != 'ctor'):
        raise Unsupported(f'{owner}::{fname}: receiver')
    ex = Exec(src, owner, fname)
    st = St()
    binders = []
    if owner == 'CSM' and role != 'ctor':
        st.cell = 't'
        st.scope.append(('t', 'Table σ α'))
        st.env[0]['self'] = ('self',)
    elif owner == 'CausalState':
        st.scope.append(('self', 'σ'))
        st.env[0]['self'] = ('state', 'self')
    elif owner == 'CausalAction':
        st.scope.append(('self', 'α'))
        st.env[0]['self'] = ('action', 'self')
    used = {n for n, _ in st.scope}
    for (pn, _), k in zip(fn['params'], kinds):
        ln = lean_name(pn)
        while ln in used:
            ln += '_'
        used.add(ln)
        st.scope.append((ln, ltype(k)))
        st.env[0][pn] = mkval(k, ln)
    tree = ex.exec_block(src.body(fn), st)
    tree = map_leaves(tree, lambda lf: ('leaf', 'normal', lf[2], lf[3]) if lf[1] == 'return' else lf)
    defname = fname if owner == 'CSM' else f'{owner}.{fname}'
    doc = f'{owner}::{fname}'
    r = Renderer(ex, role, defname, doc)
    body = r.tree(tree, 2)
    params = ', '.join(f'{n}: {" ".join(t.split())}' for n, t in fn['params'])
    sig = f'fn {fname}({"&self" + (", " if params else "") if fn["self"] else ""}{params})' + (f' -> {fn["ret"]}' if fn['ret'] else '')
    out = [a for _, a in r.aux]
    out.append(f'/-- `{owner}::{fname}` — `{sig}` -/\ndef {defname} {r.common_binders()}'
               + ''.join(f' ({n} : {ty})' for n, ty in st.scope) + f' :\n    {RTYPE[role]} :=\n  {body}\n')
    return out


def gen_csm(repo):
    src = Source(repo)
    out = ['-- GENERATED by /verif/tools/rs2lean.py csm from /repo — do not edit, regenerated on every check run',
           'import DcVerif.Model.CsmPrim',
           '/-! `CSM`, `CausalState::eval…`, `CausalAction::fire` of `deep_causality/src/types/csm_types/`, one definition per Rust',
           'function, obtained by symbolic execution of the current source (`tools/rs2lean_csm.py`, grammar in its docstring).',
           'Vocabulary: `Model/CsmPrim.lean` (`Table`, `lookup`, `upsert`, `delete`, `entries`) and `Spec/Csm.lean` (`Env`, `Ev`, `Out`,',
           '`Verdict`). `key s` = the id field of the state `s`; `order` = the order in which the hash map enumerates its ids. -/',
           'set_option linter.unusedVariables false',
           'namespace Gen.Csm', 'open Spec.Csm Model.Csm', '', 'variable {σ α δ : Type}', '']
    for owner, fname, pk, rk, role in ROOTS:
        out += translate(src, owner, fname, pk, rk, role)
    out += ['end Gen.Csm', '']
    return '\n'.join(out)


def install(register):
    def guarded(repo):
        try:
            return gen_csm(repo)
        except Unsupported:
            raise
        except Exception as ex:      # noqa: BLE001 — an unforeseen input is a rejection of the source, never a crash
            raise Unsupported(f'csm: internal {type(ex).__name__}: {ex}')
    register('csm', 'Csm.lean')(guarded)
