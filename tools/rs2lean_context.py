"""rs2lean generator `context` (C09): `deep_causality::Context` -> Gen/Ctx.lean.

Sources read (all from the *current* tree), directory deep_causality/src/types/context_types/context_graph/:
    mod.rs                               struct Context, the type aliases, `with_capacity`, `name`
    contextuable_graph.rs                impl ContextuableGraph            (base context)
    extendable_contextuable_graph.rs     impl ExtendableContextuableGraph  (extra contexts) + the private helpers
    indexable.rs, identifiable.rs        impl Indexable, impl Identifiable

What is emitted: a fixed prelude (the vocabulary), the structure `Context`, and **one Lean definition per public Rust
function** (trait methods and `pub` inherent functions), same name, in dependency order. Private inherent functions are
helpers: they are inlined at every call (parameters bound, `return` = the value of the call).

Vocabulary (prelude of the generated file; nothing else is assumed):
  * a Rust computation may panic: `Exec α = val a | panic`, sequenced by `Exec.bind`; every generated function returns
    `Exec …` (`&self`: `Exec R`; `&mut self`: `Exec (Context × R)`, the context as it stands when the function returns);
  * `Result<T, ContextIndexError>` is `Res T = ok t | err` — the error payload (a message) is not modelled, but every
    expression in payload position is checked to be free of effects (constructors, `format!`, `.into()`, `.to_string()`
    over names); `Option<T>` is `Option T`;
  * `std::collections::HashMap<int, V>` is a plain finite map `List (Nat × V)` with the operations the UltraGraph model
    already uses (`mGet`, `mInsert`, `mRemove` of `Model/UGraph.lean`) plus `mUpdate` (a write through the `&mut V` that
    `get_mut` returned); integers are `Nat` (all counters stay below 2^64, DESIGN §3), every `-` is checked (`Exec.sub`);
  * `ultragraph` (external crate) is the abstract `Model.UGraph` through the adapters `ug_*` (one per API method used:
    which model function it is, and that `Out.panic` is a panic, `Out.err` an `Err`); a `Contextoid` is its id, a
    `RelationKind` its discriminant (`weight as u64`), as in the hand model;
  * the fields of `struct Context` are identified by their *types* and their order among fields of the same type
    (`UltraGraph<…>` -> `base`; `Option<HashMap<u64, UltraGraph<…>>>` -> `extras`; the three `u64` -> `id`, `count`,
    `current`; `String` -> `name`; the two `HashMap<usize, usize>` -> `curMap`, `prevMap`), so that a consistent renaming
    of private fields gives the same text.

Recognised grammar (anything else raises Unsupported => every obligation of C09 counts as broken):
    item     ::= `impl<…> [Trait<…> for] Context<…> where … { fn* }`, `struct Context<…> where … { field: type, … }`,
                 `type Alias<…> = type;`          (no `macro_rules!`, no `#[cfg]`)
    block    ::= { stmt* [expr] }
    stmt     ::= let pat [: ty] = expr [else { diverging block }] ;  |  place = expr ;  |  place += | -= | *= expr ;
              |  expr ;  |  return [expr] ;
    place    ::= self.field | local | *local
    pat      ::= x | mut x | ref [mut] x | &pat | _ | Ok(p) | Err(p) | Some(p) | None | () | true | false | <int>
    expr     ::= literal | x | self.field | &e | &mut place | *e | (e) | e as u64|usize | !e | e <op> e
              |  if c { … } [else …] | if let pat = e { … } [else …] | match e { pat => e, … } | { block } | e? | return e
              |  Ok(e) | Err(<payload>) | Some(e) | None | HashMap::new() | ultragraph::new_with_matrix_storage(c)
              |  Self { field: e, … } | self.<fn of Context>(args) | <graph>.<ultragraph method>(args)
              |  <map>.get|get_mut|contains_key|insert|remove|len|is_empty(..)
              |  <option>.is_some|is_none|as_ref|as_mut|copied|cloned|unwrap|expect|map|and_then|ok_or|ok_or_else|unwrap_or|
                          unwrap_or_else|map_or|is_some_and|get_or_insert_with(..)
              |  <result>.is_ok|is_err|unwrap|expect|map|map_err|and_then|ok|unwrap_or|is_ok_and(..)
              |  assert!(c) | debug_assert!(c) | [debug_]assert_eq!|ne!(a, b)   (a failed assertion is a panic; the harness is a
                 debug build) | panic!(..) | unreachable!(..)
    <op>     ::= + * (Nat)  - (checked)  == != < <= > >=  && || (right operand evaluated only when needed)

How control flow is rendered (the only normalisations; each is the definition of the Rust construct, not a rewrite of
the program): `match`/`if let`/`let … else`/`?`/the combinators with a closure (`map`, `and_then`, `ok_or[_else]`,
`unwrap_or`, …) are all one construct, a case distinction on the constructor; when the scrutinee's constructor is known at
translation time (the `Ok(ctx)` / `Err(..)` an inlined helper returns) the arm is selected statically; an early `return`
ends its branch and the remaining statements go to the branches that fall through (when two branches fall through and
neither returns, the statements that follow see the *joined* context `let self := if … then … else …`); a mutable
reference is the place it points to: a write through it is written back along the chain of places
(`ctx.add_node(v)` with `ctx` from `self.extra_contexts.as_mut().expect(..).get_mut(&k)` rewrites entry `k` of the map in
field `extras`). Operand order, the order of statements, which branch returns what, which map is written and in which
order: as in the source.
"""
import re
from rsexpr import Unsupported, strip_comments, tokenize
from rsblock import BlockParser, strip_strings, fn_items, split_top

DIR = 'deep_causality/src/types/context_types/context_graph/'
FILES = ['mod.rs', 'contextuable_graph.rs', 'extendable_contextuable_graph.rs', 'indexable.rs', 'identifiable.rs']
HEADER = "-- GENERATED by /verif/tools/rs2lean.py (context) from /repo — do not edit, regenerated on every check run\n"
INTS = ('u64', 'usize', 'u128')
MAX_NODES = 600
MAX_INLINE = 6


# ----------------------------------------------------------------------------------------------
# parser: rsblock's + closures, `if let`, `let … else`, structured patterns, `&mut`, `return` as an expression, `+=`
# ----------------------------------------------------------------------------------------------
class CtxParser(BlockParser):
    def unary(self):
        if self.peek()[1] == '&' and self.peek(1)[1] == 'mut':
            self.next()
            self.next()
            return ('refmut', self.unary())
        if self.peek()[1] == '&&':      # `&&x`: two references
            self.next()
            return ('ref', ('ref', self.unary()))
        return super().unary()

    def atom(self):
        kind, v = self.peek()
        if kind == 'id' and v == 'move' and self.peek(1)[1] in ('|', '||'):
            self.next()
            kind, v = self.peek()
        if kind == 'op' and v in ('|', '||'):
            return self.closure()
        if kind == 'id' and v == 'return':
            self.next()
            e = None if self.peek()[1] in (';', '}', ',', ')') else self.expr()
            return ('ret', e)
        return super().atom()

    def closure(self):
        params = []
        if self.next()[1] == '|':
            while self.peek()[1] != '|':
                params.append(self.pattern2())
                if self.peek()[1] == ':':
                    self.next()
                    self.type_text((',', '|'))
                if self.peek()[1] == ',':
                    self.next()
            self.expect('|')
        if self.peek()[1] == '->':
            raise Unsupported('closure with a return type')
        saved, self.no_struct = self.no_struct, 0
        body = self.expr()
        self.no_struct = saved
        return ('closure', params, body)

    def pattern2(self):
        kind, v = self.next()
        if v in ('&', '&&', 'mut', 'ref'):
            return self.pattern2()
        if v == '_':
            return ('pwild',)
        if kind == 'num':
            return ('plit', int(re.sub(r'(u|i)(8|16|32|64|128|size)$', '', v).replace('_', '')))
        if v == '(':
            items, comma = [], False
            while self.peek()[1] != ')':
                items.append(self.pattern2())
                if self.peek()[1] == ',':
                    self.next()
                    comma = True
                elif self.peek()[1] != ')':
                    raise Unsupported('pattern: unexpected token ' + self.peek()[1])
            self.next()
            if not items:
                return ('punit',)
            if len(items) == 1 and not comma:
                return items[0]
            return ('ptuple', items)
        if kind == 'id':
            if v in ('true', 'false'):
                return ('pbool', v == 'true')
            path = [v]
            while self.peek()[1] == '::':
                self.next()
                k2, v2 = self.next()
                if k2 != 'id':
                    raise Unsupported('pattern path')
                path.append(v2)
            if self.peek()[1] == '(':
                self.next()
                subs = []
                while self.peek()[1] != ')':
                    subs.append(self.pattern2())
                    if self.peek()[1] == ',':
                        self.next()
                    elif self.peek()[1] != ')':
                        raise Unsupported('pattern: unexpected token ' + self.peek()[1])
                self.next()
                return ('pctor', path[-1], subs)
            if self.peek()[1] == '{':
                raise Unsupported('struct pattern')
            if len(path) > 1 or v[:1].isupper():
                return ('pctor', path[-1], [])
            if self.peek()[1] == '@':
                raise Unsupported('binding pattern')
            return ('pid', v)
        raise Unsupported('pattern: unexpected token ' + v)

    def if_expr(self):
        self.expect('if')
        if self.peek()[1] == 'let':
            self.next()
            pat = self.pattern2()
            self.expect('=')
            scrut = self.head_expr()
            then = self.block()
            els = None
            if self.peek()[1] == 'else':
                self.next()
                els = self.if_expr() if self.peek()[1] == 'if' else self.block()
            return ('iflet', pat, scrut, then, els)
        cond = self.head_expr()
        then = self.block()
        els = None
        if self.peek()[1] == 'else':
            self.next()
            els = self.if_expr() if self.peek()[1] == 'if' else self.block()
        return ('if', cond, then, els)

    def match_expr(self):
        self.expect('match')
        scrut = self.head_expr()
        self.expect('{')
        arms = []
        while self.peek()[1] != '}':
            if self.peek()[1] == '|':
                self.next()
            pat = self.pattern2()
            if self.peek()[1] == '|':
                raise Unsupported('or-pattern')
            if self.peek()[1] == 'if':
                raise Unsupported('match guard')
            self.expect('=>')
            saved, self.no_struct = self.no_struct, 0
            body = self.expr()
            self.no_struct = saved
            arms.append((pat, body))
            if self.peek()[1] == ',':
                self.next()
            elif self.peek()[1] != '}' and body[0] not in ('block', 'if', 'iflet', 'match'):
                raise Unsupported('match arm not terminated by `,`')
        self.expect('}')
        return ('match', scrut, arms)

    def block(self):
        self.expect('{')
        saved, self.no_struct = self.no_struct, 0
        stmts, tail = [], None
        while self.peek()[1] != '}':
            if tail is not None:
                raise Unsupported('expression without `;` in the middle of a block')
            self.skip_attrs()
            kind, v = self.peek()
            if kind == 'eof':
                raise Unsupported('unterminated block')
            if v == ';':
                self.next()
            elif v == 'let':
                self.next()
                pat = self.pattern2()
                ty = None
                if self.peek()[1] == ':':
                    self.next()
                    ty = self.type_text(('=', ';'))
                if self.peek()[1] != '=':
                    raise Unsupported('let without initialiser')
                self.next()
                rhs = self.expr()
                els = None
                if self.peek()[1] == 'else':
                    self.next()
                    els = self.block()
                self.expect(';')
                stmts.append(('let', pat, ty, rhs, els))
            elif v in ('while', 'loop', 'for', 'fn', 'struct', 'use', 'const', 'static', 'impl', 'break', 'continue', 'enum',
                       'type', 'trait', 'mod', 'unsafe'):
                raise Unsupported(f'`{v}` statement')
            elif v in ('if', 'match', '{'):
                e = self.atom()
                if self.peek()[1] == '}':
                    tail = e
                else:
                    if self.peek()[1] == ';':
                        self.next()
                    elif self.peek()[1] in ('.', '?'):
                        raise Unsupported('method call on a block-like expression statement')
                    stmts.append(('expr', e))
            else:
                e = self.expr()
                nxt = self.peek()[1]
                if nxt in ('=', '+=', '-=', '*='):
                    self.next()
                    rhs = self.expr()
                    if self.peek()[1] == ';':
                        self.next()
                    elif self.peek()[1] != '}':
                        raise Unsupported('assignment not terminated')
                    stmts.append(('assign', e, rhs if nxt == '=' else ('bin', nxt[0], e, rhs)))
                elif nxt == ';':
                    self.next()
                    stmts.append(('expr', e))
                elif nxt == '}':
                    tail = e
                else:
                    raise Unsupported('unexpected token in statement: ' + nxt)
        self.expect('}')
        self.no_struct = saved
        return ('block', stmts, tail)


def parse_fn_body(text):
    p = CtxParser(tokenize('{' + text + '}'))
    b = p.block()
    if not p.at_end():
        raise Unsupported('trailing tokens after function body')
    return b


# ----------------------------------------------------------------------------------------------
# items: struct, aliases, impl blocks
# ----------------------------------------------------------------------------------------------
def match_brace(src, i):
    """index just after the brace that closes the one at src[i]"""
    depth, j = 0, i
    while True:
        depth += (src[j] == '{') - (src[j] == '}')
        j += 1
        if depth == 0:
            return j


class Fn:
    def __init__(self, it, trait, fname):
        self.name, self.trait, self.file = it['name'], trait, fname
        self.public = bool(trait) or it['vis'] == 'pub'
        ps = split_top(it['params'])
        self.recv = None
        if ps and re.fullmatch(r"&\s*(?:'\w+\s+)?(mut\s+)?self", ps[0]):
            self.recv = '&mut self' if 'mut' in ps[0] else '&self'
            ps = ps[1:]
        elif ps and re.fullmatch(r'(mut\s+)?self', ps[0]):
            raise Unsupported(f'{self.name}: by-value receiver')
        self.params = []
        for p in ps:
            m = re.fullmatch(r'(?:mut\s+)?(\w+)\s*:\s*(.+)', p, flags=re.S)
            if not m:
                raise Unsupported(f'{self.name}: parameter `{p}`')
            self.params.append((m.group(1), ' '.join(m.group(2).split())))
        self.ret = it['ret']
        self.body_text = it['body']
        if re.search(r'\bfn\s+' + re.escape(self.name) + r'\s*<', it['sig']):
            raise Unsupported(f'{self.name}: generic function')


class Source:
    def __init__(self, repo):
        self.aliases, self.fns, self.struct_fields = {}, {}, None
        for f in FILES:
            raw = (repo / (DIR + f)).read_text()
            src = strip_strings(strip_comments(raw))
            if re.search(r'\bmacro_rules\b', src) or re.search(r'#\s*!?\s*\[\s*cfg', src):
                raise Unsupported(f'{f}: macro definitions / conditional compilation are not read')
            for m in re.finditer(r'\btype\s+(\w+)\s*(?:<[^=;]*>)?\s*=\s*([^;]+);', src):
                self.aliases[m.group(1)] = ' '.join(m.group(2).split())
            for m in re.finditer(r'\bstruct\s+Context\b', src):
                if self.struct_fields is not None:
                    raise Unsupported('struct Context defined twice')
                i = src.index('{', m.end())
                if ';' in src[m.end():i]:
                    raise Unsupported('struct Context: not a braced struct')
                j = match_brace(src, i)
                self.struct_fields = []
                for fld in split_top(re.sub(r'#\[[^\]]*\]', '', src[i + 1:j - 1])):
                    mf = re.fullmatch(r'(?:pub(?:\([^)]*\))?\s+)?(\w+)\s*:\s*(.+)', fld, flags=re.S)
                    if not mf:
                        raise Unsupported('struct Context: field `' + fld + '`')
                    self.struct_fields.append((mf.group(1), ' '.join(mf.group(2).split())))
            pos = 0
            for m in re.finditer(r'\bimpl\b', src):
                if m.start() < pos:
                    continue
                i = src.index('{', m.end())
                head = ' '.join(src[m.end():i].split())
                j = match_brace(src, i)
                pos = j
                head = re.sub(r'\bwhere\b.*$', '', head)
                if head.startswith('<'):
                    depth, k = 0, 0
                    while True:
                        depth += (head[k] == '<') - (head[k] == '>')
                        k += 1
                        if depth == 0:
                            break
                    head = head[k:].strip()
                mt = re.fullmatch(r'(?:(\w+)\s*(?:<.*>)?\s+for\s+)?(\w+)\s*(?:<.*>)?', head, flags=re.S)
                if not mt:
                    raise Unsupported(f'{f}: impl header `{head}`')
                trait, target = mt.group(1), mt.group(2)
                if target != 'Context':
                    raise Unsupported(f'{f}: impl for `{target}`')
                if trait in ('Debug', 'Display'):
                    continue
                for it in fn_items(src[i + 1:j - 1]):
                    if it['name'] in self.fns:
                        raise Unsupported(f'fn {it["name"]} defined twice')
                    self.fns[it['name']] = Fn(it, trait, f)
            rest = src
            if re.search(r'\bunsafe\b', rest):
                raise Unsupported(f'{f}: unsafe')
        if self.struct_fields is None:
            raise Unsupported('struct Context not found')


# ----------------------------------------------------------------------------------------------
# types
# ----------------------------------------------------------------------------------------------
ROLE_DOC = {'id': 'id', 'name': 'name', 'base': 'base context', 'extras': 'extra contexts', 'count': 'number of extra contexts',
            'current': 'selected extra context (0 = none)', 'curMap': 'current index map', 'prevMap': 'previous index map'}


class Types:
    def __init__(self, src):
        self.aliases = src.aliases
        self.fields = {}          # rust field -> (canonical name, type)
        by = {}
        for name, ty in src.struct_fields:
            t = self.parse(ty)
            by.setdefault(repr(t), []).append((name, t))
        want = {repr('graph'): ['base'], repr(('opt', ('map', 'graph'))): ['extras'], repr('nat'): ['id', 'count', 'current'],
                repr('string'): ['name'], repr(('map', 'nat')): ['curMap', 'prevMap']}
        if set(by) != set(want) or any(len(by[k]) != len(want[k]) for k in want):
            raise Unsupported('struct Context: expected one UltraGraph, one Option<HashMap<u64, UltraGraph>>, three u64, one String, '
                              'two HashMap<usize, usize>; found ' + ', '.join(f'{n}: {t}' for n, t in src.struct_fields))
        for k in want:
            for (name, t), canon in zip(by[k], want[k]):
                self.fields[name] = (canon, t)
        self.order = [self.fields[n][0] for n, _ in src.struct_fields]
        self.rust_of = {c: n for n, (c, _) in self.fields.items()}

    def parse(self, t, depth=0):
        t = t.strip()
        if depth > 8:
            raise Unsupported('type alias cycle')
        while True:
            m = re.match(r"&\s*(?:'\w+\s*)?(?:mut\b\s*)?", t)
            if m and m.end() > 0:
                t = t[m.end():].strip()
                continue
            break
        if t in INTS:
            return 'nat'
        if t == 'bool':
            return 'bool'
        if t == '()':
            return 'unit'
        if t in ('str', 'String'):
            return 'string'
        if t == 'Self':
            return 'ctx'
        m = re.fullmatch(r'((?:\w+\s*::\s*)*)(\w+)\s*(?:<(.*)>)?', t, flags=re.S)
        if not m:
            raise Unsupported('type ' + t)
        name, args = m.group(2), split_top(m.group(3)) if m.group(3) else []
        if name == 'Option' and len(args) == 1:
            return ('opt', self.parse(args[0], depth))
        if name == 'Result' and len(args) == 2:
            if self.parse(args[1], depth) != 'inert':
                raise Unsupported('Result with error type ' + args[1])
            return ('res', self.parse(args[0], depth))
        if name == 'HashMap' and len(args) == 2:
            if self.parse(args[0], depth) != 'nat':
                raise Unsupported('HashMap key type ' + args[0])
            return ('map', self.parse(args[1], depth))
        if name in ('UltraGraph', 'UltraMatrixGraph'):
            if len(args) != 1 or self.parse(args[0], depth) != 'contextoid':
                raise Unsupported('graph of ' + ', '.join(args))
            return 'graph'
        if name == 'Contextoid':
            return 'contextoid'
        if name == 'RelationKind' and not args:
            return 'relkind'
        if name == 'ContextIndexError' and not args:
            return 'inert'
        if name == 'Context':
            return 'ctx'
        if name in self.aliases:
            return self.parse(self.aliases[name], depth + 1)
        raise Unsupported('type ' + t)


def lean_ty(t):
    if isinstance(t, tuple):
        inner = lean_ty(t[1])
        if t[0] == 'opt':
            return f'(Option {inner})'
        if t[0] == 'res':
            return f'(Res {inner})'
        if t[0] == 'map':
            return f'(List (Nat × {inner}))'
    return {'nat': 'Nat', 'bool': 'Bool', 'unit': 'Unit', 'string': 'String', 'ctx': 'Context', 'graph': 'UGraph',
            'contextoid': 'Nat', 'relkind': 'Nat'}[t]


def unify(a, b):
    """loose structural agreement of two type tags (None = unknown)"""
    if a is None or b is None:
        return True
    if isinstance(a, tuple) and isinstance(b, tuple):
        return a[0] == b[0] and unify(a[1], b[1])
    return a == b


# ----------------------------------------------------------------------------------------------
# values, places, environments
# ----------------------------------------------------------------------------------------------
class Ref:
    """a place a `&mut` points to; its current value (a Lean name) lives in the environment"""
    _n = [0]

    def __init__(self, ty, parent):
        Ref._n[0] += 1
        self.id, self.ty, self.parent = Ref._n[0], ty, parent     # parent: ('field', canon) | ('some', Ref) | ('entry', Ref, key)


class V:
    """a translated value: Lean text (pure, over immutable names) or a constructor known at translation time"""

    def __init__(self, ty, text=None, known=None, ref=None, pparent=None, bid=None):
        self.ty, self.text, self.known, self.ref, self.pparent, self.bid = ty, text, known, ref, pparent, bid

    def with_(self, **kw):
        v = V(self.ty, self.text, self.known, self.ref, self.pparent, self.bid)
        for k, x in kw.items():
            setattr(v, k, x)
        return v


class Env:
    def __init__(self, self_name, locals_, ret_k, refcur=None, mutable=False, depth=0, ret_ty=None):
        self.self_name, self.locals, self.ret_k, self.refcur = self_name, locals_, ret_k, refcur or {}
        self.mutable, self.depth, self.ret_ty = mutable, depth, ret_ty

    def copy(self):
        return Env(self.self_name, dict(self.locals), self.ret_k, dict(self.refcur), self.mutable, self.depth, self.ret_ty)

    def state(self):
        """what a join must agree on: the local bindings and the current values of the places they can reach"""
        live, todo = set(), []
        for v in self.locals.values():
            todo += [v.ref, v.pparent]
            if v.known and len(v.known) > 1:
                todo += [v.known[1].ref, v.known[1].pparent]
        while todo:
            x = todo.pop()
            if x is None:
                continue
            if isinstance(x, tuple):
                todo += [y for y in x[1:] if isinstance(y, Ref)]
            elif x.id not in live:
                live.add(x.id)
                todo.append(x.parent)
        return (sorted((n, id(v)) for n, v in self.locals.items()), sorted((i, t) for i, t in self.refcur.items() if i in live))


LEAN_KEYWORDS = {'at', 'from', 'end', 'in', 'do', 'then', 'else', 'if', 'let', 'have', 'show', 'fun', 'by', 'with', 'match', 'def',
                 'theorem', 'where', 'open', 'namespace', 'section', 'structure', 'instance', 'class', 'Type', 'Prop', 'Sort',
                 'return', 'for', 'mut', 'import', 'deriving', 'example', 'variable', 'universe', 'abbrev', 'inductive', 'using',
                 'calc', 'suffices', 'obtain', 'forall', 'exists', 'macro', 'syntax', 'default', 'some', 'none', 'true', 'false',
                 'not', 'id', 'fun', 'this', 'nomatch', 'unless', 'try', 'catch', 'finally', 'then', 'private', 'protected'}
PRELUDE_NAMES = {'Exec', 'Res', 'Context', 'UGraph', 'mGet', 'mInsert', 'mRemove', 'mUpdate', 'Nat', 'Bool', 'List', 'Option',
                 'String', 'Unit', 'decide', 'self'} | {f'ug_{n}' for n in
                 ('new', 'add_node', 'contains_node', 'get_node', 'remove_node', 'add_edge_with_weight', 'add_edge', 'remove_edge',
                  'contains_edge', 'size', 'is_empty', 'number_nodes', 'number_edges', 'result')}

GRAPH_API = {   # ultragraph method -> (parameter types, mutates, may panic / returns Exec, result type)
    'add_node': (['contextoid'], True, False, 'nat'),
    'contains_node': (['nat'], False, False, 'bool'),
    'get_node': (['nat'], False, False, ('opt', 'contextoid')),
    'remove_node': (['nat'], True, True, ('res', 'unit')),
    'add_edge': (['nat', 'nat'], True, True, ('res', 'unit')),
    'add_edge_with_weight': (['nat', 'nat', 'nat'], True, True, ('res', 'unit')),
    'remove_edge': (['nat', 'nat'], True, True, ('res', 'unit')),
    'contains_edge': (['nat', 'nat'], False, False, 'bool'),
    'size': ([], False, True, 'nat'),
    'is_empty': ([], False, True, 'bool'),
    'number_nodes': ([], False, True, 'nat'),
    'number_edges': ([], False, False, 'nat'),
}


# ----------------------------------------------------------------------------------------------
# the translation of one function: continuation-passing over a small tree of Lean nodes
#   ('let', name, text, body) ('bind', name, text, body) ('if', cond, then, else) ('match', scrut, [(pat, node)])
#   ('joinlet' | 'joinbind', name, tree, body) ('ret', text) ('end', text) ('panic',) ('probe', id)
# ----------------------------------------------------------------------------------------------
LEAVES = ('ret', 'end', 'panic', 'probe')
UNIT = V('unit', '()')


def atomic(text):
    return re.fullmatch(r"[\w«».']+", text) is not None


class FnTr:
    def __init__(self, gen, fn):
        self.g, self.fn, self.T = gen, fn, gen.types
        self.used = set(LEAN_KEYWORDS) | set(PRELUDE_NAMES) | set(gen.src.fns)
        self.deps, self.nodes, self.pid, self.bid = [], 0, 0, 0

    # ---- small helpers -----------------------------------------------------------------------
    def fail(self, msg):
        raise Unsupported(f'{self.fn.file}::{self.fn.name}: {msg}')

    def fresh(self, hint):
        hint = re.sub(r'\W', '_', hint) or 'x'
        if hint.startswith('__'):
            hint = 't'
        name, k = hint, 1
        while name in self.used:
            name = f'{hint}_{k}'
            k += 1
        self.used.add(name)
        return name

    def node(self, *n):
        self.nodes += 1
        if self.nodes > 20 * MAX_NODES:
            self.fail('translation grows too large (continuation duplicated too often)')
        return tuple(n)

    def new_bid(self):
        self.bid += 1
        return self.bid

    def mat(self, v):
        if v.known:
            k = v.known
            if k[0] == 'ok':
                return f'(Res.ok {self.mat(k[1])})'
            if k[0] == 'err':
                return 'Res.err'
            if k[0] == 'some':
                return f'(some {self.mat(k[1])})'
            if k[0] == 'none':
                return 'none'
        if v.text is None:
            self.fail('value without a Lean rendering')
        return v.text

    def cur(self, env, v):
        return env.refcur[v.ref.id] if v.ref is not None else self.mat(v)

    def lets(self, lets, body):
        for name, text in reversed(lets):
            body = self.node('let', name, text, body)
        return body

    def mkref(self, env, ty, parent, curtext):
        r = Ref(ty, parent)
        env.refcur[r.id] = curtext
        return r

    def write(self, env, ref, text):
        """assign `text` to the place `ref`: let-bindings, innermost first; the environment is updated"""
        hint = {'graph': 'g', 'nat': 'n', 'bool': 'b'}.get(ref.ty if not isinstance(ref.ty, tuple) else '', None) or \
            {'map': 'm', 'opt': 'o', 'res': 'r'}.get(ref.ty[0] if isinstance(ref.ty, tuple) else '', 'x')
        out = []
        p = ref.parent
        if p[0] == 'field':
            if not env.mutable:
                self.fail('write to a field through `&self`')
            sn = self.fresh('self')
            out.append((sn, f'{{ {env.self_name} with {p[1]} := {text} }}'))
            env.self_name = sn
            env.refcur[ref.id] = f'{sn}.{p[1]}'
            return out
        nm = self.fresh(hint)
        out.append((nm, text))
        env.refcur[ref.id] = nm
        if p[0] == 'local':
            return out
        if p[0] == 'some':
            out += self.write(env, p[1], f'(some {nm})')
        elif p[0] == 'entry':
            out += self.write(env, p[1], f'(mUpdate {env.refcur[p[1].id]} {p[2]} {nm})')
        else:
            self.fail('write through an unsupported place')
        return out

    # ---- tree utilities ----------------------------------------------------------------------
    def subst(self, t, m):
        k = t[0]
        if k == 'probe':
            return m.get(t[1], t)
        if k in ('let', 'bind', 'joinlet', 'joinbind'):
            if k in ('joinlet', 'joinbind'):
                return (k, t[1], self.subst(t[2], m), self.subst(t[3], m))
            return (k, t[1], t[2], self.subst(t[3], m))
        if k == 'if':
            return (k, t[1], self.subst(t[2], m), self.subst(t[3], m))
        if k == 'match':
            return (k, t[1], [(p, self.subst(b, m)) for p, b in t[2]])
        return t

    def leaves(self, t, out):
        k = t[0]
        if k in LEAVES:
            out.append(t)
        elif k in ('let', 'bind'):
            self.leaves(t[3], out)
        elif k in ('joinlet', 'joinbind'):
            self.leaves(t[3], out)
        elif k == 'if':
            self.leaves(t[2], out)
            self.leaves(t[3], out)
        elif k == 'match':
            for _, b in t[2]:
                self.leaves(b, out)
        return out

    def is_exec(self, t):
        k = t[0]
        if k in ('bind', 'joinbind', 'panic'):
            return True
        if k == 'let':
            return self.is_exec(t[3])
        if k == 'joinlet':
            return self.is_exec(t[3])
        if k == 'if':
            return self.is_exec(t[2]) or self.is_exec(t[3])
        if k == 'match':
            return any(self.is_exec(b) for _, b in t[2])
        return False

    def size(self, t):
        k = t[0]
        if k in LEAVES:
            return 1
        if k in ('let', 'bind'):
            return 1 + self.size(t[3])
        if k in ('joinlet', 'joinbind'):
            return 1 + self.size(t[2]) + self.size(t[3])
        if k == 'if':
            return 1 + self.size(t[2]) + self.size(t[3])
        return 1 + sum(self.size(b) for _, b in t[2])

    def branch(self, env, builders, mk, k):
        """a case distinction whose branches are built by `builders` (each from a copy of `env`); `k` is what follows"""
        trees, ends = [], []

        def kp(e2, v):
            self.pid += 1
            ends.append((self.pid, e2, v))
            return ('probe', self.pid)
        for b in builders:
            trees.append(b(env.copy(), kp))
        if len(ends) <= 1:
            m = {pid: k(e2, v) for pid, e2, v in ends}
            return mk([self.subst(t, m) for t in trees])
        own = {pid for pid, _, _ in ends}
        lv = [l for t in trees for l in self.leaves(t, [])]
        joinable = all(l[0] == 'panic' or (l[0] == 'probe' and l[1] in own) for l in lv)
        e0, v0 = ends[0][1], ends[0][2]
        for _, e2, v in ends:
            if v.known or v.ref is not None or v.pparent is not None or not unify(v.ty, v0.ty) or e2.state() != e0.state():
                joinable = False
        if joinable and all(e2.self_name == e0.self_name for _, e2, _ in ends) and v0.ty == 'unit' \
                and not any(self.is_exec(t) for t in trees):
            return k(e0, UNIT)          # branches without any effect
        names = set(self.used)
        dup = {pid: k(e2.copy(), v) for pid, e2, v in ends}
        if all(n[0] in LEAVES for n in dup.values()) or not joinable:
            return mk([self.subst(t, dup) for t in trees])
        self.used = names           # the duplicated continuations are dropped in favour of the join
        need_self = any(e2.self_name != env.self_name for _, e2, _ in ends)
        need_val = v0.ty != 'unit'
        m = {}
        for pid, e2, v in ends:
            parts = ([e2.self_name] if need_self else []) + ([self.mat(v)] if need_val else [])
            m[pid] = ('end', parts[0] if len(parts) == 1 else '(' + ', '.join(parts) + ')')
        ej = e0.copy()
        lets = []
        if need_self and need_val:
            name = self.fresh('p')
            sj, vj = self.fresh('self'), self.fresh('v')
            lets = [(sj, f'{name}.1'), (vj, f'{name}.2')]
            ej.self_name, val = sj, V(v0.ty, vj)
        elif need_self:
            name = self.fresh('self')
            ej.self_name, val = name, UNIT
        else:
            name = self.fresh('v')
            val = V(v0.ty, name)
        tree = mk([self.subst(t, m) for t in trees])
        kind = 'joinbind' if self.is_exec(tree) else 'joinlet'
        return self.node(kind, name, tree, self.lets(lets, k(ej, val)))

    def try_pure(self, env, e):
        box = []
        e2 = env.copy()

        def kp(en, v):
            box.append((en, v))
            return ('probe', -1)
        n = self.expr(e2, e, kp)
        if n == ('probe', -1) and len(box) == 1 and box[0][0].state() == env.state() and box[0][0].self_name == env.self_name:
            return box[0][1]
        return None

    # ---- expressions -------------------------------------------------------------------------
    def args(self, env, asts, k, acc=None):
        acc = acc or []
        if len(acc) == len(asts):
            return k(env, acc)
        return self.expr(env, asts[len(acc)], lambda e2, v: self.args(e2, asts, k, acc + [v]))

    def inert(self, env, e, bound=()):
        """an expression in error-payload position: no effects, no panics; its value is not modelled"""
        k = e[0]
        if k == 'num':
            return
        if k == 'path':
            p = e[1]
            if len(p) == 1 and (p[0] == '__str' or p[0] in bound):
                return
            if len(p) == 1 and p[0] in env.locals and env.locals[p[0]].ty in ('nat', 'bool', 'string', 'strlit', 'inert', 'relkind'):
                return
            self.fail('error payload mentions `' + '::'.join(p) + '`')
        if k in ('paren', 'ref', 'deref', 'refmut'):
            return self.inert(env, e[1], bound)
        if k == 'block' and not e[1] and e[2] is not None:
            return self.inert(env, e[2], bound)
        if k == 'field' and e[1] == ('path', ['self']) and e[2] in self.T.fields and self.T.fields[e[2]][1] in ('nat', 'string'):
            return
        if k == 'call' and e[1][0] == 'path' and e[1][1] in (['ContextIndexError'], ['ContextIndexError', 'new'], ['String', 'from']):
            for a in e[2]:
                self.inert(env, a, bound)
            return
        if k == 'macro' and e[1] == 'format':
            for a in e[2]:
                self.inert(env, a, bound)
            return
        if k == 'mcall' and e[2] in ('into', 'to_string', 'to_owned', 'clone', 'as_str') and not e[3]:
            return self.inert(env, e[1], bound)
        self.fail('error payload outside the effect-free grammar: ' + repr(e)[:100])

    def recv(self, env, e, k):
        """a receiver / operand of `&mut`: a place where the expression is one"""
        while e[0] in ('paren', 'deref', 'refmut', 'ref'):
            e = e[1]
        if e[0] == 'field' and e[1] == ('path', ['self']):
            if e[2] not in self.T.fields:
                self.fail('unknown field ' + e[2])
            canon, ty = self.T.fields[e[2]]
            text = f'{env.self_name}.{canon}'
            return k(env, V(ty, text, ref=self.mkref(env, ty, ('field', canon), text)))
        if e[0] == 'path' and len(e[1]) == 1 and e[1][0] in env.locals:
            v = env.locals[e[1][0]]
            if v.ref is None and not v.known and v.pparent is None and v.text is not None and \
                    (v.ty == 'graph' or (isinstance(v.ty, tuple) and v.ty[0] in ('map', 'opt'))):
                # a local that owns its value (`let mut m = HashMap::new()`): the local itself is the place
                v = v.with_(ref=self.mkref(env, v.ty, ('local', e[1][0]), v.text))
                env.locals[e[1][0]] = v
            return k(env, v)
        return self.expr(env, e, k)

    def cmp_text(self, op, a, b):
        return {'==': f'({a} == {b})', '!=': f'({a} != {b})', '<': f'(decide ({a} < {b}))', '<=': f'(decide ({a} ≤ {b}))',
                '>': f'(decide ({a} > {b}))', '>=': f'(decide ({a} ≥ {b}))'}[op]

    def expr(self, env, e, k):
        kind = e[0]
        if kind == 'num':
            return k(env, V('nat', str(e[1])))
        if kind == 'unit':
            return k(env, UNIT)
        if kind == 'vlit':
            return k(env, e[1])
        if kind == 'paren':
            return self.expr(env, e[1], k)
        if kind in ('ref', 'deref'):
            return self.expr(env, e[1], k)
        if kind == 'refmut':
            return self.recv(env, e[1], k)
        if kind == 'path':
            p = e[1]
            if len(p) == 1:
                n = p[0]
                if n == 'self':
                    if env.self_name is None:
                        self.fail('`self` in a function without receiver')
                    return k(env, V('ctx', env.self_name))
                if n in env.locals:
                    v = env.locals[n]
                    if v.ref is not None and v.ref.parent[0] == 'local':
                        return k(env, V(v.ty, env.refcur[v.ref.id]))        # the value the local holds now
                    return k(env, v)
                if n in ('true', 'false'):
                    return k(env, V('bool', n))
                if n == 'None':
                    return k(env, V(('opt', None), known=('none',)))
                if n == '__str':
                    return k(env, V('strlit', '()'))
                self.fail(f'unknown name `{n}`')
            if p in (['Option', 'None'],):
                return k(env, V(('opt', None), known=('none',)))
            self.fail('path ' + '::'.join(p))
        if kind == 'field':
            if e[1] != ('path', ['self']) or e[2] not in self.T.fields:
                self.fail(f'field access .{e[2]}')
            canon, ty = self.T.fields[e[2]]
            return k(env, V(ty, f'{env.self_name}.{canon}'))
        if kind == 'cast':
            if e[2] not in INTS:
                self.fail('cast to ' + e[2])
            return self.expr(env, e[1], lambda e2, v: k(e2, V('nat', self.mat(v))) if v.ty in ('nat', 'relkind')
                             else self.fail('cast of a value that is not an integer'))
        if kind == 'not':
            return self.expr(env, e[1], lambda e2, v: k(e2, V('bool', f'(!{self.mat(v)})')) if v.ty == 'bool'
                             else self.fail('`!` on a non-boolean'))
        if kind == 'bin':
            return self.binop(env, e, k)
        if kind == 'block':
            return self.block(env, e, k)
        if kind == 'if':
            return self.if_(env, e, k)
        if kind == 'iflet':
            els = e[4] if e[4] is not None else ('unit',)
            return self.expr(env, e[2], lambda e2, v: self.match_(e2, v, [(e[1], e[3]), (('pwild',), els)], k))
        if kind == 'match':
            return self.expr(env, e[1], lambda e2, v: self.match_(e2, v, e[2], k))
        if kind == 'ret':
            if e[1] is None:
                return env.ret_k(env, UNIT)
            return self.expr(env, e[1], lambda e2, v: e2.ret_k(e2, v))
        if kind == 'try':
            return self.expr(env, e[1], lambda e2, v: self.try_(e2, v, k))
        if kind == 'call':
            return self.call(env, e, k)
        if kind == 'mcall':
            return self.mcall(env, e, k)
        if kind == 'macro':
            return self.macro(env, e, k)
        if kind == 'struct':
            return self.struct(env, e, k)
        if kind == '__rest':
            return self.block(env, e[1], k)
        self.fail('expression form ' + kind)

    def binop(self, env, e, k):
        op = e[1]
        if op in ('&&', '||'):
            def after_lhs(e2, a):
                if a.ty != 'bool':
                    self.fail(f'`{op}` on a non-boolean')
                b = self.try_pure(e2, e[3])
                if b is not None:
                    if b.ty != 'bool':
                        self.fail(f'`{op}` on a non-boolean')
                    return k(e2, V('bool', f'({self.mat(a)} {op} {self.mat(b)})'))
                lit = ('path', ['false' if op == '&&' else 'true'])
                t, f = (e[3], lit) if op == '&&' else (lit, e[3])
                return self.if_(e2, ('if', ('vlit', a), ('block', [], t), ('block', [], f)), k)
            return self.expr(env, e[2], after_lhs)

        def both(e2, vs):
            a, b = vs
            x, y = self.mat(a), self.mat(b)
            if op in ('+', '*'):
                if a.ty != 'nat' or b.ty != 'nat':
                    self.fail(f'`{op}` on non-integers')
                return k(e2, V('nat', f'({x} {op} {y})'))
            if op == '-':
                if a.ty != 'nat' or b.ty != 'nat':
                    self.fail('`-` on non-integers')
                d = self.fresh('d')
                return self.node('bind', d, f'Exec.sub {x} {y}', k(e2, V('nat', d)))
            if op in ('==', '!=', '<', '<=', '>', '>='):
                if a.ty != b.ty or a.ty not in ('nat', 'bool') or (a.ty == 'bool' and op not in ('==', '!=')):
                    self.fail(f'comparison `{op}` of {a.ty} and {b.ty}')
                return k(e2, V('bool', self.cmp_text(op, x, y)))
            self.fail('operator ' + op)
        return self.args(env, [e[2], e[3]], both)

    def if_(self, env, e, k):
        els = e[3] if e[3] is not None else ('block', [], None)

        def cond(e2, c):
            if c.ty != 'bool':
                self.fail('condition is not a boolean')
            ct = self.mat(c)
            return self.branch(e2, [lambda en, kk: self.expr(en, e[2], kk), lambda en, kk: self.expr(en, els, kk)],
                               lambda ns: self.node('if', ct, ns[0], ns[1]), k)
        return self.expr(env, e[1], cond)

    def try_(self, env, v, k):
        if not isinstance(v.ty, tuple) or v.ty[0] not in ('res', 'opt'):
            self.fail('`?` on a value that is neither Result nor Option')
        rt = env.ret_ty
        if rt is not None and (not isinstance(rt, tuple) or rt[0] != v.ty[0]):
            self.fail('`?` in a function of a different return kind')
        if v.ty[0] == 'res':
            arms = [(('pctor', 'Ok', [('pid', '__q')]), ('path', ['__q'])),
                    (('pctor', 'Err', [('pwild',)]), ('ret', ('vlit', V(('res', None), known=('err',)))))]
        else:
            arms = [(('pctor', 'Some', [('pid', '__q')]), ('path', ['__q'])),
                    (('pctor', 'None', []), ('ret', ('vlit', V(('opt', None), known=('none',)))))]
        return self.match_(env, v, arms, k)

    # ---- case distinctions -------------------------------------------------------------------
    def known_match(self, pat, v):
        """bindings if `pat` matches the value whose constructor is known, None if it does not, Unsupported if undecidable"""
        if pat[0] == 'pwild':
            return []
        if pat[0] == 'pid':
            return [(pat[1], v)]
        if pat[0] == 'punit':
            return [] if v.ty == 'unit' else None
        if pat[0] == 'pctor':
            if not v.known:
                self.fail('nested pattern on a value whose constructor is not known')
            tag = {'Ok': 'ok', 'Err': 'err', 'Some': 'some', 'None': 'none'}.get(pat[1])
            if tag is None:
                self.fail('pattern ' + pat[1])
            if tag != v.known[0]:
                return None
            if tag in ('ok', 'some'):
                if len(pat[2]) != 1:
                    self.fail('pattern arity')
                return self.known_match(pat[2][0], v.known[1])
            if tag == 'err':
                if len(pat[2]) != 1:
                    self.fail('pattern arity')
                if pat[2][0][0] == 'pid':
                    return [(pat[2][0][1], V('inert', '()'))]
                if pat[2][0][0] != 'pwild':
                    self.fail('pattern inside Err')
            return []
        self.fail('pattern on a known constructor: ' + repr(pat))

    def lean_pat(self, pat, ty, pparent, binds):
        """Lean pattern text for `pat` at type `ty`; appends (rust name, type, lean name, place parent) to `binds`"""
        p = pat[0]
        if p == 'pwild':
            return '_'
        if p == 'pid':
            name = self.fresh(pat[1])
            binds.append((pat[1], ty, name, pparent))
            return name
        if p == 'punit':
            if ty not in ('unit', None):
                self.fail('`()` pattern on ' + str(ty))
            return '()'
        if p == 'pbool':
            if ty != 'bool':
                self.fail('boolean pattern on ' + str(ty))
            return 'true' if pat[1] else 'false'
        if p == 'plit':
            if ty != 'nat':
                self.fail('integer pattern on ' + str(ty))
            return str(pat[1])
        if p == 'pctor':
            if not isinstance(ty, tuple):
                self.fail(f'pattern {pat[1]} on ' + str(ty))
            if ty[0] == 'opt' and pat[1] == 'Some' and len(pat[2]) == 1:
                return f'(some {self.lean_pat(pat[2][0], ty[1], pparent, binds)})'
            if ty[0] == 'opt' and pat[1] == 'None' and not pat[2]:
                return 'none'
            if ty[0] == 'res' and pat[1] == 'Ok' and len(pat[2]) == 1:
                return f'(Res.ok {self.lean_pat(pat[2][0], ty[1], pparent, binds)})'
            if ty[0] == 'res' and pat[1] == 'Err' and len(pat[2]) == 1:
                if pat[2][0][0] == 'pid':
                    binds.append((pat[2][0][1], 'inert', None, None))
                elif pat[2][0][0] != 'pwild':
                    self.fail('pattern inside Err')
                return 'Res.err'
        self.fail('pattern ' + repr(pat)[:80])

    def match_(self, env, v, arms, k):
        """arms: [(pattern, body AST)]"""
        if v.known or (v.ty == 'unit'):
            for pat, body in arms:
                b = self.known_match(pat, v)
                if b is not None:
                    env2 = env.copy()
                    saved = dict(env2.locals)
                    for name, val in b:
                        env2.locals[name] = val.with_(bid=self.new_bid())
                    return self.expr(env2, body, lambda e3, r: k(self.leave(e3, saved), r))
            self.fail('no arm matches the constructor known at this point')
        if not (isinstance(v.ty, tuple) and v.ty[0] in ('opt', 'res')) and v.ty not in ('bool', 'nat'):
            self.fail('match on a value of type ' + str(v.ty))
        if v.ty == 'bool' and v.text in ('true', 'false'):
            for pat, body in arms:
                if pat[0] in ('pwild',) or (pat[0] == 'pbool' and pat[1] == (v.text == 'true')):
                    return self.expr(env, body, k)
        pp = None
        if isinstance(v.ty, tuple):
            if v.pparent is not None:
                pp = v.pparent
            elif v.ref is not None and v.ty[0] == 'opt':
                pp = ('some', v.ref)
        scrut = self.cur(env, v)
        pats, builders = [], []
        for pat, body in arms:
            binds = []
            pats.append(self.lean_pat(pat, v.ty, pp, binds))

            def build(en, kk, binds=binds, body=body):
                saved = dict(en.locals)
                for rname, ty, lname, parent in binds:
                    if lname is None:
                        en.locals[rname] = V('inert', '()', bid=self.new_bid())
                    else:
                        ref = self.mkref(en, ty, parent, lname) if parent is not None else None
                        en.locals[rname] = V(ty, lname, ref=ref, bid=self.new_bid())
                return self.expr(en, body, lambda e3, r: kk(self.leave(e3, saved), r))
            builders.append(build)
        return self.branch(env, builders, lambda ns: self.node('match', scrut, list(zip(pats, ns))), k)

    def leave(self, env, saved):
        """leave a scope: names bound inside disappear, outer bindings that were only assigned to keep their new value"""
        new = {}
        for n, v in saved.items():
            cur = env.locals.get(n)
            new[n] = cur if cur is not None and cur.bid == v.bid else v
        env.locals = new
        return env

    # ---- blocks and statements ---------------------------------------------------------------
    def block(self, env, b, k):
        saved = dict(env.locals)
        return self.stmts(env, b[1], 0, b[2], lambda e2, v: k(self.leave(e2, saved), v))

    def bind_local(self, env, name, v, body_k):
        """`let name = v`: keep the `let` where the value is a computed Lean term"""
        if v.known or v.ref is not None or v.pparent is not None or v.text is None or atomic(v.text) or v.ty in ('inert', 'strlit', 'unit'):
            env.locals[name] = v.with_(bid=self.new_bid())
            return body_k(env)
        ln = self.fresh(name)
        env.locals[name] = V(v.ty, ln, bid=self.new_bid())
        return self.node('let', ln, v.text, body_k(env))

    def stmts(self, env, ss, i, tail, k):
        if i == len(ss):
            if tail is None:
                return k(env, UNIT)
            return self.expr(env, tail, k)
        st = ss[i]
        nxt = lambda e2: self.stmts(e2, ss, i + 1, tail, k)      # noqa: E731
        if st[0] == 'expr':
            return self.expr(env, st[1], lambda e2, v: nxt(e2))
        if st[0] == 'let':
            _, pat, ty, rhs, els = st
            if els is None:
                def bound(e2, v):
                    if pat[0] == 'pwild':
                        return nxt(e2)
                    if pat[0] == 'pid':
                        if ty is not None and not unify(self.T.parse(ty), v.ty):
                            self.fail(f'let {pat[1]}: annotated type does not fit')
                        return self.bind_local(e2, pat[1], v, nxt)
                    if pat[0] == 'pctor':       # irrefutable only when the constructor is known
                        b = self.known_match(pat, v) if v.known else None
                        if b is None:
                            self.fail('refutable pattern in let')
                        for name, val in b:
                            e2.locals[name] = val.with_(bid=self.new_bid())
                        return nxt(e2)
                    self.fail('let pattern')
                return self.expr(env, rhs, bound)
            # let … else: the else block must diverge; the bindings are visible in the rest of the block
            rest = ('block', ss[i + 1:], tail)

            def scrut(e2, v):
                never = ('macro', '__never', [])
                return self.match_(e2, v, [(pat, ('__rest', rest)), (('pwild',), ('block', els[1] + ([('expr', els[2])] if els[2] else []), never))], k)
            return self.expr(env, rhs, scrut)
        if st[0] == 'assign':
            return self.assign(env, st[1], st[2], nxt)
        self.fail('statement ' + st[0])

    def assign(self, env, place, rhs, nxt):
        while place[0] == 'paren':
            place = place[1]

        def store(e2, v):
            text = self.mat(v)
            if place[0] == 'field' and place[1] == ('path', ['self']):
                if place[2] not in self.T.fields:
                    self.fail('unknown field ' + place[2])
                canon, ty = self.T.fields[place[2]]
                if not unify(ty, v.ty):
                    self.fail(f'assignment to .{place[2]}: type mismatch')
                return self.lets(self.write(e2, Ref(ty, ('field', canon)), text), nxt(e2))
            tgt = place[1] if place[0] == 'deref' else place
            if tgt[0] == 'path' and len(tgt[1]) == 1 and tgt[1][0] in e2.locals:
                old = e2.locals[tgt[1][0]]
                if not unify(old.ty, v.ty):
                    self.fail(f'assignment to {tgt[1][0]}: type mismatch')
                if place[0] == 'deref':
                    if old.ref is None:
                        self.fail('assignment through something that is not a mutable reference')
                    return self.lets(self.write(e2, old.ref, text), nxt(e2))
                if old.ref is not None and old.ref.parent[0] == 'local':
                    return self.lets(self.write(e2, old.ref, text), nxt(e2))
                if old.ref is not None or old.known or old.pparent is not None:
                    self.fail('assignment to a local that holds a reference')
                ln = self.fresh(tgt[1][0])
                e2.locals[tgt[1][0]] = V(v.ty, ln, bid=old.bid)
                return self.node('let', ln, text, nxt(e2))
            self.fail('assignment target ' + repr(place)[:80])
        return self.expr(env, rhs, store)

    # ---- calls -------------------------------------------------------------------------------
    def macro(self, env, e, k):
        name, a = e[1], e[2]
        if name == '__never':
            self.fail('let … else: the else block does not diverge')
        if name == 'format':
            for x in a:
                self.inert(env, x)
            return k(env, V('strlit', '()'))
        if name in ('assert', 'debug_assert') and len(a) >= 1:
            for x in a[1:]:
                self.inert(env, x)

            def c(e2, v):
                if v.ty != 'bool':
                    self.fail(name + '! of a non-boolean')
                return self.node('if', self.mat(v), k(e2, UNIT), ('panic',))
            return self.expr(env, a[0], c)
        if name in ('assert_eq', 'debug_assert_eq', 'assert_ne', 'debug_assert_ne') and len(a) >= 2:
            for x in a[2:]:
                self.inert(env, x)
            op = '==' if name.endswith('eq') else '!='
            return self.macro(env, ('macro', 'assert', [('bin', op, a[0], a[1])]), k)
        if name in ('panic', 'unreachable', 'unimplemented', 'todo'):
            for x in a:
                self.inert(env, x)
            return ('panic',)
        self.fail(f'macro {name}!')

    def struct(self, env, e, k):
        if e[1] not in (['Self'], ['Context']):
            self.fail('struct literal of ' + '::'.join(e[1]))
        names = [f for f, _ in e[2]]
        if sorted(names) != sorted(self.T.fields):
            self.fail('struct literal does not initialise exactly the fields of Context')

        def done(e2, vs):
            parts = []
            for (f, _), v in zip(e[2], vs):
                canon, ty = self.T.fields[f]
                if not unify(ty, v.ty) or v.ty in ('strlit', 'inert'):
                    self.fail(f'field {f}: type mismatch')
                parts.append((canon, self.mat(v)))
            parts.sort(key=lambda p: self.T.order.index(p[0]))
            return k(e2, V('ctx', '({ ' + ', '.join(f'{c} := {t}' for c, t in parts) + ' } : Context)'))
        return self.args(env, [x for _, x in e[2]], done)

    def call(self, env, e, k):
        f, a = e[1], e[2]
        if f[0] != 'path':
            self.fail('call of a computed function')
        p = f[1]
        if p[-1] in ('Ok', 'Some') and p[:-1] in ([], ['Result'], ['Option']) and len(a) == 1:
            tag = 'ok' if p[-1] == 'Ok' else 'some'
            return self.expr(env, a[0], lambda e2, v: k(e2, V(('res' if tag == 'ok' else 'opt', v.ty), known=(tag, v))))
        if p[-1] == 'Err' and p[:-1] in ([], ['Result']) and len(a) == 1:
            self.inert(env, a[0])
            return k(env, V(('res', None), known=('err',)))
        if len(p) == 2 and p[0] == 'HashMap' and p[1] in ('new', 'default') and not a:
            return k(env, V(('map', None), '[]'))
        if len(p) == 2 and p[0] == 'HashMap' and p[1] == 'with_capacity' and len(a) == 1:
            return self.expr(env, a[0], lambda e2, v: k(e2, V(('map', None), '[]')) if v.ty == 'nat' else self.fail('capacity'))
        if p[-1] == 'new_with_matrix_storage' and p[:-1] in ([], ['ultragraph']) and len(a) == 1:
            return self.expr(env, a[0], lambda e2, v: k(e2, V('graph', f'(ug_new {self.mat(v)})')) if v.ty == 'nat'
                             else self.fail('capacity'))
        if p in (['ContextIndexError'], ['ContextIndexError', 'new']):
            self.inert(env, e)
            return k(env, V('inert', '()'))
        if p == ['String', 'from'] and len(a) == 1:
            return self.expr(env, a[0], lambda e2, v: k(e2, v) if v.ty in ('string', 'strlit') else self.fail('String::from'))
        if len(p) == 2 and p[0] in ('Self', 'Context') and p[1] in self.g.src.fns and self.g.src.fns[p[1]].recv is None:
            return self.args(env, a, lambda e2, vs: self.call_fn(e2, self.g.src.fns[p[1]], vs, k))
        self.fail('call of ' + '::'.join(p))

    def call_fn(self, env, fn, vs, k):
        """a function of Context: public ones are called (one generated definition each), private ones are inlined"""
        if len(vs) != len(fn.params):
            self.fail(f'{fn.name}: arity')
        ptys = [self.T.parse(t) for _, t in fn.params]
        for v, t in zip(vs, ptys):
            if not unify(t, v.ty) or v.ty in ('strlit', 'inert'):
                self.fail(f'{fn.name}: argument type mismatch')
        rty = self.T.parse(fn.ret) if fn.ret else 'unit'
        if fn.recv == '&mut self' and not env.mutable:
            self.fail(f'{fn.name}: `&mut self` method called through `&self`')
        if fn.public:
            if fn.name == self.fn.name:
                self.fail('recursion')
            if fn.name not in self.deps:
                self.deps.append(fn.name)
            argt = ' '.join(([env.self_name] if fn.recv else []) + [self.mat(v) for v in vs])
            r = self.fresh('r')
            if fn.recv == '&mut self':
                sn = self.fresh('self')
                env.self_name = sn
                return self.node('bind', r, f'Gen.Ctx.{fn.name} {argt}', self.node('let', sn, f'{r}.1', k(env, V(rty, f'{r}.2'))))
            return self.node('bind', r, f'Gen.Ctx.{fn.name} {argt}', k(env, V(rty, r)))
        if env.depth >= MAX_INLINE:
            self.fail(f'{fn.name}: helpers nested too deeply (recursion?)')
        caller = env
        inner = env.copy()
        inner.locals = {}
        inner.depth = env.depth + 1
        inner.ret_ty = rty
        inner.mutable = fn.recv == '&mut self'
        if fn.recv is None:
            inner.self_name = None
        for (pn, _), v in zip(fn.params, vs):
            inner.locals[pn] = v.with_(bid=self.new_bid())

        def back(e2, v):
            if not unify(rty, v.ty):
                self.fail(f'{fn.name}: returned value does not fit the declared type')
            out = e2.copy()
            out.locals, out.ret_k, out.depth, out.ret_ty, out.mutable = dict(caller.locals), caller.ret_k, caller.depth, caller.ret_ty, caller.mutable
            if fn.recv is None:
                out.self_name = caller.self_name
            if v.ty != rty and v.known is None and not isinstance(rty, tuple):
                v = v.with_(ty=rty)
            return k(out, v)
        inner.ret_k = back
        body = parse_fn_body(fn.body_text)
        return self.block(inner, body, lambda e2, v: e2.ret_k(e2, v))

    def closure_arm(self, c, n, what):
        """a closure argument of a combinator -> (parameter pattern, body)"""
        if c[0] != 'closure' or len(c[1]) != n:
            self.fail(f'{what}: expected a closure with {n} parameter(s)')
        return (c[1][0] if n else None), c[2]

    def mcall(self, env, e, k):
        obj, name, a = e[1], e[2], e[3]
        if obj == ('path', ['self']) and name in self.g.src.fns:
            fn = self.g.src.fns[name]
            if fn.recv is None:
                self.fail(f'{name}: not a method')
            return self.args(env, a, lambda e2, vs: self.call_fn(e2, fn, vs, k))
        return self.recv(env, obj, lambda e2, r: self.method(e2, r, name, a, k))

    def method(self, env, r, name, a, k):
        t = r.ty
        if t == 'graph':
            return self.graph_call(env, r, name, a, k)
        if isinstance(t, tuple) and t[0] == 'map':
            return self.map_call(env, r, name, a, k)
        if isinstance(t, tuple) and t[0] in ('opt', 'res'):
            return self.sum_call(env, r, name, a, k)
        if t in ('nat', 'bool', 'contextoid', 'relkind') and name in ('clone', 'to_owned') and not a:
            return k(env, r.with_(ref=None))
        if t == 'string' and name in ('to_string', 'to_owned', 'clone', 'into', 'as_str') and not a:
            return k(env, r.with_(ref=None))
        if t in ('strlit', 'inert') and name in ('to_string', 'to_owned', 'clone', 'into', 'as_str') and not a:
            return k(env, r)
        if t == 'nat' and name == 'saturating_sub' and len(a) == 1:
            return self.expr(env, a[0], lambda e2, v: k(e2, V('nat', f'({self.cur(e2, r)} - {self.mat(v)})')) if v.ty == 'nat'
                             else self.fail('saturating_sub'))
        self.fail(f'method .{name}() on a value of type {t}')

    def graph_call(self, env, r, name, a, k):
        if name not in GRAPH_API:
            self.fail(f'ultragraph method `{name}` is not part of the modelled interface')
        ptys, mutates, execs, rty = GRAPH_API[name]
        if len(a) != len(ptys):
            self.fail(f'{name}: arity')

        def go(e2, vs):
            for v, t in zip(vs, ptys):
                if v.ty != t:
                    self.fail(f'{name}: argument of type {v.ty} where {t} is expected')
            g = self.cur(e2, r)
            call = ' '.join([f'ug_{name}', g] + [self.mat(v) for v in vs])
            if not mutates:
                if not execs:
                    return k(e2, V(rty, f'({call})'))
                x = self.fresh('r')
                return self.node('bind', x, call, k(e2, V(rty, x)))
            if r.ref is None:
                self.fail(f'{name}: mutating call on something that is not a place')
            x = self.fresh('r')
            lets = self.write(e2, r.ref, f'{x}.1')
            rest = self.lets(lets, k(e2, V(rty, f'{x}.2')))
            return self.node('bind', x, call, rest) if execs else self.node('let', x, call, rest)
        return self.args(env, a, go)

    def map_call(self, env, r, name, a, k):
        elt = r.ty[1]

        def go(e2, vs):
            m = self.cur(e2, r)
            if name in ('get', 'get_mut', 'contains_key', 'remove') and len(vs) == 1 and vs[0].ty == 'nat':
                key = self.mat(vs[0])
                if name == 'contains_key':
                    return k(e2, V('bool', f'(mGet {m} {key}).isSome'))
                if name == 'get':
                    return k(e2, V(('opt', elt), f'(mGet {m} {key})'))
                if r.ref is None:
                    self.fail(f'{name} on a map that is not a place')
                if name == 'get_mut':
                    return k(e2, V(('opt', elt), f'(mGet {m} {key})', pparent=('entry', r.ref, key)))
                lets = self.write(e2, r.ref, f'(mRemove {m} {key})')
                return self.lets(lets, k(e2, V(('opt', elt), f'(mGet {m} {key})')))
            if name == 'insert' and len(vs) == 2 and vs[0].ty == 'nat':
                if r.ref is None:
                    self.fail('insert into a map that is not a place')
                if not unify(elt, vs[1].ty):
                    self.fail('insert: value type mismatch')
                key = self.mat(vs[0])
                lets = self.write(e2, r.ref, f'(mInsert {m} {key} {self.mat(vs[1])})')
                return self.lets(lets, k(e2, V(('opt', elt), f'(mGet {m} {key})')))
            if name == 'len' and not vs:
                return k(e2, V('nat', f'(List.length {m})'))
            if name == 'is_empty' and not vs:
                return k(e2, V('bool', f'(List.isEmpty {m})'))
            self.fail(f'HashMap method `{name}` with {len(vs)} argument(s)')
        return self.args(env, a, go)

    def sum_call(self, env, r, name, a, k):
        """methods of Option / Result; the combinators are their defining case distinctions"""
        kind, elt = r.ty
        some, none = ('Some', 'None') if kind == 'opt' else ('Ok', 'Err')
        nonepat = ('pctor', 'None', []) if kind == 'opt' else ('pctor', 'Err', [('pwild',)])
        nonev = ('vlit', V((kind, None), known=('none',) if kind == 'opt' else ('err',)))
        x = ('pid', '__x')
        xs = ('path', ['__x'])
        lit = lambda b: ('path', ['true' if b else 'false'])      # noqa: E731
        if name in ('is_some', 'is_ok', 'is_none', 'is_err') and not a and (kind == 'opt') == (name in ('is_some', 'is_none')):
            pos = name in ('is_some', 'is_ok')
            if r.known:
                return k(env, V('bool', 'true' if (r.known[0] in ('some', 'ok')) == pos else 'false'))
            t = self.cur(env, r)
            if kind == 'opt':
                return k(env, V('bool', f'{t}.isSome' if pos else f'{t}.isNone'))
            return k(env, V('bool', f'(Res.isOk {t})' if pos else f'(!Res.isOk {t})'))
        if name in ('as_ref', 'as_deref', 'copied', 'cloned') and not a:
            return k(env, r.with_(ref=None, pparent=None) if name in ('copied', 'cloned') else r)
        if name in ('as_mut', 'as_deref_mut') and not a:
            if kind == 'opt' and r.ref is not None:
                return k(env, V(r.ty, self.cur(env, r), pparent=('some', r.ref)))
            return k(env, r)
        if name in ('unwrap', 'expect') and len(a) == (name == 'expect'):
            for y in a:
                self.inert(env, y)
            return self.match_(env, r, [(('pctor', some, [x]), xs), (nonepat, ('macro', 'panic', []))], k)
        if name == 'map' and len(a) == 1:
            p, body = self.closure_arm(a[0], 1, name)
            return self.match_(env, r, [(('pctor', some, [p]), ('call', ('path', [some]), [body])), (nonepat, nonev)], k)
        if name == 'and_then' and len(a) == 1:
            p, body = self.closure_arm(a[0], 1, name)
            return self.match_(env, r, [(('pctor', some, [p]), body), (nonepat, nonev)], k)
        if name == 'map_err' and kind == 'res' and len(a) == 1:
            p, body = self.closure_arm(a[0], 1, name)
            self.inert(env, body, bound=(p[1],) if p[0] == 'pid' else ())
            return k(env, r)
        if name in ('ok_or', 'ok_or_else') and kind == 'opt' and len(a) == 1:
            self.inert(env, a[0] if name == 'ok_or' else self.closure_arm(a[0], 0, name)[1])
            return self.match_(env, r, [(('pctor', 'Some', [x]), ('call', ('path', ['Ok']), [xs])),
                                        (nonepat, ('vlit', V(('res', None), known=('err',))))], k)
        if name == 'ok' and kind == 'res' and not a:
            return self.match_(env, r, [(('pctor', 'Ok', [x]), ('call', ('path', ['Some']), [xs])),
                                        (nonepat, ('vlit', V(('opt', None), known=('none',))))], k)
        if name in ('unwrap_or', 'unwrap_or_else') and len(a) == 1:
            d = a[0] if name == 'unwrap_or' else self.closure_arm(a[0], 0 if kind == 'opt' else 1, name)[1]
            if name == 'unwrap_or' and self.try_pure(env, d) is None:
                self.fail('unwrap_or with an argument that has effects')
            return self.match_(env, r, [(('pctor', some, [x]), xs), (nonepat, d)], k)
        if name == 'map_or' and len(a) == 2:
            if self.try_pure(env, a[0]) is None:
                self.fail('map_or with a default that has effects')
            p, body = self.closure_arm(a[1], 1, name)
            return self.match_(env, r, [(('pctor', some, [p]), body), (nonepat, a[0])], k)
        if name in ('is_some_and', 'is_ok_and') and len(a) == 1 and (kind == 'opt') == (name == 'is_some_and'):
            p, body = self.closure_arm(a[0], 1, name)
            return self.match_(env, r, [(('pctor', some, [p]), body), (nonepat, lit(False))], k)
        if name == 'get_or_insert_with' and kind == 'opt' and len(a) == 1 and isinstance(elt, tuple) and elt[0] == 'map':
            f = a[0]
            ok = f == ('path', ['HashMap', 'new']) or f == ('path', ['HashMap', 'default']) or \
                (f[0] == 'closure' and not f[1] and f[2] in (('call', ('path', ['HashMap', 'new']), []), ('call', ('path', ['HashMap', 'default']), [])))
            if not ok or r.ref is None or r.known:
                self.fail('get_or_insert_with: only `HashMap::new` on a field')
            o = self.cur(env, r)
            m = self.fresh('m')
            lets = [(m, f'(Option.getD {o} [])')] + self.write(env, r.ref, f'(some {m})')
            child = self.mkref(env, elt, ('some', r.ref), m)
            return self.lets(lets, k(env, V(elt, m, ref=child)))
        self.fail(f'method .{name}() on {"Option" if kind == "opt" else "Result"}')

    # ---- a whole function --------------------------------------------------------------------
    def run(self):
        fn = self.fn
        rty = self.T.parse(fn.ret) if fn.ret else 'unit'
        if fn.ret and re.search(r'&\s*mut\b', fn.ret):
            self.fail('a public function that returns a mutable reference')
        params, locals_ = [], {}
        if fn.recv:
            params.append('(self : Context)')
        for pn, pt in fn.params:
            t = self.T.parse(pt)
            if re.search(r'&\s*mut\b', pt):
                self.fail(f'parameter {pn}: mutable reference')
            ln = self.fresh(pn)
            params.append(f'({ln} : {lean_ty(t)})')
            locals_[pn] = V(t, ln, bid=self.new_bid())

        def ret(env, v):
            if not unify(rty, v.ty) or v.ty in ('strlit', 'inert'):
                self.fail(f'returned value of type {v.ty} where {rty} is declared')
            txt = self.mat(v)
            if fn.recv == '&mut self':
                return ('ret', f'Exec.val ({env.self_name}, {txt})')
            if fn.recv == '&self' and env.self_name != 'self':
                self.fail('state change through `&self`')
            return ('ret', f'Exec.val {txt}')
        env = Env('self' if fn.recv else None, locals_, ret, mutable=fn.recv == '&mut self', ret_ty=rty)
        body = parse_fn_body(fn.body_text)
        tree = self.block(env, body, lambda e2, v: e2.ret_k(e2, v))
        if self.size(tree) > MAX_NODES:
            self.fail('translation too large')
        rt = lean_ty(rty)
        sig = f'Exec (Context × {rt[1:-1] if rt.startswith("(") else rt})' if fn.recv == '&mut self' else f'Exec {rt}'
        kind = {'&mut self': '`&mut self`', '&self': '`&self`', None: 'associated function'}[fn.recv]
        head = [f'/-- `{fn.trait + "::" if fn.trait else "Context::"}{fn.name}` ({fn.file}, {kind}) -/',
                f'def {lean_id(fn.name)} ' + ' '.join(params) + f' : {sig} :=']
        return head + render(tree, 1, False)


def lean_id(name):
    return f'«{name}»' if name in LEAN_KEYWORDS else name


def render(t, ind, pure):
    pad = '  ' * ind
    k = t[0]
    if k == 'let':
        return [f'{pad}let {t[1]} := {t[2]}'] + render(t[3], ind, pure)
    if k == 'bind':
        return [f'{pad}Exec.bind ({t[2]}) fun {t[1]} =>'] + render(t[3], ind, pure)
    if k == 'joinlet':
        return [f'{pad}let {t[1]} :='] + render(t[2], ind + 2, True) + render(t[3], ind, pure)
    if k == 'joinbind':
        return [f'{pad}Exec.bind ('] + render(t[2], ind + 2, False) + [f'{pad}  ) fun {t[1]} =>'] + render(t[3], ind, pure)
    if k == 'if':
        return [f'{pad}if {t[1]} then'] + wrap(t[2], ind, pure) + [f'{pad}else'] + wrap(t[3], ind, pure)
    if k == 'match':
        out = [f'{pad}match {t[1]} with']
        for p, b in t[2]:
            out += [f'{pad}| {p} =>'] + wrap(b, ind, pure)
        return out
    if k == 'ret':
        return [pad + t[1]]
    if k == 'end':
        return [pad + (t[1] if pure else f'Exec.val {t[1]}')]
    if k == 'panic':
        if pure:
            raise Unsupported('internal: panic in a pure join')
        return [pad + 'Exec.panic']
    raise Unsupported('internal: unresolved continuation in the generated tree')


def wrap(t, ind, pure):
    if t[0] in LEAVES:
        return render(t, ind + 1, pure)
    pad = '  ' * (ind + 1)
    return [pad + '('] + render(t, ind + 2, pure) + [pad + ')']


PRELUDE = '''import DcVerif.Model.UGraph
/-! `deep_causality::Context` as read from the source by `tools/rs2lean_context.py` (C09): one definition per public
function, over the vocabulary below (a panic-aware result, `Result` without its message, `HashMap` as a plain finite map,
`ultragraph` through the model `Model.UGraph`). See the docstring of the translator for the grammar. -/
namespace Gen.Ctx
open Model (UGraph)
open Model.UGraph (mGet mInsert mRemove)
open Spec.DiGraph (Out)

/-- a Rust computation: a value, or a panic (`unwrap`/`expect` on the wrong constructor, a failed assertion, checked `-`) -/
inductive Exec (α : Type) where
  | val (a : α) | panic
deriving Repr

def Exec.bind {α β : Type} (x : Exec α) (f : α → Exec β) : Exec β :=
  match x with
  | .val a => f a
  | .panic => .panic

/-- checked subtraction of unsigned integers -/
def Exec.sub (a b : Nat) : Exec Nat := if a < b then .panic else .val (a - b)

/-- `Result<α, ContextIndexError>`; the message inside the error is not modelled -/
inductive Res (α : Type) where
  | ok (a : α) | err
deriving Repr, DecidableEq

def Res.isOk {α : Type} : Res α → Bool
  | .ok _ => true
  | .err => false

/-- a write through the `&mut V` that `HashMap::get_mut(k)` returned: entry `k` is replaced in place -/
def mUpdate {β : Type} (m : List (Nat × β)) (k : Nat) (v : β) : List (Nat × β) :=
  m.map (fun e => if e.1 == k then (e.1, v) else e)

/-! ### `ultragraph` (external crate): the methods `Context` uses, as operations of `Model.UGraph` (today's repaired version);
a contextoid is represented by its id, a relation kind by its discriminant -/
def ug_new (_capacity : Nat) : UGraph := UGraph.init
def ug_add_node (g : UGraph) (v : Nat) : UGraph × Nat := g.addNode v
def ug_contains_node (g : UGraph) (i : Nat) : Bool := g.containsNode i
def ug_get_node (g : UGraph) (i : Nat) : Option Nat := g.getNode i
def ug_contains_edge (g : UGraph) (a b : Nat) : Bool := g.containsEdge a b
/-- a `Result<(), UltraGraphError>` of the model: `Out.ok` is `Ok(())` with the new graph, `Out.panic` a panic, anything else an
`Err` that leaves the graph as it was (`C08.c08_failed_ops_change_nothing`) -/
def ug_result (g : UGraph) (r : UGraph × Out) : Exec (UGraph × Res Unit) :=
  match r.2 with
  | .ok => .val (r.1, .ok ())
  | .panic => .panic
  | _ => .val (g, .err)
def ug_remove_node (g : UGraph) (i : Nat) : Exec (UGraph × Res Unit) := ug_result g (g.removeNode .repaired i)
def ug_add_edge_with_weight (g : UGraph) (a b w : Nat) : Exec (UGraph × Res Unit) := ug_result g (g.addEdgeW a b w)
def ug_add_edge (g : UGraph) (a b : Nat) : Exec (UGraph × Res Unit) := ug_result g (g.addEdgeW a b 0)
def ug_remove_edge (g : UGraph) (a b : Nat) : Exec (UGraph × Res Unit) := ug_result g (g.removeEdge .repaired a b)
/-- `size()` / `number_nodes()`: petgraph's `node_count` (`upper_bound - removed_ids.len()`, checked) -/
def ug_size (g : UGraph) : Exec Nat :=
  match g.ids.len with
  | some n => .val n
  | none => .panic
def ug_number_nodes (g : UGraph) : Exec Nat := ug_size g
def ug_is_empty (g : UGraph) : Exec Bool :=
  match g.ids.len with
  | some n => .val (n == 0)
  | none => .panic
def ug_number_edges (g : UGraph) : Nat := g.nbEdges
'''


class Gen:
    def __init__(self, repo):
        self.src = Source(repo)
        self.types = Types(self.src)

    def gen(self):
        done, order, busy = {}, [], set()

        def need(name):
            if name in done:
                return
            if name in busy:
                raise Unsupported(f'{name}: recursion between public functions')
            busy.add(name)
            tr = FnTr(self, self.src.fns[name])
            lines = tr.run()
            for d in tr.deps:
                need(d)
            busy.discard(name)
            done[name] = lines
            order.append(name)
        for name, fn in self.src.fns.items():
            if fn.public:
                need(name)
        T = self.types
        out = [HEADER + PRELUDE, '/-- `struct Context` (fields identified by type and order; Rust names in the comments) -/',
               'structure Context where']
        for c in T.order:
            ty = next(t for _, (cc, t) in T.fields.items() if cc == c)
            lt = lean_ty(ty)
            out.append(f'  {c} : {lt[1:-1] if lt.startswith("(") else lt}    -- `{T.rust_of[c]}`: {ROLE_DOC[c]}')
        out += ['deriving Repr', '']
        for name in order:
            out += done[name] + ['']
        out += ['end Gen.Ctx', '']
        return '\n'.join(out)


def gen_context(repo):
    return Gen(repo).gen()


def install(register):
    def guarded(repo):
        try:
            return gen_context(repo)
        except (Unsupported, FileNotFoundError):
            raise
        except RecursionError:
            raise Unsupported('context: nesting too deep')
        except Exception as ex:      # noqa: BLE001 — an unforeseen input is a rejection of the source, never a crash
            raise Unsupported(f'context: internal {type(ex).__name__}: {ex}')
    register('context', 'Ctx.lean')(guarded)
