"""Tiny fail-closed Rust-expression front end shared by the rs2lean translators.

tokenise -> Pratt parser with Rust's operator precedences -> small AST (tuples)
-> Lean text (fully parenthesised).  Anything not recognised raises Unsupported;
the caller turns that into a broken proof obligation, never into a skipped one.
"""
import re


class Unsupported(Exception):
    pass


TOKEN = re.compile(r"""
    (?P<ws>\s+)
  | (?P<num>\d[\d_]*(?:(?:u|i)(?:8|16|32|64|128|size))?)
  | (?P<id>[A-Za-z_][A-Za-z_0-9]*)
  | (?P<op><<=|>>=|<<|>>|==|!=|<=|>=|&&|\|\||::|->|=>|\+=|-=|\*=|[-+*/%&|^!<>=.,;:(){}\[\]#?])
""", re.X)


def strip_comments(src):
    src = re.sub(r'/\*.*?\*/', '', src, flags=re.S)
    return re.sub(r'//[^\n]*', '', src)


def tokenize(s):
    out, i = [], 0
    while i < len(s):
        m = TOKEN.match(s, i)
        if not m:
            raise Unsupported('cannot tokenise at: ' + s[i:i + 30])
        i = m.end()
        if m.lastgroup == 'ws':
            continue
        out.append((m.lastgroup, m.group(m.lastgroup)))
    return out


# Rust binary operator precedences (higher binds tighter)
BINPREC = {'*': 10, '/': 10, '%': 10, '+': 9, '-': 9, '<<': 8, '>>': 8, '&': 7, '^': 6, '|': 5,
           '==': 4, '!=': 4, '<': 4, '>': 4, '<=': 4, '>=': 4, '&&': 3, '||': 2}
AS_PREC = 11


class Parser:
    def __init__(self, toks):
        self.t = toks
        self.i = 0

    def peek(self, k=0):
        return self.t[self.i + k] if self.i + k < len(self.t) else ('eof', '')

    def next(self):
        tok = self.peek()
        self.i += 1
        return tok

    def expect(self, val):
        tok = self.next()
        if tok[1] != val:
            raise Unsupported(f'expected {val!r}, got {tok[1]!r}')

    def at_end(self):
        return self.i >= len(self.t)

    def expr(self, minprec=0):
        lhs = self.unary()
        while True:
            kind, v = self.peek()
            if v == 'as' and AS_PREC >= minprec:
                self.next()
                ty = self.type_()
                lhs = ('cast', lhs, ty)
                continue
            if kind == 'op' and v in BINPREC and BINPREC[v] >= minprec:
                self.next()
                rhs = self.expr(BINPREC[v] + 1)
                lhs = ('bin', v, lhs, rhs)
                continue
            return lhs

    def type_(self):
        kind, v = self.next()
        if kind != 'id':
            raise Unsupported('type expected, got ' + v)
        return v

    def unary(self):
        kind, v = self.peek()
        if v == '!':
            self.next()
            return ('not', self.unary())
        if v == '-':
            self.next()
            return ('neg', self.unary())
        if v == '&':
            self.next()
            if self.peek()[1] == 'mut':
                self.next()
            return ('ref', self.unary())
        if v == '*':
            self.next()
            return ('deref', self.unary())
        return self.postfix(self.atom())

    def atom(self):
        kind, v = self.next()
        if kind == 'num':
            return ('num', int(re.sub(r'(u|i)(8|16|32|64|128|size)$', '', v).replace('_', '')))
        if v == '(':
            if self.peek()[1] == ')':
                self.next()
                return ('unit',)
            e = self.expr()
            if self.peek()[1] == ',':
                items = [e]
                while self.peek()[1] == ',':
                    self.next()
                    if self.peek()[1] == ')':
                        break
                    items.append(self.expr())
                self.expect(')')
                return ('tuple', items)
            self.expect(')')
            return ('paren', e)
        if v == 'unsafe':
            self.expect('{')
            e = self.expr()
            self.expect('}')
            return ('unsafe', e)
        if kind == 'id':
            path = [v]
            while self.peek()[1] == '::':
                self.next()
                if self.peek()[1] == '<':      # turbofish  ::<T>
                    depth = 0
                    while True:
                        tk = self.next()[1]
                        depth += (tk == '<') - (tk == '>')
                        if tk == '>>':
                            depth -= 2
                        if depth <= 0:
                            break
                    path.append('<>')
                    continue
                k2, v2 = self.next()
                if k2 != 'id':
                    raise Unsupported('path segment expected, got ' + v2)
                path.append(v2)
            return ('path', path)
        raise Unsupported('unexpected token ' + repr(v))

    def args(self):
        self.expect('(')
        out = []
        while self.peek()[1] != ')':
            out.append(self.expr())
            if self.peek()[1] == ',':
                self.next()
        self.expect(')')
        return out

    def postfix(self, e):
        while True:
            v = self.peek()[1]
            if v == '(':
                e = ('call', e, self.args())
            elif v == '.':
                self.next()
                kind, name = self.next()
                if kind == 'num':
                    e = ('field', e, str(name))
                elif kind != 'id':
                    raise Unsupported('field expected after .')
                elif self.peek()[1] == '(':
                    e = ('mcall', e, name, self.args())
                else:
                    e = ('field', e, name)
            elif v == '[':
                self.next()
                idx = self.expr()
                self.expect(']')
                e = ('index', e, idx)
            elif v == '?':
                self.next()
                e = ('try', e)
            else:
                return e


def parse_expr(text):
    p = Parser(tokenize(text))
    e = p.expr()
    if not p.at_end():
        raise Unsupported('trailing tokens in expression: ' + text)
    return e


def split_statements(body):
    """split a block body on ';' at nesting depth 0; `if … { … }` / `match`/`loop` blocks that end
    with '}' at depth 0 are one statement. Returns statement texts (whitespace-normalised)."""
    stmts, cur, depth = [], '', 0
    for ch in body:
        if ch in '{([':
            depth += 1
        if ch in '})]':
            depth -= 1
        cur += ch
        if depth == 0 and (ch == ';' or (ch == '}' and re.match(r'\s*(if|loop|while|for|match)\b', cur))):
            if cur.strip():
                stmts.append(' '.join(cur.split()))
            cur = ''
    if cur.strip():
        stmts.append(' '.join(cur.split()))
    return stmts


def find_fn(src, name, nth=0):
    """return (signature text, body text) of the nth `fn name` in src (comments already stripped)"""
    ms = list(re.finditer(r'\bfn\s+' + re.escape(name) + r'\b', src))
    if len(ms) <= nth:
        raise Unsupported(f'fn {name} (occurrence {nth}) not found')
    m = ms[nth]
    i = src.index('{', m.end())
    sig = src[m.start():i]
    depth, j = 1, i + 1
    while depth:
        depth += (src[j] == '{') - (src[j] == '}')
        j += 1
    return ' '.join(sig.split()), src[i + 1:j - 1]


def all_fns(src, name):
    out = []
    k = 0
    while True:
        try:
            out.append(find_fn(src, name, k))
        except Unsupported:
            return out
        k += 1
