"""rs2lean generator `window` (C07): dcl_data_structures/src/window_type/** -> Gen/Window.lean.

What is read from the source, and what it becomes (one Lean definition per Rust function, prefix = storage):

  storage_safe/storage_array.rs            ArrayStorage         -> arrNew arrRewind arrPush arrFirst arrLast arrTail arrSize arrGetSlice arrFilled …
  storage_safe/storage_vec.rs              VectorStorage        -> vec…
  storage_safe/storage_vec.rs + fixes/F1-window-vec.diff        -> vecFixed…   (the file as it would be after the repair)
  storage_unsafe/unsafe_storage_array.rs   UnsafeArrayStorage   -> uarr…       (an inherent fn that shadows a trait fn: `…Inherent`)
  storage_unsafe/unsafe_storage_vec.rs     UnsafeVectorStorage  -> uvec…
  storage.rs                               trait WindowStorage  -> the default methods empty/filled/arr/slice/vec, instantiated
                                                                   per storage unless the storage overrides them
  mod.rs                                   SlidingWindow, new_with_*_storage -> checked to forward 1:1; `Kind` and the dispatch
                                                                   functions new/push/first/last/size/empty/filled/slice/vec/arr

Method: a statement parser on top of rsexpr's tokeniser / Pratt parser, then *symbolic execution* of every function body
over the state `St` (buf, size, cap, head, tail; field map arr|vec -> buf, capacity|CAPACITY -> cap). The result is a
decision tree whose leaves are `.ok <value or new state>`, `.err`, `.panic`, `.ub`; every Rust operation that can fail
contributes its guard in program order:

  a - b (usize)                      if a < b then .panic           (overflow checks are on in the harness build)
  a.unchecked_sub(b)                 if a < b then .ub
  a.saturating_sub(b)                a - b (truncated), no guard;   wrapping_add / unchecked_add / + / *: no overflow (assumption)
  buf[i], buf[i] = v                 if i ≥ length then .panic      get_unchecked(_mut): .ub
  &buf[a..b]                         a > b / b > length: .panic     get_unchecked(a..b): .ub
  copy_within(a..b, d)               a > b, b > length, d + (b-a) > length: .panic; then memmove
  p.add(k)                           offset beyond one-past-the-end: .ub
  ptr::copy(p+s, p+d, n)             s + n > length / d + n > length: .ub; then memmove
  ptr::copy_nonoverlapping           the same, and .ub when n > 0 and the ranges overlap
  from_raw_parts(p+s, n)             s + n > length: .ub
  x[..n].copy_from_slice(&y)         n > |x|: .panic; |y| ≠ n: .panic
  assert!(c) / debug_assert!(c)      if ¬c then .panic
  byte-pointer copies                `ptr::copy` calls on `*const u8` views (straight, in `for i in 0..N`, behind `if X > 0`) are
                                     collected with their byte offsets and lengths *as parsed*; at the end of the enclosing block
                                     they must tile [0, total) front to back with source offset = destination offset, total must
                                     reduce (only by (B / K) * K + B % K = B) to count * size_of::<T>(), the destination must be the
                                     buffer start: then they are one memmove of `count` cells. The same copies are also
                                     evaluated numerically on a grid of sizes as a cross-check. Otherwise: Unsupported.

Local variables are substituted (so renaming or reordering independent `let`s, `x += 1` vs `x = x + 1`, early return vs
`else` give the same text). Anything outside this grammar raises Unsupported (fail closed, see rs2lean.py).

Forms that are read as what they mean in Rust (each a syntactic identity of the language / of std on `usize`, `bool`,
`Option`, `Result<_, String>`; nothing here depends on the invariant of the storages):

  private (inherent) methods          a call `self.helper(args)` executes the helper's body in place: on the caller's state, with only
                                      its parameters in scope, `return` continuing after the call (`&self` helpers must leave the
                                      state alone, `&mut self` helpers return `()`; helpers may answer usize / bool / T / &[T] /
                                      Option / Result of these). Extracting or merging helpers therefore gives the *same text*, and
                                      no theorem needs a helper's name; their stand-alone definitions are emitted for the reader only.
  match / if let / matches on          bool (`true`/`false`), `a.cmp(&b)` on usize (`Less`/`Equal`/`Greater`: a < b / a = b / a > b),
                                      usize literals with a final `_`, Option (`Some(x)` / `None`): an if-chain over the arms in
                                      source order; the last arm becomes the `else` only after the patterns were seen to cover
                                      the whole domain, an arm that can never match is refused, guards are refused.
  Option / Result values              never symbolic: wherever one is produced (`Some(e)`, `None`, `a.checked_sub(b)` = Some(a-b) iff
                                      a >= b, `buf.get(i)` = Some(buf[i]) iff i < len, `c.then_some(e)`, `c.then(|| e)`) the decision
                                      tree splits, so on each path it is a known constructor and `unwrap_or`, `unwrap_or_default`,
                                      `is_some`, `is_none`, `map`, `map_or`, `is_some_and`, `ok_or[_else]`, `copied`, `?` are std's
                                      definitions by cases. `self.m()?` on a fallible trait method is the generated
                                      `match m self with | .err => .err | … | .ok x => …`.
  usize::from(c)                      = `c as usize` (1 / 0)
  while                               only `let mut i = 0; while i < N { B; i += 1 }` with B made of byte copies (= `for i in 0..N { B }`)
  for i in 0..n { buf[i] = buf[S+i] } front-to-back element copy to the start of the buffer = memmove buf S 0 n (a cell is overwritten
                                      only after it was read unless S = 0, where the copy is the identity); fails at the first index
                                      out of range, i.e. iff n > 0 and S + n > length (`.panic` for `[]`, `.ub` for get_unchecked)
  struct literals                     `Self { .. }` or the struct's name, fields in any order, shorthand or `field: expr`; the buffer
                                      field is known by its type (`[T; CAPACITY]` / `Vec<T>`), the counters by their names
  mod.rs                              read structurally: any number of inherent `impl` blocks, each public method a forwarder
                                      `self.<storage field>.<same name>(<its parameters in order>)` (tail expression, `return`, or
                                      statement), `with_storage` a struct literal storing its argument and one of the spellings of
                                      `PhantomData`, the constructors `SlidingWindow::with_storage(<Storage>::new(..))` with or
                                      without locals; `use` lists are expanded, not matched as text.
Still refused: `loop`, general `while` / `for`, `while let`, closures outside the Option combinators, match guards,
slice patterns, tuple `let`s (`split_at_mut`), iterator chains over the buffer, renamed counter fields, new trait methods.
"""
import re, os, pathlib
from rsexpr import Unsupported, tokenize, Parser

W = 'dcl_data_structures/src/window_type/'
VERIF = pathlib.Path(os.path.dirname(os.path.abspath(__file__))).parent


# ----------------------------------------------------------------------------------------------
# lexical cleaning and items
# ----------------------------------------------------------------------------------------------
def clean(src):
    """comments out, string/char literals -> __STR__ / __CHR__, attributes out"""
    out, i, n = [], 0, len(src)
    while i < n:
        c = src[i]
        if src.startswith('//', i):
            j = src.find('\n', i)
            i = n if j < 0 else j
        elif src.startswith('/*', i):
            depth, i = 1, i + 2
            while i < n and depth:
                if src.startswith('/*', i):
                    depth, i = depth + 1, i + 2
                elif src.startswith('*/', i):
                    depth, i = depth - 1, i + 2
                else:
                    i += 1
        elif c == '"' or (c == 'r' and re.match(r'r#*"', src[i:]) and (i == 0 or not (src[i - 1].isalnum() or src[i - 1] == '_'))):
            if c == 'r':
                m = re.match(r'r(#*)"', src[i:])
                end = src.find('"' + m.group(1), i + len(m.group(0)))
                if end < 0:
                    raise Unsupported('unterminated raw string')
                i = end + 1 + len(m.group(1))
            else:
                i += 1
                while i < n and src[i] != '"':
                    i += 2 if src[i] == '\\' else 1
                i += 1
            out.append(' __STR__ ')
        elif c == "'":
            m = re.match(r"'(\\.[^']*|[^\\'])'", src[i:])
            if m:
                out.append(' __CHR__ ')
                i += len(m.group(0))
            else:
                out.append(c)          # a lifetime
                i += 1
        elif c == '#' and re.match(r'#!?\[', src[i:]):
            j = src.index('[', i)
            depth, j = 1, j + 1
            while depth:
                depth += (src[j] == '[') - (src[j] == ']')
                j += 1
            i = j
        else:
            out.append(c)
            i += 1
    return ''.join(out)


def match_close(src, i):
    """src[i] == '{' -> index just after the matching '}'"""
    depth, j = 1, i + 1
    while depth:
        if j >= len(src):
            raise Unsupported('unbalanced braces')
        depth += (src[j] == '{') - (src[j] == '}')
        j += 1
    return j


ITEM = re.compile(r'\b(impl|struct|trait|fn)\b')


def items(src):
    """top-level items of `src` (cleaned): (keyword, header text, body text or None)"""
    out, i, n = [], 0, len(src)
    while i < n:
        m = ITEM.search(src, i)
        if not m:
            break
        # header runs to the first `{` or `;` outside (), []
        j, depth = m.end(), 0
        while j < n and not (depth == 0 and src[j] in '{;'):
            depth += (src[j] in '([') - (src[j] in ')]')
            j += 1
        if j >= n:
            raise Unsupported('item without body: ' + src[m.start():m.start() + 40])
        header = ' '.join(src[m.start():j].split())
        if src[j] == ';':
            out.append((m.group(1), header, None))
            i = j + 1
        else:
            k = match_close(src, j)
            out.append((m.group(1), header, src[j + 1:k - 1]))
            i = k
    return out


def split_top(text, sep=','):
    parts, cur, depth = [], '', 0
    for ch in text:
        if ch in '([{<':
            depth += 1
        elif ch in ')]}>':
            depth -= 1
        if ch == sep and depth == 0:
            parts.append(cur)
            cur = ''
        else:
            cur += ch
    if cur.strip():
        parts.append(cur)
    return [p.strip() for p in parts]


class Fn:
    def __init__(self, header, body, where):
        self.where = where
        m = re.match(r'fn (\w+)\s*(<[^(]*>)?\s*\(', header)
        if not m:
            raise Unsupported(f'{where}: fn header ' + header)
        self.name = m.group(1)
        self.generics = m.group(2) or ''
        i = m.end() - 1
        depth, j = 1, i + 1
        while depth:
            depth += (header[j] == '(') - (header[j] == ')')
            j += 1
        self.params = split_top(header[i + 1:j - 1])
        rest = header[j:].strip()
        self.ret = ''
        if rest.startswith('->'):
            self.ret = re.split(r'\bwhere\b', rest[2:])[0].strip().replace(' ', '')
        elif rest and not rest.startswith('where'):
            raise Unsupported(f'{where}: fn header tail ' + rest)
        self.body = body
        self.recv = None
        if self.params and re.fullmatch(r'&\s*(mut\s+)?self', self.params[0]):
            self.recv = 'mut' if 'mut' in self.params[0] else 'ref'
            self.params = self.params[1:]
        ps = []
        for p in self.params:
            mp = re.fullmatch(r'(?:mut\s+)?(\w+)\s*:\s*(.+)', p)
            if not mp:
                raise Unsupported(f'{where}: parameter ' + p)
            ps.append((mp.group(1), mp.group(2).replace(' ', '')))
        self.params = ps


def fns_of(body, where):
    return [Fn(h, b, where) for kw, h, b in items(body) if kw == 'fn' and b is not None], \
           [h for kw, h, b in items(body) if kw == 'fn' and b is None]


# ----------------------------------------------------------------------------------------------
# statement parser (extends rsexpr.Parser): ranges, blocks, if/for/let/assignments, macros, struct and array literals
# ----------------------------------------------------------------------------------------------
class P(Parser):
    def __init__(self, toks):
        super().__init__(toks)
        self.no_struct = False

    def dotdot(self):
        return self.peek()[1] == '.' and self.peek(1)[1] == '.'

    def type_(self):
        """the type after `as`: `usize`, a path, `*const T` / `*mut T` — returned as text"""
        out = ''
        if self.peek()[1] == '*':
            self.next()
            q = self.next()[1]
            if q not in ('const', 'mut'):
                raise Unsupported('pointer type')
            out = '*' + q + ' '
        kind, v = self.next()
        if kind != 'id':
            raise Unsupported('type expected, got ' + v)
        out += v
        while self.peek()[1] == '::':
            self.next()
            out += '::' + self.next()[1]
        return out

    def expr_r(self):
        """expression or range"""
        if self.dotdot():
            self.next(), self.next()
            hi = None if self.peek()[1] in (']', ')', ',', '{') else self.expr()
            return ('range', None, hi)
        lo = self.expr()
        if self.dotdot():
            self.next(), self.next()
            if self.peek()[1] == '=':
                raise Unsupported('inclusive range')
            hi = None if self.peek()[1] in (']', ')', ',', '{') else self.expr()
            return ('range', lo, hi)
        return lo

    def args(self):
        self.expect('(')
        out = []
        saved, self.no_struct = self.no_struct, False
        while self.peek()[1] != ')':
            out.append(self.expr_r())
            if self.peek()[1] == ',':
                self.next()
            elif self.peek()[1] != ')':
                raise Unsupported('`,` or `)` expected in argument list, got ' + self.peek()[1])
        self.expect(')')
        self.no_struct = saved
        return out

    def postfix(self, e):
        while True:
            v = self.peek()[1]
            if v == '.' and self.dotdot():
                return e
            if v == '(':
                e = ('call', e, self.args())
            elif v == '.':
                self.next()
                kind, name = self.next()
                if kind != 'id':
                    raise Unsupported('field expected after .')
                if self.peek()[1] == '::':          # method turbofish: kept as text, refused by the executor
                    self.next()
                    if self.peek()[1] != '<':
                        raise Unsupported('`::` after a method name without `<`')
                    depth, tf = 0, []
                    while True:
                        kk, tk = self.next()
                        if kk == 'eof':
                            raise Unsupported('unterminated turbofish')
                        depth += (tk == '<') - (tk == '>')
                        if depth <= 0:
                            break
                        if not (depth == 1 and tk == '<'):
                            tf.append(tk)
                    if self.peek()[1] != '(':
                        raise Unsupported('turbofish without call')
                    e = ('mcall', e, name, self.args(), ''.join(tf))
                elif self.peek()[1] == '(':
                    e = ('mcall', e, name, self.args())
                else:
                    e = ('field', e, name)
            elif v == '[':
                self.next()
                saved, self.no_struct = self.no_struct, False
                idx = self.expr_r()
                self.no_struct = saved
                self.expect(']')
                e = ('index', e, idx)
            elif v == '?':
                self.next()
                e = ('try', e)
            else:
                return e

    def atom(self):
        kind, v = self.peek()
        if v == '[':
            self.next()
            saved, self.no_struct = self.no_struct, False
            first = self.expr()
            if self.peek()[1] != ';':
                raise Unsupported('array literal other than [x; n]')
            self.next()
            cnt = self.expr()
            self.expect(']')
            self.no_struct = saved
            return ('repeat', first, cnt)
        if v == 'if':
            return self.if_()
        if v == 'match':
            return self.match_()
        if v == 'unsafe':
            self.next()
            return ('block', self.block())
        if v == '{':
            return ('block', self.block())
        if v == '(':
            saved, self.no_struct = self.no_struct, False
            e = super().atom()
            self.no_struct = saved
            return e
        if v in ('|', '||'):
            # closure `|x| e`, `|x: ty| e`, `|_| e`, `|| e` — only as the argument of an Option combinator
            self.next()
            names = []
            if v == '|':
                while self.peek()[1] != '|':
                    k2, nm = self.next()
                    if k2 != 'id' or nm in ('mut', 'ref'):
                        raise Unsupported('closure parameter pattern')
                    names.append(nm)
                    if self.peek()[1] == ':':
                        self.next()
                        depth = 0
                        while not (depth == 0 and self.peek()[1] in (',', '|')):
                            t = self.next()
                            if t[0] == 'eof':
                                raise Unsupported('closure parameter type')
                            depth += (t[1] in '<[(') - (t[1] in '>])')
                    if self.peek()[1] == ',':
                        self.next()
                self.next()
            if self.peek()[1] == '->':
                raise Unsupported('closure with a return type')
            return ('closure', names, self.expr())
        if v in ('loop', 'while', 'for', 'let', 'return', 'break', 'continue', 'move'):
            raise Unsupported(f'`{v}` in expression position')
        e = super().atom()
        if e[0] == 'path':
            if self.peek()[1] == '!' and self.peek(1)[1] in ('(', '['):
                self.next()
                close = ')' if self.peek()[1] == '(' else ']'
                self.next()
                saved, self.no_struct = self.no_struct, False
                margs, sep = [], None
                while self.peek()[1] != close:
                    margs.append(self.expr())
                    if self.peek()[1] in (',', ';'):
                        s = self.next()[1]
                        sep = sep or s
                    elif self.peek()[1] != close:
                        raise Unsupported('macro arguments')
                self.next()
                self.no_struct = saved
                return ('macro', '::'.join(e[1]), margs, sep)
            if self.peek()[1] == '{' and not self.no_struct and e[1][-1][:1].isupper() and len(e[1]) == 1:
                self.next()
                fields = []
                while self.peek()[1] != '}':
                    k2, name = self.next()
                    if k2 != 'id':
                        raise Unsupported('struct literal field')
                    if self.peek()[1] == ':':
                        self.next()
                        fields.append((name, self.expr()))
                    else:
                        fields.append((name, ('path', [name])))
                    if self.peek()[1] == ',':
                        self.next()
                    elif self.peek()[1] != '}':
                        raise Unsupported('struct literal')
                self.next()
                return ('struct', e[1][0], fields)
        return e

    def cond(self):
        saved, self.no_struct = self.no_struct, True
        c = self.expr()
        self.no_struct = saved
        return c

    def if_(self):
        self.expect('if')
        pats = None
        if self.peek()[1] == 'let':
            # `if let PAT = e { A } else { B }`  ==  `match e { PAT => { A } _ => { B } }` (the Rust reference's desugaring)
            self.next()
            pats = self.pattern()
            self.expect('=')
        c = self.cond()
        then = self.block()
        els = None
        if self.peek()[1] == 'else':
            self.next()
            els = [self.if_()] if self.peek()[1] == 'if' else self.block()
        if pats is not None:
            return ('match', c, [(pats, then), ([('wild',)], els or [])])
        return ('if', c, then, els)

    def pattern(self):
        if self.peek()[1] == '|':
            self.next()
        alts = [self.pat1()]
        while self.peek()[1] == '|':
            self.next()
            alts.append(self.pat1())
        return alts

    def pat1(self):
        kind, v = self.next()
        if kind == 'num':
            return ('plit', int(re.sub(r'(u|i)(8|16|32|64|128|size)$', '', v).replace('_', '')))
        if kind != 'id' or v in ('ref', 'mut', 'box'):
            raise Unsupported('pattern ' + v)
        if v == '_':
            return ('wild',)
        path = [v]
        while self.peek()[1] == '::':
            self.next()
            k2, v2 = self.next()
            if k2 != 'id':
                raise Unsupported('pattern path')
            path.append(v2)
        if self.peek()[1] == '(':
            self.next()
            inner = self.pat1()
            self.expect(')')
            return ('pctor', path, inner)
        if self.peek()[1] in ('{', '@', '.'):
            raise Unsupported('pattern form')
        if len(path) == 1 and v in ('true', 'false'):
            return ('pbool', v == 'true')
        if len(path) == 1 and (v[:1].islower() or v[:1] == '_'):
            return ('pbind', v)
        return ('ppath', path)

    def match_(self):
        self.expect('match')
        scrut = self.cond()
        self.expect('{')
        arms = []
        saved, self.no_struct = self.no_struct, False
        while self.peek()[1] != '}':
            if self.peek()[0] == 'eof':
                raise Unsupported('unterminated match')
            pats = self.pattern()
            if self.peek()[1] == 'if':
                raise Unsupported('match guard')
            self.expect('=>')
            if self.peek()[1] == '{':
                body = self.block()
                if self.peek()[1] == ',':
                    self.next()
            else:
                body = [self.arm_stmt()]
                if self.peek()[1] == ',':
                    self.next()
                elif self.peek()[1] != '}':
                    raise Unsupported('`,` expected after a match arm')
            arms.append((pats, body))
        self.expect('}')
        self.no_struct = saved
        if not arms:
            raise Unsupported('match without arms')
        return ('match', scrut, arms)

    def arm_stmt(self):
        """the expression of a match arm, as one statement of a block (`return e`, an assignment, or a value)"""
        if self.peek()[1] == 'return':
            self.next()
            e = None if self.peek()[1] in (',', '}') else self.expr()
            return ('return', e)
        e = self.expr()
        op = self.peek()[1]
        if op in ('=', '+=', '-=', '*='):
            self.next()
            return ('assign', e, op, self.expr())
        return ('tail', e)

    def block(self):
        self.expect('{')
        out = []
        while self.peek()[1] != '}':
            if self.peek()[0] == 'eof':
                raise Unsupported('unterminated block')
            out.append(self.stmt())
        self.expect('}')
        return out

    def stmt(self):
        kind, v = self.peek()
        if v == ';':
            self.next()
            return ('nop',)
        if v == 'let':
            self.next()
            if self.peek()[1] == 'mut':
                self.next()
            k2, name = self.next()
            if k2 != 'id':
                raise Unsupported('let pattern')
            if self.peek()[1] == ':':
                self.next()
                depth = 0
                while not (depth == 0 and self.peek()[1] == '='):
                    t = self.next()
                    if t[0] == 'eof':
                        raise Unsupported('let annotation')
                    depth += (t[1] in '<[(') - (t[1] in '>])')
            self.expect('=')
            e = self.expr()
            self.expect(';')
            return ('let', name, e)
        if v == 'for':
            self.next()
            k2, name = self.next()
            self.expect('in')
            saved, self.no_struct = self.no_struct, True
            r = self.expr_r()
            self.no_struct = saved
            if r[0] != 'range' or r[1] is None or r[2] is None:
                raise Unsupported('for over something other than a..b')
            return ('for', name, r[1], r[2], self.block())
        if v == 'return':
            self.next()
            e = None if self.peek()[1] in (';', '}') else self.expr()
            if self.peek()[1] == ';':
                self.next()
            return ('return', e)
        if v == 'while':
            self.next()
            if self.peek()[1] == 'let':
                raise Unsupported('while let')
            c = self.cond()
            return ('while', c, self.block())
        if v in ('if', 'unsafe', '{', 'match'):
            # block-like expression in statement position: it ends the statement (Rust's rule); it is the value of the
            # enclosing block when it comes last
            if v == 'if':
                e = self.if_()
            elif v == 'match':
                e = self.match_()
            else:
                if v == 'unsafe':
                    self.next()
                e = ('block', self.block())
            if self.peek()[1] == ';':
                self.next()
                return ('expr', e)
            if self.peek()[1] == '.' or self.peek()[1] == 'as':
                raise Unsupported('block expression used as operand')
            return e
        e = self.expr()
        op = self.peek()[1]
        if op in ('=', '+=', '-=', '*='):
            self.next()
            rhs = self.expr()
            self.expect(';')
            return ('assign', e, op, rhs)
        if op == ';':
            self.next()
            return ('expr', e)
        if op == '}':
            return ('tail', e)
        raise Unsupported('statement: unexpected ' + repr(op))


def parse_body(text, where):
    try:
        p = P(tokenize('{' + text + '}'))
        b = p.block()
        if not p.at_end():
            raise Unsupported('trailing tokens')
        return b
    except Unsupported as ex:
        raise Unsupported(f'{where}: {ex}')
    except IndexError:
        raise Unsupported(f'{where}: unexpected end of input')


# ----------------------------------------------------------------------------------------------
# IR of the values the functions compute (rendered to Lean at the end)
#   nat : ('lit', n) ('v', name) ('add'|'mul'|'sub'|'div'|'mod'|'min', a, b) ('ite', prop, a, b) ('len', list)
#   prop: ('cmp', op, a, b) ('not', p) ('and'|'or', p, q) ('bvar', name) ('true',) ('false',)
#   list: ('v', name) ('nil',) ('set', l, i, x) ('memmove', l, s, d, n) ('slice', l, lo, n) ('replicate', n, x)
#         ('append', a, b) ('take', l, n) ('drop', l, n)
#   elem: ('v', name)
# ----------------------------------------------------------------------------------------------
def lit(n):
    return ('lit', n)


def mk_add(a, b):
    if a[0] == 'lit' and b[0] == 'lit':
        return lit(a[1] + b[1])
    if a == lit(0):
        return b
    if b == lit(0):
        return a
    return ('add', a, b)


def mk_mul(a, b):
    if a[0] == 'lit' and b[0] == 'lit':
        return lit(a[1] * b[1])
    if a == lit(1):
        return b
    if b == lit(1):
        return a
    return ('mul', a, b)


def mk_sub(a, b):
    if b == lit(0):
        return a
    if a[0] == 'lit' and b[0] == 'lit' and a[1] >= b[1]:
        return lit(a[1] - b[1])
    return ('sub', a, b)


def mk_len(l):
    if l[0] in ('set', 'memmove'):
        return mk_len(l[1])           # List.length_set, Model.Window.memmove_length
    if l[0] == 'replicate':
        return l[1]
    if l[0] == 'nil':
        return lit(0)
    return ('len', l)


def mk_not(p):
    if p[0] == 'not':
        return p[1]
    if p[0] == 'true':
        return ('false',)
    if p[0] == 'false':
        return ('true',)
    return ('not', p)


CMP = {'==': '=', '!=': '≠', '<': '<', '<=': '≤', '>': '>', '>=': '≥'}
PREC = {'or': 30, 'and': 35, 'not': 40, 'cmp': 50, 'append': 60, 'add': 65, 'sub': 65, 'mul': 70, 'div': 70, 'mod': 70}


def render(x, prec=0):
    """IR -> Lean text, parenthesised as needed"""
    t = x[0]

    def par(s, p):
        return f'({s})' if p < prec else s
    if t == 'lit':
        return str(x[1])
    if t == 'v':
        return x[1]
    if t in ('true', 'false'):
        return 'True' if t == 'true' else 'False'
    if t in ('add', 'sub', 'mul', 'div', 'mod'):
        op = {'add': '+', 'sub': '-', 'mul': '*', 'div': '/', 'mod': '%'}[t]
        return par(f'{render(x[1], PREC[t])} {op} {render(x[2], PREC[t] + 1)}', PREC[t])
    if t == 'append':
        return par(f'{render(x[1], 61)} ++ {render(x[2], 60)}', 60)
    if t == 'min':
        return par(f'min {render(x[1], 100)} {render(x[2], 100)}', 90)
    if t == 'ite':
        return f'(if {render(x[1])} then {render(x[2])} else {render(x[3])})'
    if t == 'len':
        return f'{render(x[1], 100)}.length'
    if t == 'cmp':
        return par(f'{render(x[2], 51)} {CMP[x[1]]} {render(x[3], 51)}', 50)
    if t == 'not':
        return par(f'¬ {render(x[1], 41)}', 40)
    if t == 'and':
        return par(f'{render(x[1], 36)} ∧ {render(x[2], 35)}', 35)
    if t == 'or':
        return par(f'{render(x[1], 31)} ∨ {render(x[2], 30)}', 30)
    if t == 'bvar':
        return par(f'{x[1]} = true', 50)
    if t == 'nil':
        return '[]'
    if t == 'set':
        return f'{render(x[1], 100)}.set {render(x[2], 100)} {render(x[3], 100)}'if prec < 100 else \
            f'({render(x[1], 100)}.set {render(x[2], 100)} {render(x[3], 100)})'
    if t == 'memmove':
        return par(f'memmove {render(x[1], 100)} {render(x[2], 100)} {render(x[3], 100)} {render(x[4], 100)}', 90)
    if t == 'slice':
        return par(f'({render(x[1], 100)}.drop {render(x[2], 100)}).take {render(x[3], 100)}', 90)
    if t == 'take':
        return par(f'{render(x[1], 100)}.take {render(x[2], 100)}', 90)
    if t == 'drop':
        return par(f'{render(x[1], 100)}.drop {render(x[2], 100)}', 90)
    if t == 'replicate':
        return par(f'List.replicate {render(x[1], 100)} {render(x[2], 100)}', 90)
    raise Unsupported('internal: render ' + repr(x)[:60])


# --- normal form used only to compare byte offsets / lengths of the raw byte copies -----------------
def _flat(x, op):
    return _flat(x[1], op) + _flat(x[2], op) if x[0] == op else [x]


def canon(x):
    """normal form of a nat expression: sums and products flattened and sorted, literals folded, and the one arithmetic
    fact the chunked copy rests on, (B / K) * K + B % K = B, applied"""
    t = x[0]
    if t in ('lit', 'v'):
        return x
    if t == 'mul':
        ops = [canon(o) for o in _flat(x, 'mul')]
        ops = [o2 for o in ops for o2 in _flat(o, 'mul')]
        k = 1
        rest = []
        for o in ops:
            if o[0] == 'lit':
                k *= o[1]
            else:
                rest.append(o)
        if k == 0:
            return lit(0)
        rest.sort(key=repr)
        if k != 1 or not rest:
            rest = [lit(k)] + rest
        out = rest[0]
        for o in rest[1:]:
            out = ('mul', out, o)
        return out
    if t == 'add':
        ops = [canon(o) for o in _flat(x, 'add')]
        ops = [o2 for o in ops for o2 in _flat(o, 'add')]
        changed = True
        while changed:
            changed = False
            for m in ops:
                if m[0] == 'mod':
                    want = canon(('mul', ('div', m[1], m[2]), m[2]))
                    if want in ops:
                        ops.remove(want)
                        ops.remove(m)
                        ops += _flat(m[1], 'add')
                        changed = True
                        break
        k, rest = 0, []
        for o in ops:
            if o[0] == 'lit':
                k += o[1]
            else:
                rest.append(o)
        rest.sort(key=repr)
        if k != 0 or not rest:
            rest = rest + [lit(k)]
        out = rest[0]
        for o in rest[1:]:
            out = ('add', out, o)
        return out
    if t in ('sub', 'div', 'mod', 'min'):
        return (t, canon(x[1]), canon(x[2]))
    if t == 'len':
        return x
    raise Unsupported('byte-copy arithmetic over ' + t)


def free_vars(x, acc):
    if isinstance(x, tuple):
        if x[0] == 'v':
            acc.add(x[1])
        for y in x[1:]:
            free_vars(y, acc)
    return acc


def eval_nat(x, val):
    t = x[0]
    if t == 'lit':
        return x[1]
    if t == 'v':
        return val[x[1]]
    a, b = eval_nat(x[1], val), eval_nat(x[2], val)
    if t == 'add':
        return a + b
    if t == 'mul':
        return a * b
    if t == 'sub':
        return max(0, a - b)
    if t == 'div':
        return a // b
    if t == 'mod':
        return a % b
    if t == 'min':
        return min(a, b)
    raise Unsupported('eval ' + t)


# ----------------------------------------------------------------------------------------------
# symbolic values and environment
# ----------------------------------------------------------------------------------------------
class V:
    def __init__(self, kind, ir=None, **kw):
        self.kind, self.ir = kind, ir
        self.__dict__.update(kw)


UNIT = V('unit')
FIELDS = ('buf', 'size', 'cap', 'head', 'tail')


class Env:
    def __init__(self, base, fields, scopes):
        self.base, self.fields, self.scopes = base, fields, scopes

    @staticmethod
    def fresh(base):
        return {f: ('v', f'{base}.{f}') for f in FIELDS}

    def copy(self):
        return Env(self.base, dict(self.fields), [dict(s) for s in self.scopes])

    def lookup(self, name):
        for s in reversed(self.scopes):
            if name in s:
                return s[name]
        return None

    def let(self, name, v):
        e = self.copy()
        e.scopes[-1][name] = v
        return e

    def assign(self, name, v):
        e = self.copy()
        for s in reversed(e.scopes):
            if name in s:
                s[name] = v
                return e
        raise Unsupported(f'assignment to unknown local `{name}`')

    def setf(self, f, ir):
        e = self.copy()
        e.fields[f] = ir
        return e

    def push(self):
        e = self.copy()
        e.scopes.append({})
        return e

    def pop(self):
        e = self.copy()
        e.scopes.pop()
        return e

    def state(self):
        if self.base is None:
            raise Unsupported('no receiver here')
        ch = [(f, x) for f, x in self.fields.items() if x != ('v', f'{self.base}.{f}')]
        if not ch:
            return self.base
        return '{ ' + self.base + ' with ' + ', '.join(f'{f} := {render(x)}' for f, x in ch) + ' }'


# ----------------------------------------------------------------------------------------------
# symbolic execution of one function body -> decision tree
#   ('leaf', text) ('if', prop, t, e) ('guard', prop, outcome, rest) ('bind', call, var, rest)
#   ('elem', list, idx, var, outcome, rest)
# ----------------------------------------------------------------------------------------------
class NotGroup(Exception):
    pass


class Tr:
    def __init__(self, storage, fn, from_default):
        self.st, self.fn, self.from_default = storage, fn, from_default
        self.where = f'{fn.where}::{fn.name}'
        self.n = 0
        self.uses_tsz = False
        self.uses_d = False
        self.memo = {}
        self.retk = None          # continuation of `return` while a private helper is being inlined
        self.inlining = []

    def fresh(self, stem):
        self.n += 1
        return f'{stem}{self.n}'

    def bad(self, msg):
        return Unsupported(f'{self.where}: {msg}')

    # ---- statements ---------------------------------------------------------------------------
    def block(self, stmts, env, k):
        """execute `stmts` in a new scope; k(env, value of the block)"""
        return self.seq(stmts, env.push(), lambda e, v: k(e.pop(), v))

    def seq(self, stmts, env, k):
        stmts = [s for s in stmts if s[0] != 'nop']
        if not stmts:
            return k(env, UNIT)
        s, rest = stmts[0], stmts[1:]
        t = s[0]

        def then(e, v=None):
            return self.seq(rest, e, k)
        if t == 'let':
            return self.ev(s[2], env, lambda e, v: self.seq(rest, e.let(s[1], v), k))
        if t == 'tail':
            if rest:
                raise self.bad('statement after the tail expression')
            return self.ev(s[1], env, k)
        if t == 'return':
            retk = self.retk or self.ret
            if s[1] is None:
                return retk(env, UNIT)
            return self.ev(s[1], env, retk)
        if t == 'assign':
            return self.assign(s[1], s[2], s[3], env, then)
        if t in ('if', 'block', 'for', 'while') or (t == 'expr' and self.is_ptr_copy(s[1])):
            try:
                items, used, env2 = self.byte_group(stmts, env)
                return self.resolve_bytes(items, env2, lambda e: self.seq(stmts[used:], e, k))
            except NotGroup:
                pass
        if t == 'for':
            return self.elem_loop(s, env, then)
        if t == 'while':
            raise self.bad('`while` loop outside the recognised byte-copy pattern')
        if t == 'expr':
            return self.ev(s[1], env, lambda e, v: then(e))
        if t in ('if', 'block', 'match'):
            # value of the enclosing block when last, otherwise executed for its effect
            return self.ev(s, env, k if not rest else (lambda e, v: then(e)))
        raise self.bad('statement ' + t)

    def elem_loop(self, s, env, k):
        """`for i in 0..n { buf[i] = buf[S + i]; }` (both sides checked indexing, or both `get_unchecked`): a front-to-back
        element copy to the *start* of the buffer. Cell i is written after cells S+i.. were read only if S = 0, where the
        copy is the identity, so the loop moves the old cells S..S+n to 0..n: `memmove buf S 0 n`. It fails (first
        out-of-range index, whatever was copied before) exactly when n > 0 and S + n exceeds the length."""
        _, var, lo, hi, body = s
        body = [b for b in body if b[0] != 'nop']
        while len(body) == 1 and body[0][0] == 'block':
            body = [b for b in body[0][1] if b[0] != 'nop']
        if len(body) != 1 or body[0][0] != 'assign' or body[0][2] != '=':
            raise self.bad('`for` loop that is neither the byte-copy pattern nor `buf[i] = buf[S + i]`')
        lhs, rhs = unparen(body[0][1]), unparen(body[0][3])

        def cell(x):
            if x[0] == 'index' and self.is_buf(x[1]) and x[2][0] != 'range':
                return '.panic', x[2]
            if x[0] == 'deref' and unparen(x[1])[0] == 'mcall' and unparen(x[1])[2] in ('get_unchecked', 'get_unchecked_mut') and \
                    self.is_buf(unparen(x[1])[1]) and len(unparen(x[1])[3]) == 1 and unparen(x[1])[3][0][0] != 'range':
                return '.ub', unparen(x[1])[3][0]
            raise self.bad('`for` loop body is not an element copy within the buffer')
        (f1, i1), (f2, i2) = cell(lhs), cell(rhs)
        if f1 != f2:
            raise self.bad('element copy mixing checked and unchecked indexing')
        lo_v, hi_v = self.pure(lo, env), self.pure(hi, env)
        self.need(lo_v, 'nat'), self.need(hi_v, 'nat')
        ivar = '$' + var
        e2 = env.push().let(var, V('nat', ('v', ivar)))
        d, src = self.pure(i1, e2), self.pure(i2, e2)
        self.need(d, 'nat'), self.need(src, 'nat')

        def subst0(x):
            if x == ('v', ivar):
                return lit(0)
            if isinstance(x, tuple):
                return tuple(subst0(y) if isinstance(y, tuple) else y for y in x)
            return x
        base = subst0(src.ir)
        if lo_v.ir != lit(0) or canon(d.ir) != ('v', ivar) or ivar in free_vars(base, set()) or \
                canon(src.ir) != canon(('add', base, ('v', ivar))):
            raise self.bad('element copy loop is not `for i in 0..n { buf[i] = buf[S + i] }`')
        buf, n = env.fields['buf'], hi_v.ir
        res = k(env.setf('buf', ('memmove', buf, canon(base), lit(0), n)))
        return ('guard', ('and', ('cmp', '>', n, lit(0)), ('cmp', '>', mk_add(canon(base), n), mk_len(buf))), f1, res)

    def assign(self, lhs, op, rhs, env, k):
        def with_rhs(e, v):
            if lhs[0] == 'field' and lhs[1] == ('path', ['self']):
                f = self.st.field(lhs[2], self)
                old = e.fields[f]
                return self.combine(op, old, v, e, lambda e2, ir: k(e2.setf(f, ir)), is_list=(f == 'buf'))
            if lhs[0] == 'path' and len(lhs[1]) == 1:
                old = e.lookup(lhs[1][0])
                if old is None:
                    raise self.bad(f'assignment to `{lhs[1][0]}`')
                if old.kind != v.kind:
                    raise self.bad('assignment changes the kind of a local')
                if old.kind != 'nat':
                    if op != '=':
                        raise self.bad(op + ' on a non-integer local')
                    return k(e.assign(lhs[1][0], v))
                return self.combine(op, old.ir, v, e, lambda e2, ir: k(e2.assign(lhs[1][0], V('nat', ir))))
            # element stores into the buffer
            if op != '=':
                raise self.bad(op + ' on an element')
            if v.kind != 'elem':
                raise self.bad('stored value is not an element')
            if lhs[0] == 'index' and self.is_buf(lhs[1]):
                fail, idx = '.panic', lhs[2]
            elif lhs[0] == 'deref' and lhs[1][0] == 'mcall' and lhs[1][2] == 'get_unchecked_mut' and self.is_buf(lhs[1][1]) \
                    and len(lhs[1][3]) == 1:
                fail, idx = '.ub', lhs[1][3][0]
            else:
                raise self.bad('assignment target ' + repr(lhs)[:70])
            if idx[0] == 'range':
                raise self.bad('store into a range')

            def with_idx(e2, i):
                self.need(i, 'nat')
                buf = e2.fields['buf']
                return ('guard', ('cmp', '>=', i.ir, mk_len(buf)), fail, k(e2.setf('buf', ('set', buf, i.ir, v.ir))))
            return self.ev(idx, e, with_idx)
        return self.ev(rhs, env, with_rhs)

    def combine(self, op, old, v, env, k, is_list=False):
        if is_list:
            if op != '=' or v.kind != 'list':
                raise self.bad('assignment to the buffer field')
            return k(env, v.ir)
        self.need(v, 'nat')
        if op == '=':
            return k(env, v.ir)
        if op == '+=':
            return k(env, mk_add(old, v.ir))
        if op == '-=':
            return ('guard', ('cmp', '<', old, v.ir), '.panic', k(env, mk_sub(old, v.ir)))
        if op == '*=':
            return k(env, mk_mul(old, v.ir))
        raise self.bad('operator ' + op)

    def need(self, v, kind):
        if v.kind != kind:
            raise self.bad(f'expected a value of kind {kind}, got {v.kind}')

    def is_buf(self, e):
        return e[0] == 'field' and e[1] == ('path', ['self']) and self.st.fmap.get(e[2]) == 'buf'

    # ---- returning ----------------------------------------------------------------------------
    def ret(self, env, v):
        fn = self.fn
        r = fn.ret
        if fn.recv == 'mut':
            if r != '' or v.kind != 'unit':
                raise self.bad('a `&mut self` method returning a value')
            return ('leaf', '.ok ' + paren(env.state()))
        if r == 'Self':
            if v.kind != 'struct':
                raise self.bad('constructor does not end in a struct literal')
            return ('leaf', '.ok { ' + ', '.join(f'{f} := {render(v.fields[f])}' for f in FIELDS) + ' }')
        if r == 'usize':
            self.need(v, 'nat')
            return ('leaf', '.ok ' + render(v.ir, 100))
        if r == 'bool':
            self.need(v, 'prop')
            return ('leaf', f'.ok (decide ({render(v.ir)}))')
        if r == '&[T]':
            self.need(v, 'list')
            return ('leaf', '.ok ' + render(v.ir, 100))
        m = re.fullmatch(r'Result<(.+),String>', r)
        if m:
            if v.kind == 'rescall':
                var = self.fresh('r')
                return ('bind', v.text, var, self.ret(env, V('ok', inner=V(v.inner_kind, ('v', var)))))
            if v.kind == 'err':
                return ('leaf', '.err')
            if v.kind != 'ok':
                raise self.bad('a Result function returning something else than Ok(…)/Err(…)')
            want = {'T': 'elem', '&[T]': 'list', 'Vec<T>': 'list', 'usize': 'nat'}.get(m.group(1))
            if re.fullmatch(r'\[T;\w+\]', m.group(1)):
                want = 'list'
            if want is None:
                raise self.bad('return type ' + r)
            self.need(v.inner, want)
            return ('leaf', '.ok ' + render(v.inner.ir, 100))
        raise self.bad('return type ' + (r or '()'))

    # ---- expressions --------------------------------------------------------------------------
    def pure(self, e, env):
        """value of an expression that must not produce guards or calls"""
        t = self.ev(e, env, lambda e2, v: ('VALUE', v))
        if t[0] != 'VALUE':
            raise self.bad('this expression may fail where no failure is supported: ' + repr(e)[:60])
        return t[1]

    def ev(self, x, env, k):
        t = x[0]
        if t == 'num':
            return k(env, V('nat', lit(x[1])))
        if t in ('paren', 'ref'):
            return self.ev(x[1], env, k)
        if t == 'path':
            return k(env, self.path(x[1], env))
        if t == 'field':
            if x[1] != ('path', ['self']) or env.base is None:
                raise self.bad('field access on something other than self')
            f = self.st.field(x[2], self)
            return k(env, V('list' if f == 'buf' else 'nat', env.fields[f]))
        if t == 'bin':
            return self.binop(x, env, k)
        if t == 'not':
            return self.ev(x[1], env, lambda e, v: (self.need(v, 'prop'), k(e, V('prop', mk_not(v.ir))))[1])
        if t == 'cast':
            return self.ev(x[1], env, lambda e, v: k(e, self.cast(v, x[2])))
        if t == 'deref':
            y = x[1]
            if y[0] == 'mcall' and y[2] == 'get_unchecked' and self.is_buf(y[1]) and len(y[3]) == 1 and y[3][0][0] != 'range':
                return self.ev(y[3][0], env, lambda e, i: self.read(e.fields['buf'], i, '.ub', e, k))
            raise self.bad('dereference of ' + repr(y)[:60])
        if t == 'index':
            return self.ev(x[1], env, lambda e, l: self.index(l, x[2], '.panic', e, k))
        if t == 'mcall':
            return self.mcall(x, env, k)
        if t == 'call':
            return self.call(x, env, k)
        if t == 'macro':
            return self.macro(x, env, k)
        if t == 'repeat':
            return self.ev(x[1], env, lambda e, a: self.ev(x[2], e, lambda e2, n: self.replicate(a, n, e2, k)))
        if t == 'struct':
            return self.struct(x, env, k)
        if t == 'block':
            return self.block(x[1], env, k)
        if t == 'if':
            def with_c(e, c):
                self.need(c, 'prop')
                return mk_if(c.ir, self.block(x[2], e, k), self.block(x[3] or [], e, k))
            return self.ev(x[1], env, with_c)
        if t == 'match':
            return self.ev(x[1], env, lambda e, sv: self.match(sv, x[2], e, k))
        if t == 'try':
            # `e?`: Ok(v) / Some(v) -> v, Err(_) / None -> leave the function with it
            def with_v(e, v):
                if v.kind == 'rescall':
                    if not re.fullmatch(r'Result<.+,String>', self.fn.ret):
                        raise self.bad('`?` on a Result in a function that does not return Result<_, String>')
                    var = self.fresh({'elem': 'x', 'list': 'l', 'nat': 'n'}[v.inner_kind])
                    return ('bind', v.text, var, k(e, V(v.inner_kind, ('v', var))))
                if v.kind in ('ok', 'some'):
                    return k(e, v.inner)
                if v.kind in ('err', 'none'):
                    return (self.retk or self.ret)(e, v)
                raise self.bad('`?` on a ' + v.kind)
            return self.ev(x[1], env, with_v)
        raise self.bad('expression form ' + t)

    # ---- match / if let: an if-chain over the arms in source order -----------------------------------
    DOMAIN = {'prop': ('true', 'false'), 'ord': ('Less', 'Equal', 'Greater'), 'some': ('Some', 'None'), 'none': ('Some', 'None')}

    def match(self, sv, arms, env, k):
        """`match s { P1 => e1, …, Pn => en }` on a bool, an `Ordering` (`a.cmp(&b)` on usize) or an `Option<usize>`
        (`a.checked_sub(b)`): arms are tried in source order, so the match is `if s∈P1 {e1} else if s∈P2 {e2} … else {en}`.
        The last arm becomes the `else` only after the patterns were seen to cover the whole (finite) domain; an arm
        that can never be reached is refused."""
        if sv.kind not in self.DOMAIN and sv.kind != 'nat':
            raise self.bad('match on a ' + sv.kind)

        def go(i, remaining):
            if i == len(arms):
                raise self.bad('match does not cover ' + ', '.join(sorted(remaining or ['every value'])))
            pats, body = arms[i]
            covered, cond, binds = set(), ('false',), {}
            for p in pats:
                c1, p1, b1 = self.pat(sv, p)
                covered |= c1
                cond = p1 if cond == ('false',) else ('or', cond, p1)
                if b1 and len(pats) > 1:
                    raise self.bad('binding in an or-pattern')
                binds.update(b1)
            if remaining is not None and not (covered & remaining):
                raise self.bad('unreachable match arm')
            e2 = env.push()
            for n, v in binds.items():
                e2 = e2.let(n, v)
            then = None if cond == ('false',) else self.seq(body, e2, lambda e3, v: k(e3.pop(), v))
            left = None if (remaining is None and 'ALL' not in covered) else \
                (set() if 'ALL' in covered else remaining - covered)
            if left is not None and not left:
                if i != len(arms) - 1:
                    raise self.bad('unreachable match arm')
                if then is None:
                    raise self.bad('internal: the last arm of a match is dead on this path')
                return then
            if cond == ('true',):
                self.check_arms(arms[i + 1:], sv, left)
                return then
            return mk_if(cond, then, go(i + 1, left))
        return go(0, set(self.DOMAIN[sv.kind]) if sv.kind in self.DOMAIN else None)

    def check_arms(self, arms, sv, remaining):
        """the arms after one that is certainly taken on this path: still well-formed patterns that complete the cover"""
        for j, (pats, _) in enumerate(arms):
            covered = set()
            for p in pats:
                covered |= self.pat(sv, p)[0]
            if remaining is not None:
                if not (covered & remaining):
                    raise self.bad('unreachable match arm')
                remaining = set() if 'ALL' in covered else remaining - covered
            elif 'ALL' in covered:
                remaining = set()
            if remaining is not None and not remaining and j != len(arms) - 1:
                raise self.bad('unreachable match arm')
        if remaining is None or remaining:
            raise self.bad('match does not cover ' + ', '.join(sorted(remaining or ['every value'])))

    def pat(self, sv, p):
        """(values of the domain the pattern covers, its condition as a prop, bindings)"""
        kind = sv.kind
        if p[0] == 'wild':
            return ({'ALL'} | set(self.DOMAIN.get(kind, ())), ('true',), {})
        if p[0] == 'pbind':
            if kind != 'nat':
                raise self.bad('binding pattern on a ' + kind)
            return {'ALL'}, ('true',), {p[1]: sv}
        if kind == 'prop' and p[0] == 'pbool':
            return {'true' if p[1] else 'false'}, (sv.ir if p[1] else mk_not(sv.ir)), {}
        if kind == 'nat' and p[0] == 'plit':
            return set(), ('cmp', '==', sv.ir, lit(p[1])), {}
        if kind == 'ord' and p[0] == 'ppath' and p[1][-1] in self.DOMAIN['ord'] and \
                p[1][:-1] in ([], ['Ordering'], ['cmp', 'Ordering'], ['std', 'cmp', 'Ordering'], ['core', 'cmp', 'Ordering']):
            op = {'Less': '<', 'Equal': '==', 'Greater': '>'}[p[1][-1]]
            return {p[1][-1]}, ('cmp', op, sv.a, sv.b), {}
        # an Option is always a concrete `Some(v)` or `None` on the path being executed (see `option`)
        if kind in ('some', 'none') and p[0] == 'ppath' and p[1] in (['None'], ['Option', 'None']):
            return {'None'}, (('true',) if kind == 'none' else ('false',)), {}
        if kind in ('some', 'none') and p[0] == 'pctor' and p[1] in (['Some'], ['Option', 'Some']):
            inner = p[2]
            here = ('true',) if kind == 'some' else ('false',)
            if inner[0] == 'wild':
                return {'Some'}, here, {}
            if inner[0] == 'pbind':
                return {'Some'}, here, ({inner[1]: sv.inner} if kind == 'some' else {})
        raise self.bad(f'pattern {p!r} on a {kind}')

    def path(self, p, env):
        if len(p) == 1:
            n = p[0]
            v = env.lookup(n)
            if v is not None:
                return v
            if n in ('true', 'false'):
                return V('prop', (n,))
            if n == 'None':
                return V('none')
            if n == '__STR__' or n in self.st.str_consts:
                return V('str')
            c = self.st.const(n, self, env)
            if c is not None:
                return V('nat', c)
        raise self.bad('name `' + '::'.join(p) + '`')

    def binop(self, x, env, k):
        op = x[1]
        if op in ('&&', '||'):
            def with_l(e, a):
                b = self.pure(x[3], e)           # a right operand that can fail would need short-circuit guards
                self.need(a, 'prop'), self.need(b, 'prop')
                return k(e, V('prop', ('and' if op == '&&' else 'or', a.ir, b.ir)))
            return self.ev(x[2], env, with_l)

        def with_ab(e, a, b):
            self.need(a, 'nat'), self.need(b, 'nat')
            if op in CMP:
                return k(e, V('prop', ('cmp', op, a.ir, b.ir)))
            if op == '+':
                return k(e, V('nat', mk_add(a.ir, b.ir)))
            if op == '*':
                return k(e, V('nat', mk_mul(a.ir, b.ir)))
            if op == '-':
                return ('guard', ('cmp', '<', a.ir, b.ir), '.panic', k(e, V('nat', mk_sub(a.ir, b.ir))))
            if op in ('/', '%'):
                r = V('nat', ('div' if op == '/' else 'mod', a.ir, b.ir))
                if b.ir[0] == 'lit' and b.ir[1] > 0:
                    return k(e, r)
                return ('guard', ('cmp', '==', b.ir, lit(0)), '.panic', k(e, r))
            raise self.bad('operator ' + op)
        return self.ev(x[2], env, lambda e, a: self.ev(x[3], e, lambda e2, b: with_ab(e2, a, b)))

    def cast(self, v, ty):
        if ty == 'usize':
            if v.kind == 'prop':
                return V('nat', ('ite', v.ir, lit(1), lit(0)))
            if v.kind == 'nat':
                return v
        if ty in ('*const u8', '*mut u8'):
            if v.kind == 'ptr':
                return V('bptr', None, eoff=v.off, boff=lit(0))
            if v.kind == 'bptr':
                return v
        if ty in ('*const T', '*mut T') and v.kind == 'ptr':
            return v
        raise self.bad(f'cast of a {v.kind} to {ty}')

    def read(self, lst, i, fail, env, k):
        self.need(i, 'nat')
        var = self.fresh('x')
        return ('elem', lst, i.ir, var, fail, k(env, V('elem', ('v', var))))

    def index(self, l, idx, fail, env, k):
        """`l[idx]` (fail = .panic) or `l.get_unchecked(idx)` (fail = .ub)"""
        self.need(l, 'list')
        if idx[0] != 'range':
            return self.ev(idx, env, lambda e, i: self.read(l.ir, i, fail, e, k))

        def with_lo(e, lo):
            def with_hi(e2, hi):
                n = mk_len(l.ir)
                lo_ir = lit(0) if lo is None else lo.ir
                hi_ir = n if hi is None else hi.ir
                res = k(e2, V('list', mk_slice(l.ir, lo_ir, mk_sub(hi_ir, lo_ir))))
                if hi is not None:
                    self.need(hi, 'nat')
                    res = ('guard', ('cmp', '>', hi_ir, n), fail, res)
                if lo is not None:
                    self.need(lo, 'nat')
                    res = ('guard', ('cmp', '>', lo_ir, hi_ir), fail, res)
                return res
            if idx[2] is None:
                return with_hi(e, None)
            return self.ev(idx[2], e, with_hi)
        if idx[1] is None:
            return with_lo(env, None)
        return self.ev(idx[1], env, with_lo)

    def replicate(self, a, n, env, k):
        self.need(a, 'elem'), self.need(n, 'nat')
        return k(env, V('list', ('replicate', n.ir, a.ir)))

    def struct(self, x, env, k):
        if x[1] not in ('Self', self.st.rust):
            raise self.bad('struct literal of ' + x[1])
        names = [f for f, _ in x[2]]
        if sorted(names) != sorted(self.st.fmap):
            raise self.bad(f'struct literal fields {names}, the struct has {sorted(self.st.fmap)}')

        def go(i, e, acc):
            if i == len(x[2]):
                fields = {self.st.fmap[f]: v for f, v in acc.items()}
                for f, v in fields.items():
                    self.need(v, 'list' if f == 'buf' else 'nat')
                fields = {f: v.ir for f, v in fields.items()}
                if self.st.cap_const:
                    fields['cap'] = ('v', self.st.cap_const)
                    if mk_len(fields['buf']) != fields['cap']:
                        raise self.bad(f'the array literal is not of length {self.st.cap_const}')
                return k(e, V('struct', fields=fields))
            f, ex = x[2][i]
            return self.ev(ex, e, lambda e2, v: go(i + 1, e2, {**acc, f: v}))
        return go(0, env, {})

    def macro(self, x, env, k):
        name, margs, sep = x[1], x[2], x[3]
        if name in ('assert', 'debug_assert') and margs:
            def with_c(e, c):
                self.need(c, 'prop')
                for extra in margs[1:]:
                    if self.pure(extra, e).kind != 'str':
                        raise self.bad(name + '! with format arguments')
                return ('guard', mk_not(c.ir), '.panic', k(e, UNIT))
            return self.ev(margs[0], env, with_c)
        if name == 'vec' and len(margs) == 2 and sep == ';':
            return self.ev(margs[0], env, lambda e, a: self.ev(margs[1], e, lambda e2, n: self.replicate(a, n, e2, k)))
        raise self.bad('macro ' + name + '!')

    def call(self, x, env, k):
        f, a = x[1], x[2]
        if f[0] != 'path':
            raise self.bad('call of a non-path')
        p = [s for s in f[1] if s != '<>']
        turbofish = '<>' in f[1]
        if p == ['Some'] and len(a) == 1:
            return self.ev(a[0], env, lambda e, v: k(e, V('some', inner=v)))
        if p in (['Ok'], ['Err']) and len(a) == 1:
            if p == ['Err']:
                return self.ev(a[0], env, lambda e, v: k(e, V('err')))
            return self.ev(a[0], env, lambda e, v: k(e, V('ok', inner=v)))
        if p == ['T', 'default'] and not a:
            if self.fn.name not in ('new', 'arr'):
                raise self.bad('T::default() outside new / arr')
            self.uses_d = True
            return k(env, V('elem', ('v', 'd')))
        if p[-2:] == ['mem', 'size_of'] and turbofish and not a:
            self.uses_tsz = True
            return k(env, V('nat', ('v', 'tsz')))
        if p[-2:] in (['ptr', 'copy'], ['ptr', 'copy_nonoverlapping']) and len(a) == 3:
            return self.evs(a, env, lambda e, vs: self.ptr_copy(vs, p[-1] == 'copy_nonoverlapping', e, k))
        if p[-2:] == ['slice', 'from_raw_parts'] and len(a) == 2:
            def frp(e, vs):
                ptr, n = vs
                self.need(ptr, 'ptr'), self.need(n, 'nat')
                buf = e.fields['buf']
                return ('guard', ('cmp', '>', mk_add(ptr.off, n.ir), mk_len(buf)), '.ub',
                        k(e, V('list', mk_slice(buf, ptr.off, n.ir))))
            return self.evs(a, env, frp)
        if p == ['usize', 'from'] and len(a) == 1 and not turbofish:
            # `impl From<bool> for usize`: true -> 1, false -> 0, the same as `b as usize`
            return self.ev(a[0], env, lambda e, v: (self.need(v, 'prop'), k(e, self.cast(v, 'usize')))[1])
        if p == ['Vec', 'with_capacity'] and len(a) == 1:
            return self.ev(a[0], env, lambda e, n: (self.need(n, 'nat'), k(e, V('list', ('nil',))))[1])
        raise self.bad('call of ' + '::'.join(f[1]))

    def evs(self, xs, env, k):
        def go(i, e, acc):
            if i == len(xs):
                return k(e, acc)
            return self.ev(xs[i], e, lambda e2, v: go(i + 1, e2, acc + [v]))
        return go(0, env, [])

    def ptr_copy(self, vs, nonoverlapping, env, k):
        src, dst, n = vs
        if src.kind == 'bptr' or dst.kind == 'bptr':
            raise self.bad('byte-pointer copy outside the recognised pattern')
        self.need(src, 'ptr'), self.need(dst, 'ptr'), self.need(n, 'nat')
        buf = env.fields['buf']
        res = k(env.setf('buf', ('memmove', buf, src.off, dst.off, n.ir)), UNIT)
        if nonoverlapping:
            res = ('guard', ('and', ('cmp', '>', n.ir, lit(0)),
                             ('and', ('cmp', '<', src.off, mk_add(dst.off, n.ir)), ('cmp', '<', dst.off, mk_add(src.off, n.ir)))),
                   '.ub', res)
        res = ('guard', ('cmp', '>', mk_add(dst.off, n.ir), mk_len(buf)), '.ub', res)
        return ('guard', ('cmp', '>', mk_add(src.off, n.ir), mk_len(buf)), '.ub', res)

    def mcall(self, x, env, k):
        obj, name, a = x[1], x[2], x[3]
        if len(x) > 4:
            raise self.bad(f'turbofish on the method call .{name}()')
        if obj == ('path', ['self']):
            return self.self_call(name, a, env, k)
        # operations on the buffer field
        if self.is_buf(obj):
            if name in ('as_ptr', 'as_mut_ptr') and not a:
                return k(env, V('ptr', None, off=lit(0)))
            if name == 'get_unchecked' and len(a) == 1 and a[0][0] == 'range':
                return self.index(V('list', env.fields['buf']), a[0], '.ub', env, k)
            if name == 'get' and len(a) == 1 and a[0][0] != 'range':
                # `buf.get(i)`: Some(&buf[i]) iff i < len, else None — the path splits, the read below cannot fail
                def with_i(e, i):
                    self.need(i, 'nat')
                    buf = e.fields['buf']
                    return mk_if(('cmp', '<', i.ir, mk_len(buf)),
                                 self.read(buf, i, '.panic', e, lambda e2, v: k(e2, V('some', inner=v))), k(e, V('none')))
                return self.ev(a[0], env, with_i)
            if name == 'copy_within' and len(a) == 2 and a[0][0] == 'range' and a[0][1] is not None and a[0][2] is not None:
                def cw(e, vs):
                    lo, hi, d = vs
                    for v in vs:
                        self.need(v, 'nat')
                    buf = e.fields['buf']
                    n = mk_sub(hi.ir, lo.ir)
                    res = k(e.setf('buf', ('memmove', buf, lo.ir, d.ir, n)), UNIT)
                    res = ('guard', ('cmp', '>', mk_add(d.ir, n), mk_len(buf)), '.panic', res)
                    res = ('guard', ('cmp', '>', hi.ir, mk_len(buf)), '.panic', res)
                    return ('guard', ('cmp', '>', lo.ir, hi.ir), '.panic', res)
                return self.evs([a[0][1], a[0][2], a[1]], env, cw)
            raise self.bad(f'buffer method {name}')
        # `x[..n].copy_from_slice(&y)` on a local list
        if name == 'copy_from_slice' and obj[0] == 'index' and obj[1][0] == 'path' and len(obj[1][1]) == 1 \
                and obj[2][0] == 'range' and obj[2][1] is None and obj[2][2] is not None and len(a) == 1:
            lname = obj[1][1][0]

            def with_n(e, n):
                # the receiver `x[..n]` is evaluated (and bounds-checked) before the argument
                l = e.lookup(lname)
                if l is None or l.kind != 'list':
                    raise self.bad('copy_from_slice into `' + lname + '`')
                self.need(n, 'nat')

                def with_y(e2, y):
                    self.need(y, 'list')
                    res = k(e2.assign(lname, V('list', ('append', y.ir, ('drop', l.ir, n.ir)))), UNIT)
                    return ('guard', ('cmp', '!=', mk_len(y.ir), n.ir), '.panic', res)
                return ('guard', ('cmp', '>', n.ir, mk_len(l.ir)), '.panic', self.ev(a[0], e, with_y))
            return self.ev(obj[2][2], env, with_n)
        # `v.resize(n, x)` on a local that is still empty (Vec::with_capacity)
        if name == 'resize' and obj[0] == 'path' and len(obj[1]) == 1 and len(a) == 2:
            lname = obj[1][0]

            def rs(e, vs):
                n, y = vs
                l = e.lookup(lname)
                if l is None or l.kind != 'list' or l.ir != ('nil',):
                    raise self.bad('resize of something other than a fresh Vec::with_capacity')
                self.need(n, 'nat'), self.need(y, 'elem')
                return k(e.assign(lname, V('list', ('replicate', n.ir, y.ir))), UNIT)
            return self.evs(a, env, rs)

        def with_obj(e, o):
            if o.kind in ('some', 'none', 'prop') and name in self.OPTION_METHODS:
                return self.option(o, name, a, e, k)

            def with_args(e2, vs):
                if o.kind == 'nat' and len(vs) == 1 and vs[0].kind == 'nat':
                    b = vs[0].ir
                    if name == 'saturating_sub':
                        return k(e2, V('nat', mk_sub(o.ir, b)))
                    if name == 'unchecked_sub':
                        return ('guard', ('cmp', '<', o.ir, b), '.ub', k(e2, V('nat', mk_sub(o.ir, b))))
                    if name in ('wrapping_add', 'unchecked_add', 'saturating_add'):
                        return k(e2, V('nat', mk_add(o.ir, b)))      # no overflow: stated assumption
                    if name == 'min':
                        return k(e2, V('nat', ('min', o.ir, b)))
                    if name == 'cmp':              # only usable as the scrutinee of a match / if let
                        return k(e2, V('ord', None, a=o.ir, b=b))
                    if name == 'checked_sub':      # Some(a - b) iff a >= b, else None: the path splits here
                        return mk_if(('cmp', '>=', o.ir, b), k(e2, V('some', inner=V('nat', mk_sub(o.ir, b)))),
                                     k(e2, V('none')))
                if o.kind == 'ptr' and name == 'add' and len(vs) == 1 and vs[0].kind == 'nat':
                    off = mk_add(o.off, vs[0].ir)
                    return ('guard', ('cmp', '>', off, mk_len(e2.fields['buf'])), '.ub', k(e2, V('ptr', None, off=off)))
                if o.kind == 'bptr' and name == 'add' and len(vs) == 1 and vs[0].kind == 'nat':
                    return k(e2, V('bptr', None, eoff=o.eoff, boff=mk_add(o.boff, vs[0].ir)))
                if o.kind == 'str' and name == 'to_string' and not vs:
                    return k(e2, o)
                if o.kind == 'list' and name == 'to_vec' and not vs:
                    return k(e2, o)
                if o.kind == 'list' and name == 'len' and not vs:
                    return k(e2, V('nat', mk_len(o.ir)))
                raise self.bad(f'method {name} on a {o.kind}')
            return self.evs(a, e, with_args)
        return self.ev(obj, env, with_obj)

    def inline(self, fn, a, env, k):
        """a call of a private (inherent) method: its body is executed in place — on the caller's state, with only its
        parameters in scope, `return` continuing after the call. That is what the call means; `#[inline]` or not."""
        if fn.name in self.inlining:
            raise self.bad('recursive call of ' + fn.name)
        if fn.recv is None:
            raise self.bad(f'call of the associated function {fn.name} through self')
        if fn.generics:
            raise self.bad('call of the generic method ' + fn.name)
        if len(a) != len(fn.params):
            raise self.bad(f'call of {fn.name} with {len(a)} argument(s)')
        simple = {'': 'unit', 'usize': 'nat', 'bool': 'prop', 'T': 'elem', '&[T]': 'list'}
        want_ret, want_inner = simple.get(fn.ret), None
        m = re.fullmatch(r'Option<(.+)>|Result<(.+),String>', fn.ret)
        if m and simple.get(m.group(1) or m.group(2)) not in (None, 'unit'):
            want_ret, want_inner = ('some', 'none') if m.group(1) else ('ok', 'err'), simple[m.group(1) or m.group(2)]
        if want_ret is None or (fn.recv == 'mut' and want_ret != 'unit'):
            raise self.bad(f'helper {fn.name} returns {fn.ret or "()"}')
        body = parse_body(fn.body, f'{fn.where}::{fn.name}')

        def with_args(e, vs):
            scope = {}
            for (pn, ty), v in zip(fn.params, vs):
                want = {'usize': 'nat', 'T': 'elem', 'bool': 'prop'}.get(ty)
                if want is None:
                    raise self.bad(f'helper {fn.name}: parameter {pn}: {ty}')
                self.need(v, want)
                scope[pn] = v
            outer = (self.fn, self.retk, self.where, list(self.inlining))
            fields_before = dict(e.fields) if fn.recv == 'ref' else None

            def kont(e2, v):
                if (v.kind not in want_ret) if want_inner else (v.kind != want_ret):
                    raise self.bad(f'helper {fn.name} answers a {v.kind}, declared {fn.ret or "()"}')
                if want_inner and v.kind in ('some', 'ok') and v.inner.kind != want_inner:
                    raise self.bad(f'helper {fn.name} answers a {v.kind}({v.inner.kind}), declared {fn.ret}')
                if fields_before is not None and (e2.fields != fields_before or e2.base != e.base):
                    raise self.bad(f'the `&self` helper {fn.name} changes the state')
                inner = (self.fn, self.retk, self.where, list(self.inlining))
                self.fn, self.retk, self.where, self.inlining = outer
                try:
                    return k(Env(e2.base, e2.fields, e.scopes), v)
                finally:
                    self.fn, self.retk, self.where, self.inlining = inner
            self.fn, self.retk, self.where = fn, kont, f'{outer[2]} -> {fn.name}'
            self.inlining = outer[3] + [fn.name]
            try:
                return self.block(body, Env(e.base, e.fields, [scope]), kont)
            finally:
                self.fn, self.retk, self.where, self.inlining = outer
        return self.evs(a, env, with_args)

    # ---- Option / Result values -----------------------------------------------------------------
    OPTION_METHODS = ('unwrap_or', 'unwrap_or_default', 'is_some', 'is_none', 'map_or', 'is_some_and', 'map', 'ok_or',
                      'ok_or_else', 'copied', 'cloned', 'then_some', 'then')

    def option(self, o, name, a, env, k):
        """An `Option` never exists as a symbolic value: wherever one is produced (`Some(e)`, `None`, `a.checked_sub(b)`,
        `buf.get(i)`, `c.then_some(e)`) the decision tree splits, so on every path it is a known `Some(v)` or `None` and
        the combinators below are std's definitions by cases on the constructor."""
        def closure(x, nparams):
            x = unparen(x)
            if x[0] != 'closure' or len(x[1]) != nparams:
                raise self.bad(f'.{name}(..): a closure with {nparams} parameter(s) expected')
            return x

        def apply(cl, arg, e, kk):
            e2 = e.push()
            if cl[1]:
                e2 = e2.let(cl[1][0], arg) if cl[1][0] != '_' else e2
            return self.ev(cl[2], e2, lambda e3, v: kk(e3.pop(), v))
        if o.kind == 'prop':
            if name == 'then_some' and len(a) == 1:
                return self.ev(a[0], env, lambda e, v: mk_if(o.ir, k(e, V('some', inner=v)), k(e, V('none'))))
            if name == 'then' and len(a) == 1:
                cl = closure(a[0], 0)
                return mk_if(o.ir, apply(cl, None, env, lambda e, v: k(e, V('some', inner=v))), k(env, V('none')))
            raise self.bad(f'method {name} on a bool')
        some = o.kind == 'some'
        if name in ('copied', 'cloned') and not a:
            return k(env, o)
        if name in ('is_some', 'is_none') and not a:
            return k(env, V('prop', ('true',) if some == (name == 'is_some') else ('false',)))
        if name == 'unwrap_or_default' and not a:
            if some:
                return k(env, o.inner)
            raise self.bad('unwrap_or_default of a None whose type is not known here')
        if name == 'unwrap_or' and len(a) == 1:
            return self.ev(a[0], env, lambda e, d: k(e, o.inner if some else d))
        if name == 'ok_or' and len(a) == 1:
            return self.ev(a[0], env, lambda e, d: k(e, V('ok', inner=o.inner) if some else V('err')))
        if name == 'ok_or_else' and len(a) == 1:
            cl = closure(a[0], 0)
            if some:
                return k(env, V('ok', inner=o.inner))
            return apply(cl, None, env, lambda e, v: k(e, V('err')))
        if name == 'map' and len(a) == 1:
            cl = closure(a[0], 1)
            if some:
                return apply(cl, o.inner, env, lambda e, v: k(e, V('some', inner=v)))
            return k(env, o)
        if name == 'map_or' and len(a) == 2:
            cl = closure(a[1], 1)
            if some:
                return self.ev(a[0], env, lambda e, d: apply(cl, o.inner, e, k))   # the default is evaluated, then unused
            return self.ev(a[0], env, k)
        if name == 'is_some_and' and len(a) == 1:
            cl = closure(a[0], 1)
            if some:
                return apply(cl, o.inner, env, k)
            return k(env, V('prop', ('false',)))
        raise self.bad(f'method {name} on an Option')

    def self_call(self, name, a, env, k):
        if not self.from_default and name in self.st.inherent:
            return self.inline(self.st.inherent[name], a, env, k)
        callee = self.st.resolve(name, self.from_default, self)
        if len(a) != len(callee.fn.params):
            raise self.bad(f'call of {name} with {len(a)} argument(s)')
        if callee.uses_tsz:
            self.uses_tsz = True

        def with_args(e, vs):
            for v in vs:
                self.need(v, 'nat')
            state = e.state()
            text = ' '.join([callee.lean] + (['tsz'] if callee.uses_tsz else []) + [paren(state)] +
                            [render(v.ir, 100) for v in vs])
            r = callee.fn.ret
            if callee.fn.recv == 'mut':
                if r != '':
                    raise self.bad('call of a `&mut self` method that returns a value')
                var = self.fresh('self')
                return ('bind', text, var, k(Env(var, Env.fresh(var), e.scopes), UNIT))
            if callee.fn.recv != 'ref':
                raise self.bad('call of an associated function')
            if text in self.memo:                    # `&self` methods are pure: one evaluation per state
                return k(e, self.memo[text])
            if r == 'usize':
                var = self.fresh('n')
                v = V('nat', ('v', var))
            elif r == 'bool':
                var = self.fresh('b')
                v = V('prop', ('bvar', var))
            elif r == '&[T]':
                var = self.fresh('l')
                v = V('list', ('v', var))
            elif re.fullmatch(r'Result<(T|&\[T\]|Vec<T>|usize),String>', r):
                # a fallible accessor: usable only where its `Err` is handed on unchanged (`self.m()?`, or as the value the
                # function returns), which is what the generated `match … | .err => .err | .ok x => …` does
                inner = {'T': 'elem', '&[T]': 'list', 'Vec<T>': 'list', 'usize': 'nat'}[r[7:-8]]
                return k(e, V('rescall', None, text=text, inner_kind=inner))
            else:
                raise self.bad(f'call of {name}, which returns {r}')
            saved = dict(self.memo)
            self.memo[text] = v
            res = ('bind', text, var, k(e, v))
            self.memo = saved
            return res
        return self.evs(a, env, with_args)

    # ---- raw byte copies ----------------------------------------------------------------------
    def is_ptr_copy(self, x):
        return x[0] == 'call' and x[1][0] == 'path' and x[1][1][-2:] in (['ptr', 'copy'], ['ptr', 'copy_nonoverlapping'])

    def byte_group(self, stmts, env):
        """longest prefix of `stmts` that consists of byte-pointer copies (straight, in `for i in 0..N`, behind `if X > 0`)
        and the pure `let`s between them -> (items, statements consumed, env)"""
        items, used = [], 0
        env = env.copy()
        for s in stmts:
            got = self.byte_stmt(s, env)
            if got is None:
                break
            env, new = got
            items += new
            used += 1
        # trailing `let`s belong to what follows (they are executed again there; a `let` is pure, so that is harmless)
        while used and stmts[used - 1][0] in ('let', 'nop'):
            used -= 1
        if not items or used == 0:
            raise NotGroup()
        return items, used, env

    def byte_stmt(self, s, env):
        """(env, items) when `s` belongs to a byte-copy group, None otherwise"""
        t = s[0]
        if t == 'nop':
            return env, []
        if t == 'let':
            try:
                return env.let(s[1], self.pure(s[2], env)), []
            except Unsupported:
                return None
        if t == 'expr' and self.is_ptr_copy(s[1]) and len(s[1][2]) == 3:
            try:
                src, dst, n = [self.pure(a, env) for a in s[1][2]]
            except Unsupported:
                return None
            if src.kind != 'bptr' or dst.kind != 'bptr' or n.kind != 'nat':
                return None
            return env, [('copy', src, dst, n.ir, s[1][1][1][-1] == 'copy_nonoverlapping')]
        if t == 'block':
            inner, e = [], env.push()
            for s2 in s[1]:
                got = self.byte_stmt(s2, e)
                if got is None:
                    return None
                e, new = got
                inner += new
            return e.pop(), inner
        if t == 'for':
            try:
                lo, hi = self.pure(s[2], env), self.pure(s[3], env)
            except Unsupported:
                return None
            if lo.kind != 'nat' or lo.ir != lit(0) or hi.kind != 'nat':
                return None
            ivar = '$' + s[1]
            got = self.byte_stmt(('block', s[4]), env.push().let(s[1], V('nat', ('v', ivar))))
            if got is None or not got[1]:
                return None
            return env, [('loop', ivar, hi.ir, got[1])]
        if t == 'while':
            # `let mut i = 0; while i < N { B; i += 1; }` with B free of assignments to `i` (B is made of byte copies, pure
            # `let`s and nested such loops only) is `for i in 0..N { B }`; afterwards i = N
            c = unparen(s[1])
            if not (c[0] == 'bin' and c[1] == '<' and unparen(c[2])[0] == 'path' and len(unparen(c[2])[1]) == 1 and s[2]):
                return None
            iname = unparen(c[2])[1][0]
            cur = env.lookup(iname)
            last = s[2][-1]
            step = last[0] == 'assign' and unparen(last[1]) == ('path', [iname]) and (
                (last[2] == '+=' and unparen(last[3]) == ('num', 1)) or
                (last[2] == '=' and unparen(last[3]) in (('bin', '+', ('path', [iname]), ('num', 1)),
                                                         ('bin', '+', ('num', 1), ('path', [iname])))))
            if cur is None or cur.kind != 'nat' or cur.ir != lit(0) or not step or binds_name(s[2][:-1], iname):
                return None
            try:
                hi = self.pure(c[3], env)
            except Unsupported:
                return None
            got = self.byte_stmt(('for', iname, ('num', 0), c[3], s[2][:-1]), env)
            if got is None or hi.kind != 'nat':
                return None
            return got[0].assign(iname, hi), got[1]
        if t == 'if' and s[3] is None:
            c = s[1]
            while c[0] == 'paren':
                c = c[1]
            x = None
            if c[0] == 'bin' and c[1] in ('>', '!=') and c[3] == ('num', 0):
                x = c[2]
            elif c[0] == 'bin' and c[1] == '<' and c[2] == ('num', 0):
                x = c[3]
            elif c[0] == 'bin' and c[1] == '>=' and c[3] == ('num', 1):
                x = c[2]
            if x is None:
                return None
            try:
                xv = self.pure(x, env)
            except Unsupported:
                return None
            got = self.byte_stmt(('block', s[2]), env)
            if got is None or not got[1] or xv.kind != 'nat':
                return None
            # the guard may be dropped only if the guarded copies are void when X = 0
            for it in got[1]:
                amount = it[2] if it[0] == 'loop' else it[3]
                if canon(amount) != canon(xv.ir):
                    return None
            return env, got[1]
        return None

    def resolve_bytes(self, items, env, k):
        """the collected byte copies as one memmove of cells, or Unsupported"""
        sb = db = None
        off = lit(0)
        for it in items:
            copies = it[3] if it[0] == 'loop' else [it]
            if it[0] == 'loop' and len(copies) != 1:
                raise self.bad('byte-copy loop with more than one copy')
            _, src, dst, n, nonov = copies[0]
            if copies[0][0] != 'copy':
                raise self.bad('nested byte-copy loop')
            if nonov:
                raise self.bad('chunked copy_nonoverlapping (chunks of one move may overlap each other\'s source)')
            if sb is None:
                sb, db = src.eoff, dst.eoff
            if canon(src.eoff) != canon(sb) or canon(dst.eoff) != canon(db):
                raise self.bad('byte copies with different base pointers')
            want = off
            if it[0] == 'loop':
                if it[1] in free_vars(n, set()):
                    raise self.bad('byte-copy length depends on the loop variable')
                want = mk_add(off, mk_mul(('v', it[1]), n))
                amount = mk_mul(it[2], n)
            else:
                amount = n
            if canon(src.boff) != canon(want) or canon(dst.boff) != canon(want):
                raise self.bad(f'byte copies do not tile: offsets {render(src.boff)} / {render(dst.boff)}, '
                               f'expected {render(want)}')
            off = mk_add(off, amount)
        total = canon(off)
        factors = _flat(total, 'mul')
        if factors.count(('v', 'tsz')) != 1:
            raise self.bad('total of the byte copies is not count * size_of::<T>(): ' + render(total))
        factors.remove(('v', 'tsz'))
        count = lit(1)
        for f in factors:
            count = mk_mul(count, f)
        if canon(db) != lit(0):
            raise self.bad('chunked byte copy whose destination is not the start of the buffer')
        self.numeric_check(items, count)
        buf = env.fields['buf']
        res = k(env.setf('buf', ('memmove', buf, sb, db, count)))
        res = ('guard', ('cmp', '>', mk_add(db, count), mk_len(buf)), '.ub', res)
        return ('guard', ('cmp', '>', mk_add(sb, count), mk_len(buf)), '.ub', res)

    def numeric_check(self, items, count):
        """independent cross-check of the symbolic argument: run the parsed copies on concrete numbers"""
        import random
        names = set()
        for it in items:
            for c in (it[3] if it[0] == 'loop' else [it]):
                free_vars(c[1].boff, names), free_vars(c[2].boff, names), free_vars(c[3], names)
            if it[0] == 'loop':
                free_vars(it[2], names)
        free_vars(count, names)
        names = sorted(n for n in names if not n.startswith('$'))
        rng = random.Random(7)
        for trial in range(400):
            val = {n: (rng.randrange(1, 41) if n == 'tsz' else rng.randrange(0, 70)) for n in names}
            if trial < 41 * 2 and len(names) == 2 and 'tsz' in names:
                other = [n for n in names if n != 'tsz'][0]
                val = {'tsz': trial % 41, other: 17 + trial // 41 * 16}
            pos = 0
            for it in items:
                reps = [None]
                if it[0] == 'loop':
                    reps = range(eval_nat(it[2], val))
                for i in reps:
                    c = it[3][0] if it[0] == 'loop' else it
                    v2 = dict(val)
                    if it[0] == 'loop':
                        v2[it[1]] = i
                    s, d, n = eval_nat(c[1].boff, v2), eval_nat(c[2].boff, v2), eval_nat(c[3], v2)
                    if n and (s != pos or d != pos):
                        raise self.bad(f'numeric cross-check of the byte copies failed at {val}')
                    pos += n
            if pos != eval_nat(count, val) * val.get('tsz', 1):
                raise self.bad(f'numeric cross-check of the byte copies failed at {val}')


def binds_name(stmts, name):
    """does a statement list (re)bind or assign the local `name`?"""
    for st in stmts:
        if st[0] == 'let' and st[1] == name:
            return True
        if st[0] == 'assign' and unparen(st[1]) == ('path', [name]):
            return True
        if st[0] == 'for' and (st[1] == name or binds_name(st[4], name)):
            return True
        if st[0] == 'while' and binds_name(st[2], name):
            return True
        if st[0] == 'block' and binds_name(st[1], name):
            return True
        if st[0] == 'if' and (binds_name(st[2], name) or binds_name(st[3] or [], name)):
            return True
        if st[0] == 'match':
            return True
    return False


def paren(s):
    return f'({s})' if (' ' in s and not (s.startswith('{') and s.endswith('}'))) else s


def mk_slice(l, lo, n):
    if lo == lit(0):
        return ('take', l, n)
    return ('slice', l, lo, n)


def mk_if(c, t, e):
    if c[0] == 'true':
        return t
    if c[0] == 'false':
        return e
    return ('if', c, t, e)


# ----------------------------------------------------------------------------------------------
# trees -> Lean text
# ----------------------------------------------------------------------------------------------
def emit(tree, ind):
    pad = '  ' * ind
    t = tree[0]
    if t == 'leaf':
        return [pad + tree[1]]
    if t == 'guard':
        if tree[1][0] == 'cmp' and tree[1][1] == '<' and tree[1][3] == lit(0):
            return emit(tree[3], ind)             # `x < 0` on a usize
        return [pad + f'if {render(tree[1])} then {tree[2]} else'] + emit(tree[3], ind)
    if t == 'if':
        return [pad + f'if {render(tree[1])} then'] + emit(tree[2], ind + 1) + [pad + 'else'] + emit(tree[3], ind + 1)
    if t == 'bind':
        return [pad + f'match {tree[1]} with', pad + '| .err => .err', pad + '| .panic => .panic', pad + '| .ub => .ub',
                pad + f'| .ok {tree[2]} =>'] + emit(tree[3], ind + 1)
    if t == 'elem':
        return [pad + f'match {render(tree[1], 100)}[{render(tree[2])}]? with', pad + f'| none => {tree[4]}',
                pad + f'| some {tree[3]} =>'] + emit(tree[5], ind + 1)
    raise Unsupported('internal: tree node ' + t)


def camel(name):
    return ''.join(w[:1].upper() + w[1:] for w in name.split('_'))


REQUIRED = ['push', 'first', 'last', 'tail', 'size', 'get_slice']
DEFAULTS = ['empty', 'filled', 'arr', 'slice', 'vec']
RET = {'': 'St α', 'Self': 'St α', 'usize': 'Nat', 'bool': 'Bool', '&[T]': 'List α', 'Result<T,String>': 'α',
       'Result<&[T],String>': 'List α', 'Result<Vec<T>,String>': 'List α'}


class Callee:
    def __init__(self, lean, fn):
        self.lean, self.fn, self.uses_tsz = lean, fn, False


class Trait:
    """storage.rs: trait WindowStorage<T>"""
    def __init__(self, repo):
        f = 'storage.rs'
        src = clean((repo / (W + f)).read_text())
        its = items(src)
        if [k for k, h, b in its] != ['trait'] or not re.match(r'trait WindowStorage<T>', its[0][1]):
            raise Unsupported(f + ': expected exactly `trait WindowStorage<T>`')
        fns, decls = fns_of(its[0][2], f)
        self.defaults = {fn.name: fn for fn in fns}
        self.required = []
        for h in decls:
            m = re.match(r'fn (\w+)', h)
            self.required.append(m.group(1))
        if sorted(self.required) != sorted(REQUIRED) or sorted(self.defaults) != sorted(DEFAULTS):
            raise Unsupported(f'{f}: trait methods changed: required {self.required}, provided {sorted(self.defaults)}')
        sigs = {'empty': ('ref', [], 'bool'), 'filled': ('ref', [], 'bool'), 'slice': ('ref', [], 'Result<&[T],String>'),
                'vec': ('ref', [], 'Result<Vec<T>,String>'), 'arr': ('ref', [], 'Result<[T;S],String>')}
        for n, fn in self.defaults.items():
            if (fn.recv, fn.params, fn.ret) != sigs[n]:
                raise Unsupported(f'{f}::{n}: signature changed')
        if self.defaults['arr'].generics.replace(' ', '') != '<constS:usize>':
            raise Unsupported(f'{f}::arr: generics {self.defaults["arr"].generics}')
        want = {'push': ('mut', [('value', 'T')], ''), 'first': ('ref', [], 'Result<T,String>'),
                'last': ('ref', [], 'Result<T,String>'), 'tail': ('ref', [], 'usize'), 'size': ('ref', [], 'usize'),
                'get_slice': ('ref', [], '&[T]')}
        self.sigs = dict(want)
        self.sigs.update(sigs)


class Storage:
    def __init__(self, prefix, rust, file, text, trait):
        self.prefix, self.rust, self.file, self.trait = prefix, rust, file, trait
        self.out, self.done, self.busy = [], {}, set()
        src = clean(text)
        self.inherent, self.impl = {}, {}
        self.str_consts = re.findall(r"\bconst (\w+)\s*:\s*&(?:'static\s+)?str\s*=", src)
        its = items(src)
        structs = [(h, b) for kw, h, b in its if kw == 'struct']
        if len(structs) != 1 or not re.match(r'struct ' + rust + r'\b', structs[0][0]):
            raise Unsupported(f'{file}: expected exactly one struct, {rust}')
        self.parse_struct(*structs[0])
        for kw, h, b in its:
            if kw == 'struct':
                continue
            elif kw == 'impl':
                rest = h[4:].strip()
                gen = ''
                if rest.startswith('<'):
                    depth, j = 0, 0
                    while True:
                        depth += (rest[j] == '<') - (rest[j] == '>')
                        j += 1
                        if depth == 0:
                            break
                    gen, rest = rest[:j], rest[j:].strip()
                rest = re.split(r'\bwhere\b', rest)[0].strip()
                tr_name = None
                if ' for ' in rest:
                    tr_name, rest = [x.strip() for x in rest.split(' for ', 1)]
                if not re.match(rust + r'\b', rest):
                    raise Unsupported(f'{file}: impl for `{rest}`')
                fns, decls = fns_of(b, file)
                if tr_name is None:
                    target = self.inherent
                elif tr_name == 'WindowStorage<T>':
                    target = self.impl
                elif tr_name == 'Default':
                    if [f.name for f in fns] != ['default'] or ' '.join(fns[0].body.split()) != 'Self::new()':
                        raise Unsupported(f'{file}: impl Default is not `Self::new()`')
                    continue
                else:
                    raise Unsupported(f'{file}: impl of trait {tr_name}')
                self.check_generics(gen, rest)
                for fn in fns:
                    if fn.name in target:
                        raise Unsupported(f'{file}: two functions named {fn.name}')
                    target[fn.name] = fn
            else:
                raise Unsupported(f'{file}: unexpected top-level `{kw}`: {h[:50]}')
        for n in REQUIRED:
            if n not in self.impl:
                raise Unsupported(f'{file}: impl WindowStorage lacks {n}')
        for n, fn in self.impl.items():
            if n not in trait.sigs:
                raise Unsupported(f'{file}: impl WindowStorage has unknown method {n}')
            if (fn.recv, fn.params, fn.ret) != trait.sigs[n]:
                raise Unsupported(f'{file}::{n}: signature differs from the trait')
        if 'new' not in self.inherent or self.inherent['new'].recv is not None or self.inherent['new'].ret != 'Self':
            raise Unsupported(f'{file}: inherent fn new() -> Self not found')

    def parse_struct(self, header, body):
        self.consts = re.findall(r'const (\w+)\s*:\s*usize', header)
        self.fmap, self.cap_const = {}, None
        for item in split_top(body):
            m = re.fullmatch(r'(?:pub(?:\([^)]*\))?\s+)?(\w+)\s*:\s*(.+)', item)
            if not m:
                raise Unsupported(f'{self.file}: struct field `{item}`')
            name, ty = m.group(1), m.group(2).replace(' ', '')
            ma = re.fullmatch(r'\[T;(\w+)\]', ty)
            if ma and ma.group(1) in self.consts:          # the buffer is known by its type, whatever it is called
                self.fmap[name], self.cap_const = 'buf', ma.group(1)
            elif ty == 'Vec<T>':
                self.fmap[name] = 'buf'
            elif ty == 'usize' and name in ('size', 'head', 'tail'):
                self.fmap[name] = name
            elif ty == 'usize' and name == 'capacity':
                self.fmap[name] = 'cap'
            else:
                raise Unsupported(f'{self.file}: struct field `{item}` is outside the modelled state')
        have = sorted(self.fmap.values())
        if self.cap_const:
            if have != ['buf', 'head', 'size', 'tail'] or len(self.consts) != 2:
                raise Unsupported(f'{self.file}: array storage with fields {sorted(self.fmap)} / consts {self.consts}')
        elif have != ['buf', 'cap', 'head', 'size', 'tail'] or self.consts:
            raise Unsupported(f'{self.file}: vector storage with fields {sorted(self.fmap)}')

    def check_generics(self, gen, ty):
        """the impl's const parameters are the struct's, in the same order"""
        consts = re.findall(r'const (\w+)\s*:\s*usize', gen)
        args = re.match(r'\w+\s*<([^>]*)>', ty)
        args = [a.strip() for a in args.group(1).split(',')] if args else []
        if consts != self.consts or args != ['T'] + consts:
            raise Unsupported(f'{self.file}: impl generics {gen} for {ty} do not repeat the struct\'s parameters')

    # -- names --------------------------------------------------------------------------------
    def field(self, rust_name, tr):
        if rust_name not in self.fmap:
            raise tr.bad('unknown field self.' + rust_name)
        return self.fmap[rust_name]

    def const(self, n, tr, env):
        if n in self.consts:
            if tr.fn.name == 'new' and tr.fn.recv is None:
                return ('v', n)
            if n == self.cap_const and env.base is not None:
                return env.fields['cap']
            raise tr.bad(f'const parameter {n} used in a method (only {self.cap_const} is carried in the state)')
        if n == 'S' and tr.fn.name == 'arr':
            return ('v', 'S')
        return None

    def lean_name(self, kind, name):
        suffix = 'Inherent' if kind == 'inherent' and name in self.trait.sigs else ''
        return self.prefix + camel(name) + suffix

    def resolve(self, name, from_default, tr):
        if not from_default and name in self.inherent:
            return self.gen('inherent', name)
        if name in self.impl:
            return self.gen('impl', name)
        if name in self.trait.defaults:
            return self.gen('default', name)
        raise tr.bad('call of unknown method ' + name)

    def trait_method(self, name):
        return self.gen('impl', name) if name in self.impl else self.gen('default', name)

    # -- one function ---------------------------------------------------------------------------
    def gen(self, kind, name):
        key = (kind, name)
        if key in self.done:
            return self.done[key]
        if key in self.busy:
            raise Unsupported(f'{self.file}: recursive call of {name}')
        self.busy.add(key)
        fn = {'inherent': self.inherent, 'impl': self.impl, 'default': self.trait.defaults}[kind][name]
        callee = Callee(self.lean_name(kind, name), fn)
        tr = Tr(self, fn, kind == 'default')
        scope = {}
        for pn, ty in fn.params:
            if ty == 'usize':
                scope[pn] = V('nat', ('v', pn))
            elif ty == 'T':
                scope[pn] = V('elem', ('v', pn))
            else:
                raise tr.bad(f'parameter {pn}: {ty}')
        env = Env('self', Env.fresh('self'), [scope]) if fn.recv else Env(None, {}, [scope])
        tree = tr.block(parse_body(fn.body, tr.where), env, tr.ret)
        callee.uses_tsz = tr.uses_tsz
        is_new = fn.recv is None
        if is_new and name != 'new':
            raise tr.bad('associated function other than new')
        if fn.generics and name != 'arr':
            raise tr.bad('generic method')
        rty = 'List α' if name == 'arr' else RET.get(fn.ret)
        if rty is None:
            raise tr.bad('return type ' + fn.ret)
        sig = f'def {callee.lean}'
        if is_new:
            ps = self.consts if self.cap_const else [p for p, _ in fn.params]
            if len(ps) != 2:
                raise tr.bad('constructor with other than two size parameters')
            sig += f' ({" ".join(ps)} : Nat) (d : α)'
        else:
            if callee.uses_tsz:
                sig += ' (tsz : Nat)'
            sig += ' (self : St α)'
            for pn, ty in fn.params:
                sig += f' ({pn} : {"Nat" if ty == "usize" else "α"})'
            if name == 'arr':
                sig += ' (S : Nat) (d : α)'
        origin = {'inherent': f'{self.file} :: {self.rust}::{name}', 'impl': f'{self.file} :: <{self.rust} as WindowStorage>::{name}',
                  'default': f'storage.rs :: WindowStorage::{name} (default method) for {self.rust}'}[kind]
        self.out += [f'/-- {origin} -/', sig + f' : Out ({rty}) :='] + emit(tree, 1) + ['']
        self.busy.discard(key)
        self.done[key] = callee
        return callee


# ----------------------------------------------------------------------------------------------
# fixes/F1-window-vec.diff applied in memory: `vecFixed…` is storage_vec.rs as it would be after the repair
# ----------------------------------------------------------------------------------------------
def apply_diff(text, diff, what):
    """apply a unified diff to `text` (context matched by content, whitespace-normalised, unique match required; context
    may be dropped like patch's fuzz 0..2 or wholly on one side); a hunk that is already applied is skipped"""
    lines = text.split('\n')
    hunks, cur = [], None
    for l in diff.split('\n'):
        if l.startswith('@@'):
            cur = []
            hunks.append(cur)
        elif cur is not None and l[:1] in (' ', '+', '-'):
            cur.append((l[0], l[1:]))
        elif cur is not None and l == '':
            cur.append((' ', ''))
    if not hunks:
        raise Unsupported(what + ': no hunks')

    def norm(s):
        return ' '.join(s.split())

    def find(pat):
        pat = [norm(p) for p in pat]
        hits = [i for i in range(len(lines) - len(pat) + 1) if [norm(x) for x in lines[i:i + len(pat)]] == pat]
        return hits
    for h in hunks:
        while h and h[-1] == (' ', ''):
            h.pop()
        lead = 0
        while lead < len(h) and h[lead][0] == ' ':
            lead += 1
        trail = 0
        while trail < len(h) and h[-1 - trail][0] == ' ':
            trail += 1
        # context dropped from both ends like patch's fuzz 0..2, then from one end only (the other end kept whole)
        done = False
        for cut_lead, cut_trail in ((0, 0), (1, 1), (2, 2), (lead, 0), (0, trail)):
            hh = h[min(cut_lead, lead):len(h) - min(cut_trail, trail)]
            old = [t for k, t in hh if k in ' -']
            new = [t for k, t in hh if k in ' +']
            if not any(norm(t) for t in old):
                continue
            hits = find(old)
            if len(hits) == 1 and not find(new):
                i = hits[0]
                lines[i:i + len(old)] = new
                done = True
                break
            if len(find(new)) == 1 and len(hits) <= 1:
                done = True                      # already applied
                break
        if not done:
            raise Unsupported(what + ': hunk does not apply to the current source')
    return '\n'.join(lines)


# ----------------------------------------------------------------------------------------------
# mod.rs: SlidingWindow forwards 1:1, the constructors build the storages
# ----------------------------------------------------------------------------------------------
# forwarder -> (receiver, parameter types, return type); `arr` carries one const generic
WRAP = {'push': ('mut', ['T'], ''), 'first': ('ref', [], 'Result<T,String>'), 'last': ('ref', [], 'Result<T,String>'),
        'empty': ('ref', [], 'bool'), 'filled': ('ref', [], 'bool'), 'size': ('ref', [], 'usize'),
        'arr': ('ref', [], None), 'slice': ('ref', [], 'Result<&[T],String>'), 'vec': ('ref', [], 'Result<Vec<T>,String>')}
# spellings of the one value of type `PhantomData<T>`
PHANTOM = [('path', ['PhantomData']), ('path', ['PhantomData', '<>']), ('path', ['marker', 'PhantomData']),
           ('path', ['std', 'marker', 'PhantomData']), ('path', ['core', 'marker', 'PhantomData']),
           ('call', ('path', ['Default', 'default']), []), ('call', ('path', ['PhantomData', 'default']), [])]


def unparen(e):
    while e[0] == 'paren':
        e = e[1]
    return e


def single_value(body, where):
    """a body that is `[let x = e;]* value` / `return value;` / `value;` -> (lets, value expression)"""
    stmts = [st for st in parse_body(body, where) if st[0] != 'nop']
    lets = {}
    while stmts and stmts[0][0] == 'let':
        lets[stmts[0][1]] = stmts[0][2]
        stmts = stmts[1:]
    if len(stmts) != 1 or stmts[0][0] not in ('tail', 'expr', 'return') or stmts[0][1] is None:
        raise Unsupported(f'{where}: body is not a single expression')
    return lets, unparen(stmts[0][1])


def expand_uses(src):
    """`use a::b::{c, d::e};` -> {last segment: full path} (nested braces expanded, `as` / globs refused where met)"""
    out = {}

    def expand(prefix, text):
        text = text.strip()
        m = re.fullmatch(r'((?:\w+\s*::\s*)*)\{(.*)\}', text, flags=re.S)
        if m:
            pre = prefix + [x for x in re.split(r'\s*::\s*', m.group(1)) if x]
            for part in split_top(m.group(2)):
                expand(pre, part)
            return
        if not re.fullmatch(r'\w+(\s*::\s*\w+)*', text):
            return                                  # `as` renames, globs: never a storage we look for by its own name
        segs = prefix + re.split(r'\s*::\s*', text)
        out.setdefault(segs[-1], set()).add('::'.join(segs))
    for m in re.finditer(r'\buse\s+([^;]+);', src):
        expand([], m.group(1))
    return out


def check_mod(repo, storages):
    """mod.rs: `SlidingWindow` holds the storage and a `PhantomData`, `with_storage` stores its argument, every public
    method forwards its arguments in order to the storage method of the same name (in however many `impl` blocks),
    and each `new_with_*_storage` wraps `<Storage>::new(..)`.  Returns {kind: constructor argument order}."""
    f = 'mod.rs'
    src = clean((repo / (W + f)).read_text())
    its = items(src)
    structs = [(h, b) for kw, h, b in its if kw == 'struct' and re.match(r'struct SlidingWindow\b', h)]
    if len(structs) != 1:
        raise Unsupported(f'{f}: expected exactly one struct SlidingWindow')
    mh = re.match(r'struct SlidingWindow\s*<\s*(\w+)\s*,\s*(\w+)\s*>', structs[0][0])
    if not mh:
        raise Unsupported(f'{f}: struct SlidingWindow changed: {structs[0][0]}')
    storage_field = None
    fields = {}
    for item in split_top(structs[0][1]):
        m = re.fullmatch(r'(?:pub(?:\([^)]*\))?\s+)?(\w+)\s*:\s*(.+)', item)
        if not m:
            raise Unsupported(f'{f}: struct SlidingWindow: field `{item}`')
        fields[m.group(1)] = m.group(2).replace(' ', '')
    sg = [n for n, ty in fields.items() if ty in mh.groups()]
    ph = [n for n, ty in fields.items() if re.fullmatch(r'(?:(?:std|core)::)?(?:marker::)?PhantomData<\w+>', ty)]
    if len(fields) != 2 or len(sg) != 1 or len(ph) != 1:
        raise Unsupported(f'{f}: struct SlidingWindow is not (storage, PhantomData): {fields}')
    storage_field, phantom_field, storage_generic = sg[0], ph[0], fields[sg[0]]
    if not re.search(r'\b' + storage_generic + r'\s*:\s*WindowStorage<', structs[0][0]):
        raise Unsupported(f'{f}: struct SlidingWindow: the storage parameter is not bound by WindowStorage')

    wrapper = {}
    for kw, h, b in its:
        if kw == 'impl' and ' for ' not in re.split(r'\bwhere\b', h)[0] and re.search(r'>\s*SlidingWindow\s*<', h):
            for fn in fns_of(b, f)[0]:
                if fn.name in wrapper:
                    raise Unsupported(f'{f}: two methods named {fn.name}')
                wrapper[fn.name] = fn
    if sorted(wrapper) != sorted(list(WRAP) + ['with_storage']):
        raise Unsupported(f'{f}: methods of SlidingWindow: {sorted(wrapper)}')
    for n, (recv, ptys, ret) in WRAP.items():
        fn = wrapper[n]
        where = f'{f}::SlidingWindow::{n}'
        ok = fn.recv == recv and [ty for _, ty in fn.params] == ptys
        const = None
        if n == 'arr':
            mg = re.fullmatch(r'<const(\w+):usize>', fn.generics.replace(' ', ''))
            const = mg.group(1) if mg else None
            ok = ok and const is not None and fn.ret == f'Result<[T;{const}],String>'
        else:
            ok = ok and not fn.generics and fn.ret == ret
        if not ok:
            raise Unsupported(f'{where}: signature changed')
        lets, e = single_value(fn.body, where)
        want_args = [('path', [pn]) for pn, _ in fn.params]
        if lets or e[0] != 'mcall' or e[1] != ('field', ('path', ['self']), storage_field) or e[2] != n or \
                [unparen(x) for x in e[3]] != want_args or (len(e) > 4 and e[4] != const):
            raise Unsupported(f'{where} is not the plain forwarder `self.{storage_field}.{n}(..)`')
    fn = wrapper['with_storage']
    where = f'{f}::SlidingWindow::with_storage'
    if fn.recv is not None or len(fn.params) != 1 or fn.params[0][1] != storage_generic or fn.generics or \
            not re.fullmatch(r'Self|SlidingWindow<\w+,\w+>', fn.ret):
        raise Unsupported(f'{where}: signature changed')
    lets, e = single_value(fn.body, where)
    if lets or e[0] != 'struct' or e[1] not in ('Self', 'SlidingWindow') or sorted(n for n, _ in e[2]) != sorted(fields):
        raise Unsupported(f'{where} changed: not a struct literal of SlidingWindow')
    init = {n: unparen(x) for n, x in e[2]}
    if init[storage_field] != ('path', [fn.params[0][0]]) or init[phantom_field] not in PHANTOM:
        raise Unsupported(f'{where} changed: the storage is not stored as passed / the marker is not a PhantomData')

    uses = expand_uses(src)
    pre = expand_uses(clean((repo / 'dcl_data_structures/src/prelude.rs').read_text()))
    ctors = {}
    for kind, fname in (('arr', 'new_with_array_storage'), ('vec', 'new_with_vector_storage'),
                        ('uarr', 'new_with_unsafe_array_storage'), ('uvec', 'new_with_unsafe_vector_storage')):
        st = storages[kind]
        # the storage's name in mod.rs must be the struct of the file that was translated
        home = 'crate::window_type::' + st.file[:-3].replace('/', '::') + '::' + st.rust
        got = set(uses.get(st.rust, ()))
        if got == {'crate::prelude::' + st.rust}:
            got = set(pre.get(st.rust, ()))
        if got != {home}:
            raise Unsupported(f'{f}: `{st.rust}` is not imported from {home} (found {sorted(got)})')
        fn = None
        for kw, h, b in its:
            if kw == 'fn' and re.match(r'fn ' + fname + r'\b', h):
                fn = Fn(h, b, f)
        if fn is None:
            raise Unsupported(f'{f}: {fname} not found')
        where = f'{f}::{fname}'
        lets, e = single_value(fn.body, where)
        for _ in range(len(lets) + 1):           # values through locals
            if e[0] == 'call' and len(e[2]) == 1 and unparen(e[2][0])[0] == 'path' and len(unparen(e[2][0])[1]) == 1 \
                    and unparen(e[2][0])[1][0] in lets:
                e = ('call', e[1], [unparen(lets[unparen(e[2][0])[1][0]])])
        if e[0] != 'call' or e[1] != ('path', ['SlidingWindow', 'with_storage']) or len(e[2]) != 1:
            raise Unsupported(f'{where} does not end in SlidingWindow::with_storage(..)')
        inner = unparen(e[2][0])
        if inner[0] != 'call' or inner[1] != ('path', [st.rust, 'new']):
            raise Unsupported(f'{where} does not pass `{st.rust}::new(..)` to with_storage')
        args = [unparen(x) for x in inner[2]]
        if st.cap_const:
            consts = re.findall(r'const (\w+)\s*:\s*usize', fn.generics)
            want_ret = f'SlidingWindow<{st.rust}<T,{",".join(consts)}>,T>'
            if fn.params or len(consts) != 2 or fn.ret != want_ret or args:
                raise Unsupported(f'{where} does not build `{st.rust}<T, …>` from its const parameters')
            ctors[kind] = [0, 1]
        else:
            ps = [p for p, ty in fn.params]
            names = [x[1][0] if x[0] == 'path' and len(x[1]) == 1 else None for x in args]
            if len(ps) != 2 or sorted(ps) != sorted(n or '' for n in names) or set(ps) & set(lets) or \
                    [ty for _, ty in fn.params] != ['usize', 'usize'] or fn.ret != f'SlidingWindow<{st.rust}<T>,T>':
                raise Unsupported(f'{where} not recognised')
            ctors[kind] = [ps.index(names[0]), ps.index(names[1])]
    ws = set(uses.get('WindowStorage', ()))
    if ws == {'crate::prelude::WindowStorage'}:
        ws = set(pre.get('WindowStorage', ()))
    if ws != {'crate::window_type::storage::WindowStorage'}:
        raise Unsupported(f'{f}: `WindowStorage` is not imported from crate::window_type::storage')
    return ctors


# ----------------------------------------------------------------------------------------------
KINDS = [('arr', 'ArrayStorage', 'storage_safe/storage_array.rs'),
         ('vec', 'VectorStorage', 'storage_safe/storage_vec.rs'),
         ('uarr', 'UnsafeArrayStorage', 'storage_unsafe/unsafe_storage_array.rs'),
         ('uvec', 'UnsafeVectorStorage', 'storage_unsafe/unsafe_storage_vec.rs')]
FIX = 'fixes/F1-window-vec.diff'

DISPATCH = [  # name, trait method, extra binders, extra args, result type
    ('push', 'push', ' (value : α)', ' value', 'St α'),
    ('first', 'first', '', '', 'α'), ('last', 'last', '', '', 'α'), ('size', 'size', '', '', 'Nat'),
    ('empty', 'empty', '', '', 'Bool'), ('filled', 'filled', '', '', 'Bool'), ('slice', 'slice', '', '', 'List α'),
    ('vec', 'vec', '', '', 'List α'), ('arr', 'arr', ' (S : Nat) (d : α)', ' S d', 'List α')]


def gen_window(repo):
    trait = Trait(repo)
    storages = {}
    for prefix, rust, file in KINDS:
        storages[prefix] = Storage(prefix, rust, file, (repo / (W + file)).read_text(), trait)
    vec_file = KINDS[1][2]
    fixed_text = apply_diff((repo / (W + vec_file)).read_text(), (VERIF / FIX).read_text(), FIX)
    storages['vecFixed'] = Storage('vecFixed', 'VectorStorage', vec_file + ' + ' + FIX, fixed_text, trait)
    ctors = check_mod(repo, storages)
    ctors['vecFixed'] = ctors['vec']
    out = ['-- GENERATED by /verif/tools/rs2lean.py window from /repo — do not edit, regenerated on every check run',
           'import DcVerif.Model.WindowPrim',
           '/-! The four storages behind `SlidingWindow` (dcl_data_structures/src/window_type/**), one definition per Rust',
           'function, obtained by symbolic execution of the function bodies (tools/rs2lean_window.py). State: `Model.Window.St`',
           '(`arr`/`vec` -> `buf`, `capacity` / const `CAPACITY` -> `cap`); outcomes: `Model.Window.Out`. Guards appear in',
           'program order: `.panic` = bounds / overflow / assert check fails, `.ub` = precondition of an unchecked operation',
           'violated, `.err` = `Err(_)`. `tsz` = `size_of::<T>()`, `d` = `T::default()`. `vecFixed…` is storage_vec.rs with',
           f'{FIX} applied. -/',
           'set_option linter.unusedVariables false', 'namespace Gen.Window', 'open Model.Window', '', 'variable {α : Type}', '']
    table = {}
    for prefix, st in storages.items():
        out += [f'/-! ## {st.rust} ({st.file}) -/', '']
        names = {'new': st.gen('inherent', 'new')}
        for n in st.inherent:
            # private helpers are inlined wherever they are called; their stand-alone definitions are for the reader only
            # (no theorem and no other definition refers to them), so one that has no stand-alone form is just noted
            try:
                st.gen('inherent', n)
            except Unsupported as ex:
                if n == 'new':
                    raise
                st.busy.discard(('inherent', n))
                st.out += [f'-- {st.rust}::{n}: inlined at its call sites, no stand-alone definition ({ex})', '']
        for n in REQUIRED + DEFAULTS:
            names[n] = st.trait_method(n)
        out += st.out
        table[prefix] = names
    out += ['/-! ## mod.rs: which storage a `SlidingWindow` holds, and the forwarding methods -/', '',
            'inductive Kind where', '  | ' + ' | '.join(storages), 'deriving DecidableEq, Repr', '',
            '/-- `new_with_*_storage`: `a b` are SIZE CAPACITY for the array storages, size multiple for the vector storages -/',
            'def new (k : Kind) (a b : Nat) (d : α) : Out (St α) :=', '  match k with']
    for prefix in storages:
        args = ' '.join('ab'[i] for i in ctors[prefix])
        out.append(f'  | .{prefix} => {table[prefix]["new"].lean} {args} d')
    out.append('')
    for name, meth, binders, args, rty in DISPATCH:
        out += [f'/-- `SlidingWindow::{name}` -/',
                f'def {name} (k : Kind) (tsz : Nat) (self : St α){binders} : Out ({rty}) :=', '  match k with']
        for prefix in storages:
            c = table[prefix][meth]
            out.append(f'  | .{prefix} => {c.lean}{" tsz" if c.uses_tsz else ""} self{args}')
        out.append('')
    out += ['end Gen.Window', '']
    return '\n'.join(out)


def install(register):
    def guarded(repo):
        try:
            return gen_window(repo)
        except Unsupported:
            raise
        except RecursionError:
            raise Unsupported('window: source too deeply nested')
        except Exception as ex:      # noqa: BLE001
            raise Unsupported(f'window: internal {type(ex).__name__}: {ex}')
    register('window', 'Window.lean')(guarded)
