"""rs2lean generator `ugraphfns` (C08; shared by C09, C15): the wrapper code of `UltraMatrixGraph<T>` -> Gen/UGraphFns.lean.

Sources read (all from the *current* tree, `ultragraph/src/storage/matrix_graph/`):
    mod.rs               struct UltraMatrixGraph (fields identified by their *types*), the type aliases, new, new_with_capacity
    graph_like.rs        add_node contains_node get_node remove_node add_edge add_edge_with_weight contains_edge remove_edge
    graph_root.rs        add_root_node contains_root_node get_root_node get_root_index get_last_index
    graph_storage.rs     size is_empty number_nodes number_edges get_all_nodes get_all_edges clear
    graph_algorithms.rs  outgoing_edges shortest_path (the call of petgraph's `astar` becomes the parameter `astar`)

What is emitted: one Lean definition per Rust function, same name, in dependency order, as a `do` block in the `Option` monad
(`none` = the call panics). `&self` methods are `UGraph → args → Option R`, `&mut self` methods `UGraph → args → Option (UGraph × R)`
(the state as it stands when the function returns — also on the `Err` path), constructors `Option UGraph`.
The transcription is statement by statement, nothing is reordered or simplified:

    let [mut] x = e;              let [mut] x := e          (every effect inside `e` is hoisted in front, in evaluation order)
    x = e; x += e; self.f = e;    x := e;  self := { self with f := e }
    if / else if / else           if … then … else …        (as `do` elements: an early `return` leaves the function)
    if let P = e {..} else {..}   match e with | P => … | _ => …
    match e { P => .., … }        match e with | P => … (patterns: Some/None/Ok/Err/tuples/literals/_/binders)
    let P = e else { return r; }  let P := e | return r
    return e; / tail expression   return (self, e) / return e
    e?                            let some t := e | return none        (Option)   let Res.ok t := e | return Res.err   (Result)
    e.unwrap() / e.expect(..)     let t ← e                            (`none` = panic)
    for x in it { body }          (s…) ← forEach it (s…) (fun (s…) x => do body; pure (s…))   s… = the variables the body assigns
    a || b, a && b                `(a || b)`; when `b` has an effect: `let t ← if a then pure true else do b` (short circuit kept)
    self.public_fn(args)          let t ← public_fn self args          (`&mut self`: `let r ← …; self := r.1`, value `r.2`)
    self.private_fn(args) / f(..) inlined: `let r ← (do let (params) := (args); body)` — a `return` inside leaves only the helper
    assert!/debug_assert!(c)      assertThat c                         (debug assertions are on in the harness build)
    a - b                         let t ← checkedSub a b               (overflow checks are on: underflow = panic)
    Err(<payload>)                Res.err                              (payload must be free of effects; it is not modelled)

Vocabulary the definitions are written against (hand-written, `Model/UGraph.lean`; this is what is *assumed*):
    std / ahash   `AHashMap` as association list: get -> mGet, insert -> mInsert, remove -> mRemove, contains_key(k) -> (mGet m k).isSome,
                  (insert / remove used as a value: the previous value, `mGet` read before the update),
                  len -> length, is_empty -> isEmpty, clear / new / with_capacity / default -> [], values / keys / iter -> the list's
                  projections (iteration order = external nondeterminism, compared sorted by the harness);
                  `Vec`: new / with_capacity(n) (n is evaluated) -> [], push -> ++ [x], extend -> ++, len, iterator adaptors
                  iter / into_iter / copied / cloned / collect (identity), map, filter, count; `Option` / `Result` methods
                  is_some is_none is_ok is_err map and_then ok_or ok_or_else copied cloned as_ref unwrap_or ok
    petgraph      `MatrixGraph` (the field of that type): add_node -> petAddNode, add_edge -> petAddEdge, remove_edge -> petRemoveEdge,
                  remove_node -> petRemoveNode, has_edge -> hasCell, neighbors / neighbors_directed(_, Outgoing) -> rowOf,
                  neighbors_directed(_, Incoming) -> colOf, node_count -> petNodeCount, edge_count -> petEdgeCount, clear -> petClear,
                  MatrixGraph::default / new / with_capacity(c) -> petNew / petWithCapacity c; `NodeIndex::new(i)` and `.index()` are the
                  identity (indices below 2^indexBits, Gen/UGraphTypes.lean); the value returned by remove_edge / remove_node (the
                  weight) is not modelled — using it is refused; `astar(&graph, start, |f| f == goal, |e| *e.weight(), |_| 0)` is the
                  parameter `astar : UGraph → Nat → Nat → Option (Nat × List Nat)` applied to (self, start, goal).
Values of type `T`, `usize`, `u64`, `NodeIndex` are `Nat` (no overflow of `+`: values < 2^64, DESIGN §3).

Fail closed: anything outside this grammar raises Unsupported (loops other than `for` over a list, `return` / `?` inside a loop body,
closures with effects, unknown methods / paths / macros, or-patterns, match guards, labelled breaks, nested functions, generics on
a method, a second `impl` target, a field of unknown type, an overridden name, recursion among the translated functions …).
"""
import re
from rsexpr import Unsupported, tokenize, strip_comments
from rsblock import BlockParser, fn_items, split_top

DIR = 'ultragraph/src/storage/matrix_graph/'
FILES = ['mod.rs', 'graph_like.rs', 'graph_root.rs', 'graph_storage.rs', 'graph_algorithms.rs']
STRUCT = 'UltraMatrixGraph'
ROOTS = ['new', 'new_with_capacity',
         'add_node', 'contains_node', 'get_node', 'remove_node', 'add_edge', 'add_edge_with_weight', 'contains_edge', 'remove_edge',
         'add_root_node', 'contains_root_node', 'get_root_node', 'get_root_index', 'get_last_index',
         'size', 'is_empty', 'number_nodes', 'number_edges', 'get_all_nodes', 'get_all_edges', 'clear',
         'outgoing_edges', 'shortest_path']

HEADER = ("-- GENERATED by /verif/tools/rs2lean.py ugraphfns from /repo — do not edit, regenerated on every check run\n"
          "import DcVerif.Model.UGraph\n"
          "/-! `ultragraph/src/storage/matrix_graph/*.rs`, function by function, statement by statement, as `do` blocks in the `Option`\n"
          "monad (`none` = the call panics) over the vocabulary of `Model/UGraph.lean` (association lists for the hash maps, the assumed\n"
          "petgraph operations `pet…`, `hasCell`, `rowOf`, `colOf`). Nothing is normalised: the order of statements, operands, map updates\n"
          "and guards is the source's. `Props/C08Gen.lean` proves each definition equal to the hand-written model. -/\n"
          "set_option linter.unusedVariables false\n"
          "namespace Gen.UGraphFns\n"
          "open Model Model.UGraph\n")

LEAN_KEYWORDS = {'at', 'from', 'end', 'in', 'do', 'then', 'else', 'if', 'let', 'have', 'show', 'fun', 'by', 'with', 'match', 'def',
                 'theorem', 'where', 'open', 'namespace', 'section', 'structure', 'instance', 'class', 'Type', 'Prop', 'Sort',
                 'return', 'for', 'mut', 'import', 'deriving', 'example', 'variable', 'universe', 'abbrev', 'inductive', 'using',
                 'calc', 'suffices', 'obtain', 'forall', 'exists', 'macro', 'syntax', 'unless', 'try', 'catch', 'finally', 'break',
                 'continue', 'pure', 'some', 'none', 'true', 'false', 'not', 'id', 'fst', 'snd'}
VOCAB = {'mGet', 'mInsert', 'mRemove', 'hasCell', 'rowOf', 'colOf', 'petAddNode', 'petAddEdge', 'petRemoveEdge', 'petRemoveNode',
         'petNodeCount', 'petEdgeCount', 'petClear', 'petNew', 'petWithCapacity', 'forEach', 'assertThat', 'checkedSub', 'okOr',
         'Res', 'UGraph', 'Nat', 'Bool', 'List', 'Option', 'Unit', 'decide', 'astar', 'self', 'Model', 'Gen', 'init'}

# ----------------------------------------------------------------------------------------------
# types of the translated fragment
# ----------------------------------------------------------------------------------------------
NAT, BOOL, UNIT, ANY, STR, ERR, SELF, GRAPH = ('nat',), ('bool',), ('unit',), ('any',), ('str',), ('err',), ('self',), ('graph',)


def opt(t):
    return ('opt', t)


def res(t):
    return ('res', t)


def lst(t):
    return ('list', t)


def tup(ts):
    return ('tup', tuple(ts))


def lean_ty(t):
    k = t[0]
    if k == 'nat':
        return 'Nat'
    if k == 'bool':
        return 'Bool'
    if k == 'unit':
        return 'Unit'
    if k == 'self':
        return 'UGraph'
    if k == 'opt':
        return f'(Option {lean_ty(t[1])})'
    if k == 'res':
        return f'(Res {lean_ty(t[1])})'
    if k == 'list':
        return f'(List {lean_ty(t[1])})'
    if k == 'tup':
        return '(' + ' × '.join(lean_ty(x) for x in t[1]) + ')'
    raise Unsupported(f'type {t} has no Lean rendering')


def clean(src):
    """comments out, string literals -> __str, char literals -> __chr, lifetimes out"""
    src = strip_comments(src)
    src = re.sub(r'"(?:[^"\\]|\\.)*"', '__str', src)
    src = re.sub(r"'(?:\\.[^']*|[^\\'])'", '__chr', src)
    return re.sub(r"'[A-Za-z_]\w*", '', src)


class TypeParser:
    """Rust type text -> type of the fragment"""

    def __init__(self, gen):
        self.g = gen

    def parse(self, text, where):
        toks = tokenize(text)
        self.t, self.i, self.where = toks, 0, where
        ty = self.ty()
        if self.i != len(self.t):
            raise Unsupported(f'{where}: type `{text}`')
        return ty

    def peek(self):
        return self.t[self.i][1] if self.i < len(self.t) else ''

    def next(self):
        v = self.peek()
        self.i += 1
        return v

    def expect(self, v):
        if self.next() != v:
            raise Unsupported(f'{self.where}: type syntax')

    def generic_args(self):
        args = []
        self.expect('<')
        while self.peek() not in ('>', '>>'):
            args.append(self.ty())
            if self.peek() == ',':
                self.next()
        if self.peek() == '>>':           # split `>>`
            self.t[self.i] = ('op', '>')
        else:
            self.next()
        return args

    def ty(self):
        v = self.next()
        if v == '&':
            if self.peek() == 'mut':
                self.next()
            return self.ty()
        if v == '(':
            items = []
            while self.peek() != ')':
                items.append(self.ty())
                if self.peek() == ',':
                    self.next()
            self.next()
            if not items:
                return UNIT
            return items[0] if len(items) == 1 else tup(items)
        path = [v]
        while self.peek() == '::':
            self.next()
            path.append(self.next())
        name = path[-1]
        args = self.generic_args() if self.peek() == '<' else []
        return self.named(name, args)

    def named(self, name, args):
        g = self.g
        if name in ('usize', 'u64', 'u32', 'u16', 'u8') or name in g.generics:
            return NAT
        if name in ('NodeIndex', 'GraphNodeIndex'):
            return NAT
        if name == 'bool':
            return BOOL
        if name in ('Self', STRUCT):
            return SELF
        if name == 'Option' and len(args) == 1:
            return opt(args[0])
        if name == 'Result' and len(args) == 2 and args[1] == ERR:
            return res(args[0])
        if name in ('Vec', 'IntoIter') and len(args) == 1:
            return lst(args[0])
        if name == 'UltraGraphError':
            return ERR
        if name in ('String', 'str'):
            return STR
        if name in g.aliases:
            return g.aliases[name]
        raise Unsupported(f'{self.where}: type {name}')


# ----------------------------------------------------------------------------------------------
# parser: rsblock's + closures, `if let`, structured match patterns, let-else, compound assignment
# ----------------------------------------------------------------------------------------------
class UParser(BlockParser):
    def atom(self):
        kind, v = self.peek()
        if kind == 'id' and v == 'move' and self.peek(1)[1] in ('|', '||'):
            self.next()
            kind, v = self.peek()
        if kind == 'op' and v in ('|', '||'):
            return self.closure()
        return super().atom()

    def closure(self):
        pats = []
        if self.next()[1] == '|':
            while self.peek()[1] != '|':
                pats.append(self.pat())
                if self.peek()[1] == ':':
                    self.next()
                    self.type_text((',', '|'))
                if self.peek()[1] == ',':
                    self.next()
                elif self.peek()[1] != '|':
                    raise Unsupported('closure parameter list')
            self.next()
        if self.peek()[1] == '->':
            raise Unsupported('closure with a return type')
        saved, self.no_struct = self.no_struct, 0
        body = self.expr()
        self.no_struct = saved
        return ('closure', pats, body)

    def pat(self):
        kind, v = self.next()
        if v in ('&', 'mut', 'ref'):
            return self.pat()
        if v == '_':
            return ('pwild',)
        if kind == 'num':
            return ('plit', str(int(re.sub(r'(u|i)(8|16|32|64|128|size)$', '', v).replace('_', ''))))
        if v == '(':
            items = self.pat_list(')')
            return items[0] if len(items) == 1 else ('ptuple', items)
        if kind == 'id':
            path = [v]
            while self.peek()[1] == '::':
                self.next()
                path.append(self.next()[1])
            if self.peek()[1] == '(':
                self.next()
                return ('pctor', path[-1], self.pat_list(')'))
            if self.peek()[1] == '{':
                raise Unsupported('struct pattern')
            if len(path) == 1 and v in ('true', 'false'):
                return ('plit', v)
            if len(path) == 1 and not v[:1].isupper():
                if self.peek()[1] == '@':
                    raise Unsupported('binding pattern @')
                return ('pid', v)
            return ('pctor', path[-1], [])
        raise Unsupported('pattern: unexpected token ' + v)

    def pat_list(self, close):
        items = []
        while self.peek()[1] != close:
            items.append(self.pat())
            if self.peek()[1] == ',':
                self.next()
            elif self.peek()[1] != close:
                raise Unsupported('pattern: unexpected token ' + self.peek()[1])
        self.next()
        return items

    def if_expr(self):
        self.expect('if')
        if self.peek()[1] == 'let':
            self.next()
            p = self.pat()
            if self.peek()[1] == '|':
                raise Unsupported('or-pattern')
            self.expect('=')
            scrut = self.head_expr()
            then = self.block()
            els = None
            if self.peek()[1] == 'else':
                self.next()
                els = self.if_expr() if self.peek()[1] == 'if' else self.block()
            return ('iflet', p, scrut, then, els)
        cond = self.head_expr()
        then = self.block()
        els = None
        if self.peek()[1] == 'else':
            self.next()
            els = self.if_expr() if self.peek()[1] == 'if' else self.block()
        return ('if', cond, then, els)

    def match_expr(self):
        self.expect('match')
        scrut = self.head_expr()
        self.expect('{')
        arms = []
        while self.peek()[1] != '}':
            if self.peek()[1] == '|':
                raise Unsupported('or-pattern')
            p = self.pat()
            if self.peek()[1] == '|':
                raise Unsupported('or-pattern')
            if self.peek()[1] == 'if':
                raise Unsupported('match guard')
            self.expect('=>')
            saved, self.no_struct = self.no_struct, 0
            body = self.expr()
            self.no_struct = saved
            arms.append((p, body))
            if self.peek()[1] == ',':
                self.next()
            elif self.peek()[1] != '}' and body[0] not in ('block', 'if', 'iflet', 'match', 'unsafe'):
                raise Unsupported('match arm not terminated by `,`')
        self.expect('}')
        return ('match', scrut, arms)

    def block(self):
        self.expect('{')
        saved, self.no_struct = self.no_struct, 0
        stmts, tail = [], None
        while self.peek()[1] != '}':
            if tail is not None:
                raise Unsupported('expression without `;` in the middle of a block')
            self.skip_attrs()
            kind, v = self.peek()
            if kind == 'eof':
                raise Unsupported('unterminated block')
            if v == ';':
                self.next()
            elif v == 'let':
                self.next()
                mut = self.peek()[1] == 'mut'
                p = self.pat()
                ty = None
                if self.peek()[1] == ':':
                    self.next()
                    ty = self.type_text(('=', ';'))
                if self.peek()[1] != '=':
                    raise Unsupported('let without initialiser')
                self.next()
                rhs = self.expr()
                if self.peek()[1] == 'else':
                    self.next()
                    alt = self.block()
                    self.expect(';')
                    stmts.append(('letelse', p, rhs, alt))
                    continue
                self.expect(';')
                stmts.append(('let', p, mut, ty, rhs))
            elif v == 'for':
                self.next()
                p = self.pat()
                self.expect('in')
                it = self.head_expr()
                stmts.append(('for', p, it, self.block()))
            elif v == 'return':
                self.next()
                e = None if self.peek()[1] in (';', '}') else self.expr()
                if self.peek()[1] == ';':
                    self.next()
                stmts.append(('return', e))
            elif v in ('while', 'loop', 'fn', 'struct', 'use', 'const', 'static', 'impl', 'break', 'continue', 'enum', 'type',
                       'trait', 'mod'):
                raise Unsupported(f'`{v}` statement')
            elif v in ('if', 'match', 'unsafe', '{'):
                e = self.atom()
                if self.peek()[1] == '}':
                    tail = e
                else:
                    if self.peek()[1] == ';':
                        self.next()
                    stmts.append(('expr', e))
            else:
                e = self.expr()
                nxt = self.peek()[1]
                if nxt == '=':
                    self.next()
                    rhs = self.expr()
                    if self.peek()[1] == ';':
                        self.next()
                    elif self.peek()[1] != '}':
                        raise Unsupported('assignment not terminated')
                    stmts.append(('assign', None, e, rhs))
                elif nxt in ('+=', '-=', '*='):
                    self.next()
                    rhs = self.expr()
                    if self.peek()[1] == ';':
                        self.next()
                    elif self.peek()[1] != '}':
                        raise Unsupported('assignment not terminated')
                    stmts.append(('assign', nxt[0], e, rhs))
                elif nxt in ('/=', '<<=', '>>='):
                    raise Unsupported('compound assignment ' + nxt)
                elif nxt == ';':
                    self.next()
                    stmts.append(('expr', e))
                elif nxt == '}':
                    tail = e
                else:
                    raise Unsupported('unexpected token in statement: ' + nxt)
        self.expect('}')
        self.no_struct = saved
        return ('block', stmts, tail)


def parse_fn_body(text, where):
    try:
        p = UParser(tokenize('{' + text + '}'))
        b = p.block()
        if not p.at_end():
            raise Unsupported('trailing tokens after the body')
        return b
    except Unsupported as ex:
        raise Unsupported(f'{where}: {ex}')


# ----------------------------------------------------------------------------------------------
# values
# ----------------------------------------------------------------------------------------------
class V:
    def __init__(self, text, ty, kind='val'):
        self.text, self.ty, self.kind = text, ty, kind      # kind: val | self | graph | map


def lean_id(name):
    if not re.fullmatch(r'[A-Za-z_][A-Za-z_0-9]*', name):
        raise Unsupported('identifier ' + name)
    if name == '_':
        return '_'
    if name in LEAN_KEYWORDS:
        return f'«{name}»'
    return name


def atomic(text):
    return bool(re.fullmatch(r"[\w.«»']+|\(.*\)|\[.*\]|\{.*\}", text, flags=re.S)) and balanced_outer(text)


def balanced_outer(text):
    """a text that starts with a bracket must close it at its very end (so `(a) + (b)` is not atomic)"""
    if text[0] not in '([{':
        return True
    depth = 0
    for i, ch in enumerate(text):
        depth += (ch in '([{') - (ch in ')]}')
        if depth == 0:
            return i == len(text) - 1
    return False


def par(text):
    return text if atomic(text) else f'({text})'


def meet(a, b, where):
    """the common type of two branches / operands (ANY is the unknown)"""
    if a == ANY:
        return b
    if b == ANY:
        return a
    if a[0] != b[0]:
        raise Unsupported(f'{where}: types {a} and {b} do not agree')
    if a[0] in ('opt', 'res', 'list'):
        return (a[0], meet(a[1], b[1], where))
    if a[0] == 'tup':
        if len(a[1]) != len(b[1]):
            raise Unsupported(f'{where}: tuple sizes')
        return tup(meet(x, y, where) for x, y in zip(a[1], b[1]))
    return a


class LoopFrame:
    def __init__(self, outer):
        self.outer = set(outer)      # Lean names visible when the loop starts
        self.writes = []             # those of them the body assigns, in order of first assignment


class Frame:
    """one function body being translated (the function itself, or an inlined helper)"""

    def __init__(self, fn, kind, ret):
        self.fn, self.kind, self.ret = fn, kind, ret


class FnTr:
    """one Rust function -> lines of a Lean `do` block"""

    def __init__(self, gen, fn):
        self.g, self.fn = gen, fn
        self.lines = []
        self.ind = 1
        self.ntemp = 0
        self.scopes = [{}]           # Rust name -> (Lean name, type, mutable)
        self.frames = []
        self.loops = []
        self.depth = 0
        self.uses_astar = False
        self.all_names = set()

    # ---- infrastructure ------------------------------------------------------------------
    def fail(self, msg):
        raise Unsupported(f'{self.fn["file"]}::{self.fn["name"]}: {msg}')

    def emit(self, text):
        self.lines.append('  ' * self.ind + text)

    def temp(self, stem='t'):
        while True:
            self.ntemp += 1
            n = f'{stem}{self.ntemp}'
            if n not in self.all_names and not self.lookup(n):
                self.all_names.add(n)
                return n

    def lookup(self, name):
        for s in reversed(self.scopes):
            if name in s:
                return s[name]
        return None

    def visible(self):
        out = set()
        for s in self.scopes:
            out |= {v[0] for v in s.values()}
        return out

    def bind(self, name, ty, mutable=False):
        ln = lean_id(name)
        # alpha-renaming: a local never captures a name of the vocabulary / of a generated function / of a temporary, and inside a
        # loop body it never shadows a variable of the enclosing function (the loop state is passed by name)
        while ln.strip('«»') in VOCAB or ln in self.g.fn_names or re.fullmatch(r'[tr]\d+', ln) or \
                (ln != '_' and any(ln in lf.outer for lf in self.loops)):
            ln = ln.strip('«»') + '_'
        self.scopes[-1][name] = (ln, ty, mutable)
        self.all_names.add(ln)
        return ln

    def wrote(self, lean_name):
        for lf in self.loops:
            if lean_name in lf.outer and lean_name not in lf.writes:
                lf.writes.append(lean_name)

    def frame(self):
        return self.frames[-1]

    def pack(self, text):
        """the function's result from the value `text` (the current `self` travels with it in a `&mut self` method)"""
        return f'(self, {text})' if self.frame().kind == 'mut' else text

    def set_self(self, text):
        if self.frame().kind != 'mut':
            self.fail('the receiver is modified in a method that does not take `&mut self`')
        if self.closure_depth:
            self.fail('the receiver is modified inside a closure')
        self.emit(f'self := {text}')
        self.wrote('self')

    closure_depth = 0

    def capture(self, fn):
        """run `fn` with a fresh line buffer one level deeper; returns (lines, result)"""
        saved, self.lines = self.lines, []
        self.ind += 1
        try:
            r = fn()
            return self.lines, r
        finally:
            self.lines = saved
            self.ind -= 1

    # ---- expressions -------------------------------------------------------------------------
    def hoist(self, opt_text, ty, hint=None, discard=False):
        """`let t ← <Option-valued text>`: the effect happens here, the value is `t`"""
        if discard:
            self.emit(f'let _ ← {opt_text}')
            return V('()', ty)
        t, mut = self.hint_name(hint, ty)
        self.emit(f'let {mut}{t} ← {opt_text}')
        return V(t, ty)

    def hint_name(self, hint, ty):
        """the Lean name a hoisted value is bound to: the name of the `let` it initialises, else a fresh temporary"""
        if hint is None:
            return self.temp(), ''
        name, mutable = hint
        ln = self.bind(name, ty, mutable)
        self.hinted = ln
        return ln, ('mut ' if mutable else '')

    def ex(self, a, hint=None, discard=False):
        """translate an expression; effects are emitted in evaluation order, the result is a pure Lean term"""
        k = a[0]
        if k == 'num':
            return V(str(a[1]), NAT)
        if k == 'paren':
            return self.ex(a[1], hint, discard)
        if k in ('ref', 'deref'):
            return self.ex(a[1], hint, discard)
        if k == 'unit':
            return V('()', UNIT)
        if k == 'unsafe':
            self.fail('unsafe block')
        if k == 'block':
            if not a[1] and a[2] is not None:
                return self.ex(a[2], hint, discard)
            self.fail('block expression with statements in value position')
        if k == 'tuple':
            vs = [self.ex(x) for x in a[1]]
            return V('(' + ', '.join(v.text for v in vs) + ')', tup(v.ty for v in vs))
        if k == 'cast':
            v = self.ex(a[1])
            if a[2] in ('usize', 'u64') and v.ty == NAT:
                return v
            self.fail(f'cast to {a[2]}')
        if k == 'not':
            v = self.ex(a[1])
            if v.ty != BOOL:
                self.fail('`!` on a non-boolean')
            return V(f'(!{par(v.text)})', BOOL)
        if k == 'neg':
            self.fail('unary minus')
        if k == 'bin':
            return self.bin(a)
        if k == 'path':
            return self.path(a[1])
        if k == 'field':
            return self.field(a)
        if k == 'call':
            return self.call(a, hint, discard)
        if k == 'mcall':
            return self.mcall(a, hint, discard)
        if k == 'macro':
            return self.macro(a)
        if k == 'struct':
            return self.struct_lit(a)
        if k == 'try':
            return self.try_(a, hint)
        if k in ('if', 'iflet', 'match'):
            return self.branch_value(a, hint)
        if k == 'index':
            l, i = self.ex(a[1]), self.ex(a[2])
            if l.ty[0] != 'list' or i.ty != NAT:
                self.fail('indexing something that is not a list')
            return self.hoist(f'{par(l.text)}[{i.text}]?', l.ty[1], hint, discard)
        if k == 'closure':
            self.fail('closure in a position where none is understood')
        self.fail('expression form ' + k)

    def pure(self, a, what):
        """an expression that must not have an effect (closure bodies, error payloads)"""
        lines, v = self.capture(lambda: self.ex(a))
        if lines:
            self.fail(f'{what} has an effect')
        return v

    def bin(self, a):
        op = a[1]
        if op in ('&&', '||'):
            l = self.ex(a[2])
            lines, r = self.capture(lambda: self.ex(a[3]))
            if l.ty != BOOL or r.ty != BOOL:
                self.fail(f'`{op}` on non-booleans')
            if not lines:
                return V(f'({l.text} {op} {r.text})', BOOL)
            t = self.temp()
            short = 'true' if op == '||' else 'false'
            cond = l.text if op == '||' else f'!{par(l.text)}'
            self.emit(f'let {t} ← if {cond} then')
            self.emit(f'    pure {short}')
            self.emit('  else')
            self.lines += ['  ' + x for x in lines]
            self.emit(f'    pure {par(r.text)}')
            return V(t, BOOL)
        l, r = self.ex(a[2]), self.ex(a[3])
        if op in ('==', '!='):
            ty = meet(l.ty, r.ty, 'comparison')
            if ty[0] in ('str', 'err', 'self', 'graph', 'any'):
                self.fail('comparison of values that are not modelled')
            return V(f'({l.text} {op} {r.text})', BOOL)
        if l.ty != NAT or r.ty != NAT:
            self.fail(f'`{op}` on non-integers')
        if op in ('<', '<=', '>', '>='):
            return V(f'(decide ({l.text} {op} {r.text}))', BOOL)
        if op in ('+', '*'):
            return V(f'({l.text} {op} {r.text})', NAT)
        if op == '-':
            return self.hoist(f'checkedSub {par(l.text)} {par(r.text)}', NAT)
        self.fail('operator ' + op)

    def path(self, p):
        if len(p) == 1:
            n = p[0]
            if n == 'self':
                if not self.frames or self.frame().kind not in ('mut', 'ref'):
                    self.fail('`self` in a function without receiver')
                return V('self', SELF, 'self')
            if n == 'true' or n == 'false':
                return V(n, BOOL)
            if n == 'None':
                return V('none', opt(ANY))
            if n == '__str':
                return V('()', STR)
            b = self.lookup(n)
            if b is not None:
                return V(b[0], b[1])
            self.fail(f'unknown name `{n}`')
        self.fail('path ' + '::'.join(p))

    def field(self, a):
        obj, name = a[1], a[2]
        if obj == ('path', ['self']):
            if not self.frames or self.frame().kind not in ('mut', 'ref'):
                self.fail('`self` in a function without receiver')
            role = self.g.fields.get(name)
            if role is None:
                self.fail(f'unknown field {name}')
            if role == 'graph':
                return V('self', GRAPH, 'graph')
            if role == 'root':
                return V('self.root', opt(NAT))
            return V(f'self.{role}', ('map', role), 'map')
        v = self.ex(obj)
        if v.ty[0] == 'tup' and name.isdigit() and int(name) < len(v.ty[1]):
            i = int(name)
            n = len(v.ty[1])
            proj = '.'.join(['2'] * i + (['1'] if i < n - 1 else []))
            return V(f'{par(v.text)}.{proj}', v.ty[1][i])
        self.fail(f'field access .{name}')

    def err_payload(self, a):
        """the argument of `Err(..)` is not modelled; it must be free of effects"""
        k = a[0]
        if k in ('num', 'unit'):
            return
        if k == 'path':
            if len(a[1]) == 1 and (a[1][0] == '__str' or self.lookup(a[1][0]) or a[1][0][:1].isupper()):
                return
            if len(a[1]) > 1 and a[1][-1][:1].isupper():
                return
        if k in ('paren', 'ref', 'deref'):
            return self.err_payload(a[1])
        if k == 'call' and a[1][0] == 'path' and a[1][1][-1][:1].isupper() or \
                k == 'call' and a[1] == ('path', ['String', 'from']):
            for x in a[2]:
                self.err_payload(x)
            return
        if k == 'macro' and a[1] in ('format', 'concat', 'stringify'):
            for x in a[2]:
                self.err_payload(x)
            return
        if k == 'mcall' and a[2] in ('to_string', 'into', 'to_owned', 'as_str', 'clone', 'index') and not a[3]:
            return self.err_payload(a[1])
        if k == 'field' and a[1] == ('path', ['self']):
            return
        self.fail('the payload of an `Err(..)` is outside the recognised (effect-free) forms')

    def args_in_order(self, args):
        """arguments left to right; an earlier argument that mentions the receiver must not be followed by one that modifies it"""
        out = []
        for x in args:
            n0 = len(self.lines)
            v = self.ex(x)
            if any(re.match(r'\s*self :=', l) for l in self.lines[n0:]) and any(re.search(r'\bself\b', o.text) for o in out):
                self.fail('an argument reads the receiver before a later argument modifies it')
            out.append(v)
        return out

    def call(self, a, hint, discard):
        f, args = a[1], a[2]
        if f[0] != 'path':
            self.fail('call of a computed function')
        p = [x for x in f[1] if not x.startswith('<')]
        name = p[-1]
        if p in (['Some'], ['Option', 'Some']) and len(args) == 1:
            v = self.ex(args[0])
            return V(f'(some {par(v.text)})', opt(v.ty))
        if p in (['Ok'], ['Result', 'Ok']) and len(args) == 1:
            v = self.ex(args[0])
            return V(f'(Res.ok {par(v.text)})', res(v.ty))
        if p in (['Err'], ['Result', 'Err']) and len(args) == 1:
            self.err_payload(args[0])
            return V('Res.err', res(ANY))
        if p in (['NodeIndex', 'new'], ['GraphNodeIndex', 'new']) and len(args) == 1:
            v = self.ex(args[0])
            if v.ty != NAT:
                self.fail('NodeIndex::new of a non-integer')
            return v                                     # identity: indices < 2^indexBits (Gen/UGraphTypes.lean)
        if p in (['Vec', 'new'],) and not args:
            return V('[]', lst(ANY))
        if p in (['Vec', 'with_capacity'],) and len(args) == 1:
            self.ex(args[0], discard=True)               # the capacity is evaluated (it may panic), the value is irrelevant
            return V('[]', lst(ANY))
        if len(p) == 2 and p[0] in ('AHashMap', 'HashMap') and name in ('new', 'default', 'with_capacity') and len(args) <= 1:
            for x in args:
                self.ex(x, discard=True)
            return V('[]', ('mapval',))
        if len(p) == 2 and p[0] in ('MatrixGraph', 'HyperGraph') and name in ('new', 'default') and not args:
            return V('petNew', ('graphval',))
        if len(p) == 2 and p[0] in ('MatrixGraph', 'HyperGraph') and name == 'with_capacity' and len(args) == 1:
            v = self.ex(args[0])
            if v.ty != NAT:
                self.fail('capacity is not an integer')
            return V(f'(petWithCapacity {par(v.text)})', ('graphval',))
        if p == ['astar'] and len(args) == 5:
            return self.astar(args)
        if p == ['drop'] and len(args) == 1:
            self.fail('drop')
        fn = self.g.fns.get(name)
        if fn is not None and len(p) == 1 and fn['kind'] == 'free':
            return self.self_call(name, args, hint, discard)
        if fn is not None and len(p) == 2 and p[0] in ('Self', STRUCT):
            if fn['kind'] == 'ctor':
                return self.self_call(name, args, hint, discard)
            if fn['kind'] in ('mut', 'ref'):
                # `Self::f(self, ..)`
                if not args or args[0] not in (('path', ['self']), ('ref', ('path', ['self']))):
                    self.fail(f'call of {name} with an explicit receiver that is not `self`')
                return self.self_call(name, args[1:], hint, discard)
        self.fail('call of ' + '::'.join(f[1]))

    def astar(self, args):
        g, start, goal, cost, heur = args
        if g not in (('ref', ('field', ('path', ['self']), self.g.graph_field)),):
            self.fail('astar: the graph argument is not `&self.<graph>`')
        s = self.ex(start)
        if goal[0] != 'closure' or len(goal[1]) != 1 or goal[1][0][0] != 'pid':
            self.fail('astar: goal closure')
        fin = goal[1][0][1]
        body = goal[2]
        while body[0] in ('paren', 'deref'):
            body = body[1]
        if body[0] != 'bin' or body[1] != '==':
            self.fail('astar: the goal closure is not an equality test')
        sides = [body[2], body[3]]
        unwrapped = [x[1] if x[0] in ('deref', 'ref', 'paren') else x for x in sides]
        if unwrapped[0] == ('path', [fin]):
            other = sides[1]
        elif unwrapped[1] == ('path', [fin]):
            other = sides[0]
        else:
            self.fail('astar: the goal closure does not compare its parameter')
        t = self.pure(other, 'the goal of astar')
        if s.ty != NAT or t.ty != NAT:
            self.fail('astar: start / goal are not node indices')
        if not (cost[0] == 'closure' and len(cost[1]) == 1 and cost[1][0][0] == 'pid' and
                cost[2] in (('deref', ('mcall', ('path', [cost[1][0][1]]), 'weight', [])),)):
            self.fail('astar: the edge cost is not `|e| *e.weight()`')
        if not (heur[0] == 'closure' and len(heur[1]) == 1 and heur[1][0][0] == 'pwild' and heur[2] == ('num', 0)):
            self.fail('astar: the heuristic is not `|_| 0`')
        self.uses_astar = True
        return V(f'(astar self {par(s.text)} {par(t.text)})', opt(tup([NAT, lst(NAT)])))

    def self_call(self, name, args, hint, discard):
        g = self.g
        if name not in g.fns:
            self.fail(f'call of unknown method {name}')
        fn = g.typed(name)
        vs = self.args_in_order(args)
        if len(vs) != len(fn['params']):
            self.fail(f'call of {name}: arity')
        for v, (pn, pt) in zip(vs, fn['params']):
            meet(v.ty, pt, f'argument {pn} of {name}')
        if fn['kind'] == 'mut' and (not self.frames or self.frame().kind != 'mut'):
            self.fail(f'call of the `&mut self` method {name} from a method that does not take `&mut self`')
        if fn['kind'] in ('mut', 'ref') and (not self.frames or self.frame().kind not in ('mut', 'ref')):
            self.fail(f'call of the method {name} from a function without receiver')
        if self.closure_depth:
            self.fail('method call inside a closure')
        if name in ROOTS:
            d = g.need(name)
            extra = ' astar' if d['uses_astar'] else ''
            if d['uses_astar']:
                self.uses_astar = True
            recv = ' self' if fn['kind'] in ('mut', 'ref') else ''
            text = f'{lean_id(name)}{extra}{recv}' + ''.join(' ' + par(v.text) for v in vs)
            if fn['kind'] == 'mut':
                r = self.temp('r')
                self.emit(f'let {r} ← {text}')
                self.set_self(f'{r}.1')
                return V(f'{r}.2', fn['ret'])
            return self.hoist(text, fn['ret'], hint, discard)
        # a private helper: inlined as a nested `do` (a `return` in it leaves only the helper)
        if self.depth >= 6:
            self.fail(f'helper {name}: inlining too deep (recursion?)')
        self.depth += 1

        def body():
            if fn['kind'] == 'mut':
                self.emit('let mut self := self')
            self.scopes.append({})
            self.frames.append(Frame(fn, fn['kind'], fn['ret']))
            saved_loops, self.loops = self.loops, []
            try:
                names = [self.bind(pn, pt) for pn, pt in fn['params']]
                if len(names) == 1:
                    self.emit(f'let {names[0]} := {vs[0].text}')
                elif names:
                    self.emit('let (' + ', '.join(names) + ') := (' + ', '.join(v.text for v in vs) + ')')
                self.fn_body(parse_fn_body(fn['body'], f'{fn["file"]}::{name}'))
            finally:
                self.loops = saved_loops
                self.frames.pop()
                self.scopes.pop()
        lines, _ = self.capture(body)
        self.depth -= 1
        r = self.temp('r')
        self.emit(f'let {r} ← (do')
        lines[-1] += ')'
        self.lines += lines
        if fn['kind'] == 'mut':
            self.set_self(f'{r}.1')
            return V(f'{r}.2', fn['ret'])
        return V(r, fn['ret'])

    def closure1(self, c, elem_ty, what):
        """a pure one-parameter closure -> Lean `fun`"""
        if c[0] == 'path' and len(c[1]) == 2 and c[1] == ['NodeIndex', 'index']:
            return 'fun x => x', NAT
        if c[0] != 'closure' or len(c[1]) != 1:
            self.fail(f'{what}: a one-parameter closure is expected')
        self.scopes.append({})
        self.closure_depth += 1
        try:
            p = self.lean_pat(c[1][0], elem_ty)
            v = self.pure(c[2], f'the closure of {what}')
        finally:
            self.closure_depth -= 1
            self.scopes.pop()
        return f'fun {p} => {v.text}', v.ty

    def mcall(self, a, hint, discard):
        obj, name, args = a[1], a[2], a[3]
        name = name.split('::')[0]                   # turbofish on the method
        if obj == ('path', ['self']):
            return self.self_call(name, args, hint, discard)
        r = self.ex(obj)
        n = len(args)
        if r.kind == 'graph':
            return self.graph_call(name, args, hint, discard)
        if r.kind == 'map':
            return self.map_call(r, name, args, discard)
        t = r.ty
        if name in ('clone', 'to_owned') and n == 0 and t[0] in ('nat', 'bool', 'opt', 'list', 'tup', 'str'):
            return r
        if t == NAT:
            if name == 'index' and n == 0:
                return r                                 # NodeIndex::index: identity
            if name == 'saturating_sub' and n == 1:
                v = self.ex(args[0])
                return V(f'({r.text} - {v.text})', NAT)
            if name == 'checked_sub' and n == 1:
                v = self.ex(args[0])
                return V(f'(checkedSub {par(r.text)} {par(v.text)})', opt(NAT))
        if t == STR or t == ERR:
            if name in ('to_string', 'into', 'to_owned', 'as_str') and n == 0:
                return r
        if t[0] == 'opt':
            return self.opt_call(r, name, args, hint, discard)
        if t[0] == 'res':
            return self.res_call(r, name, args, hint, discard)
        if t[0] == 'list':
            return self.list_call(r, obj, name, args)
        self.fail(f'method .{name}() on a value of type {t[0]}')

    def graph_call(self, name, args, hint, discard):
        """the assumed operations of petgraph's MatrixGraph"""
        vs = self.args_in_order([x for x in args if not self.is_direction(x)])
        dirs = [x[1][-1] for x in args if self.is_direction(x)]
        for v in vs:
            if name != 'add_node' and v.ty != NAT:
                self.fail(f'graph.{name}: argument is not an index / weight')
        n = len(vs)
        tx = [par(v.text) for v in vs]
        if name == 'add_node' and n == 1 and not dirs:
            if vs[0].ty != BOOL:
                self.fail('graph.add_node: the node weight is expected to be the `bool` of HyperGraph<bool>')
            r = self.temp('r')
            self.emit(f'let {r} := petAddNode self')
            self.set_self(f'{r}.1')
            return V(f'{r}.2', NAT)
        if name in ('add_edge', 'remove_edge', 'remove_node') and not dirs and n == {'add_edge': 3, 'remove_edge': 2, 'remove_node': 1}[name]:
            if self.frame().kind != 'mut' or self.closure_depth:
                self.fail(f'graph.{name} where the receiver cannot be modified')
            lean = {'add_edge': 'petAddEdge', 'remove_edge': 'petRemoveEdge', 'remove_node': 'petRemoveNode'}[name]
            self.emit(f'self ← {lean} self ' + ' '.join(tx))
            self.wrote('self')
            # add_edge returns (); remove_edge / remove_node return the weight, which is not modelled
            return V('()', UNIT if name == 'add_edge' else ('unmodelled',))
        if name == 'has_edge' and n == 2 and not dirs:
            return V(f'(hasCell self {tx[0]} {tx[1]})', BOOL)
        if name == 'neighbors' and n == 1 and not dirs:
            return V(f'(rowOf self {tx[0]})', lst(NAT))
        if name == 'neighbors_directed' and n == 1 and len(dirs) == 1 and args[1:] and self.is_direction(args[1]):
            return V(f'({"rowOf" if dirs[0] == "Outgoing" else "colOf"} self {tx[0]})', lst(NAT))
        if name == 'node_count' and n == 0 and not dirs:
            return self.hoist('petNodeCount self', NAT, hint, discard)
        if name == 'edge_count' and n == 0 and not dirs:
            return V('(petEdgeCount self)', NAT)
        if name == 'clear' and n == 0 and not dirs:
            self.set_self('petClear self')
            return V('()', UNIT)
        self.fail(f'graph.{name}: not one of the assumed MatrixGraph operations')

    @staticmethod
    def is_direction(x):
        return x[0] == 'path' and x[1][-1] in ('Outgoing', 'Incoming') and x[1][:-1] in ([], ['Direction'], ['petgraph', 'Direction'])

    def map_call(self, m, name, args, discard=False):
        role = m.ty[1]
        kt, vt = NAT, NAT
        vs = self.args_in_order(args)
        n = len(vs)
        for v in vs:
            if v.ty != NAT:
                self.fail(f'{role}.{name}: argument is not an index / value')
        tx = [par(v.text) for v in vs]
        if name == 'get' and n == 1:
            return V(f'(mGet {m.text} {tx[0]})', opt(vt))
        if name == 'contains_key' and n == 1:
            return V(f'(mGet {m.text} {tx[0]}).isSome', BOOL)
        if name == 'len' and n == 0:
            return V(f'{m.text}.length', NAT)
        if name == 'is_empty' and n == 0:
            return V(f'{m.text}.isEmpty', BOOL)
        if name == 'values' and n == 0:
            return V(f'({m.text}.map (·.2))', lst(vt))
        if name == 'keys' and n == 0:
            return V(f'({m.text}.map (·.1))', lst(kt))
        if name == 'iter' and n == 0:
            return V(m.text, lst(tup([kt, vt])))
        if name in ('insert', 'remove', 'clear'):
            if name == 'insert' and n == 2:
                new = f'mInsert {m.text} {tx[0]} {tx[1]}'
            elif name == 'remove' and n == 1:
                new = f'mRemove {m.text} {tx[0]}'
            elif name == 'clear' and n == 0:
                new = '[]'
            else:
                self.fail(f'{role}.{name}: arity')
            old = None
            if name != 'clear' and not discard:
                # insert / remove return the previous value: read before the update
                old = self.temp()
                self.emit(f'let {old} := mGet {m.text} {tx[0]}')
            self.set_self(f'{{ self with {role} := {new} }}')
            return V('()', UNIT) if old is None else V(old, opt(vt))
        self.fail(f'{role}.{name}: not one of the recognised hash-map operations')

    def opt_call(self, r, name, args, hint, discard):
        t, n = r.ty[1], len(args)
        if name == 'is_some' and n == 0:
            return V(f'{par(r.text)}.isSome', BOOL)
        if name == 'is_none' and n == 0:
            return V(f'{par(r.text)}.isNone', BOOL)
        if name in ('copied', 'cloned', 'as_ref') and n == 0:
            return r
        if name == 'unwrap' and n == 0 or name == 'expect' and n == 1:
            return self.hoist(r.text, t, hint, discard)
        if name == 'unwrap_or' and n == 1:
            v = self.ex(args[0])
            return V(f'({par(r.text)}.getD {par(v.text)})', meet(t, v.ty, 'unwrap_or'))
        if name == 'map' and n == 1:
            f, ft = self.closure1(args[0], t, 'Option::map')
            return V(f'({par(r.text)}.map ({f}))', opt(ft))
        if name == 'and_then' and n == 1:
            f, ft = self.closure1(args[0], t, 'Option::and_then')
            if ft[0] != 'opt':
                self.fail('and_then: the closure does not return an Option')
            return V(f'({par(r.text)}.bind ({f}))', ft)
        if name == 'ok_or' and n == 1:
            self.err_payload(args[0])
            return V(f'(okOr {par(r.text)})', res(t))
        if name == 'ok_or_else' and n == 1:
            c = args[0]
            if c[0] != 'closure' or c[1]:
                self.fail('ok_or_else: a closure without parameters is expected')
            self.err_payload(c[2])
            return V(f'(okOr {par(r.text)})', res(t))
        self.fail(f'Option::{name}')

    def res_call(self, r, name, args, hint, discard):
        t, n = r.ty[1], len(args)
        if name == 'is_ok' and n == 0:
            return V(f'{par(r.text)}.isOk', BOOL)
        if name == 'is_err' and n == 0:
            return V(f'(!{par(r.text)}.isOk)', BOOL)
        if name == 'ok' and n == 0:
            return V(f'{par(r.text)}.toOption', opt(t))
        if name == 'unwrap' and n == 0 or name == 'expect' and n == 1:
            return self.hoist(f'{par(r.text)}.toOption', t, hint, discard)
        self.fail(f'Result::{name}')

    def list_call(self, r, obj, name, args):
        t, n = r.ty[1], len(args)
        if name in ('iter', 'into_iter', 'copied', 'cloned', 'collect', 'to_vec', 'as_slice') and n == 0:
            return r
        if name in ('len', 'count') and n == 0:
            return V(f'{par(r.text)}.length', NAT)
        if name == 'is_empty' and n == 0:
            return V(f'{par(r.text)}.isEmpty', BOOL)
        if name == 'map' and n == 1:
            f, ft = self.closure1(args[0], t, 'map')
            return V(f'({par(r.text)}.map ({f}))', lst(ft))
        if name == 'filter' and n == 1:
            f, ft = self.closure1(args[0], t, 'filter')
            if ft != BOOL:
                self.fail('filter: the closure is not a predicate')
            return V(f'({par(r.text)}.filter ({f}))', lst(t))
        if name in ('any', 'all') and n == 1:
            f, ft = self.closure1(args[0], t, name)
            if ft != BOOL:
                self.fail(f'{name}: the closure is not a predicate')
            return V(f'({par(r.text)}.{name} ({f}))', BOOL)
        if name == 'contains' and n == 1:
            v = self.ex(args[0])
            meet(v.ty, t, 'contains')
            return V(f'({par(r.text)}.contains {par(v.text)})', BOOL)
        if name in ('push', 'extend') and n == 1:
            if obj[0] != 'path' or len(obj[1]) != 1:
                self.fail(f'{name} on something that is not a local vector')
            b = self.lookup(obj[1][0])
            if b is None or not b[2]:
                self.fail(f'{name} on a vector that is not `mut`')
            v = self.ex(args[0])
            if name == 'push':
                ty = lst(meet(t, v.ty, 'push'))
                new = f'{b[0]} ++ [{v.text}]'
            else:
                if v.ty[0] != 'list':
                    self.fail('extend: the argument is not an iterator / vector')
                ty = lst(meet(t, v.ty[1], 'extend'))
                new = f'{b[0]} ++ {par(v.text)}'
            self.assign_local(obj[1][0], new, ty)
            return V('()', UNIT)
        self.fail(f'.{name}() on a vector / iterator')

    def assign_local(self, name, text, ty):
        b = self.lookup(name)
        if b is None:
            self.fail(f'assignment to unknown `{name}`')
        if not b[2]:
            self.fail(f'assignment to `{name}`, which is not `mut`')
        if self.closure_depth:
            self.fail('assignment inside a closure')
        for s in reversed(self.scopes):
            if name in s:
                s[name] = (b[0], meet(b[1], ty, f'assignment to {name}'), True)
                break
        self.emit(f'{b[0]} := {text}')
        self.wrote(b[0])

    def macro(self, a):
        name, args = a[1], a[2]
        if name in ('format',):
            for x in args:
                self.err_payload(x)
            return V('()', STR)
        if name == 'vec' and not args:
            return V('[]', lst(ANY))
        if name in ('assert', 'debug_assert') and len(args) >= 1:
            c = self.ex(args[0])
            if c.ty != BOOL:
                self.fail(f'{name}!: not a condition')
            self.emit(f'assertThat {par(c.text)}')
            return V('()', UNIT)
        if name in ('assert_eq', 'debug_assert_eq', 'assert_ne', 'debug_assert_ne') and len(args) >= 2:
            l, r = self.ex(args[0]), self.ex(args[1])
            meet(l.ty, r.ty, name)
            op = '==' if name.endswith('eq') else '!='
            self.emit(f'assertThat ({l.text} {op} {r.text})')
            return V('()', UNIT)
        self.fail(f'macro {name}!')

    def struct_lit(self, a):
        if a[1] not in (['Self'], [STRUCT]):
            self.fail('struct literal of another type')
        g = self.g
        seen, parts, base = set(), [], None
        for f, e in a[2]:
            role = g.fields.get(f)
            if role is None or f in seen:
                self.fail(f'struct literal: field {f}')
            seen.add(f)
            v = self.ex(e)
            if role == 'graph':
                if v.ty != ('graphval',):
                    self.fail('struct literal: the graph field is not built by MatrixGraph::default / new / with_capacity')
                base = v.text
            elif role == 'root':
                meet(v.ty, opt(NAT), 'root field')
                parts.append(f'root := {v.text}')
            else:
                if v.ty != ('mapval',):
                    self.fail(f'struct literal: {f} is not built by AHashMap::new / with_capacity / default')
                parts.append(f'{role} := {v.text}')
        if seen != set(g.fields):
            self.fail('struct literal: not every field initialised')
        return V('{ ' + base + ' with ' + ', '.join(parts) + ' }', SELF)

    def try_(self, a, hint):
        v = self.ex(a[1])
        if self.loops:
            self.fail('`?` inside a loop body')
        if self.closure_depth:
            self.fail('`?` inside a closure')
        ret = self.frame().ret
        if v.ty[0] == 'opt':
            if ret[0] != 'opt':
                self.fail('`?` on an Option in a function that does not return an Option')
            t = self.temp()
            self.emit(f'let some {t} := {v.text} | return {self.pack("none")}')
            return V(t, v.ty[1])
        if v.ty[0] == 'res':
            if ret[0] != 'res':
                self.fail('`?` on a Result in a function that does not return a Result')
            t = self.temp()
            self.emit(f'let Res.ok {t} := {v.text} | return {self.pack("Res.err")}')
            return V(t, v.ty[1])
        self.fail('`?` on a value that is neither Option nor Result')

    # ---- patterns ----------------------------------------------------------------------------
    def lean_pat(self, p, ty):
        """Rust pattern -> Lean pattern; binders are entered into the current scope with their types"""
        k = p[0]
        if k == 'pwild':
            return '_'
        if k == 'pid':
            return self.bind(p[1], ty)
        if k == 'plit':
            if p[1] in ('true', 'false'):
                meet(ty, BOOL, 'pattern')
            else:
                meet(ty, NAT, 'pattern')
            return p[1]
        if k == 'ptuple':
            if ty[0] != 'tup' or len(ty[1]) != len(p[1]):
                self.fail('tuple pattern on a value that is not such a tuple')
            return '(' + ', '.join(self.lean_pat(x, t) for x, t in zip(p[1], ty[1])) + ')'
        if k == 'pctor':
            name, subs = p[1], p[2]
            if name == 'Some' and len(subs) == 1 and ty[0] == 'opt':
                return f'some {self.lean_pat_arg(subs[0], ty[1])}'
            if name == 'None' and not subs and ty[0] == 'opt':
                return 'none'
            if name == 'Ok' and len(subs) == 1 and ty[0] == 'res':
                return f'Res.ok {self.lean_pat_arg(subs[0], ty[1])}'
            if name == 'Err' and len(subs) == 1 and ty[0] == 'res':
                if subs[0][0] == 'pid':
                    self.bind(subs[0][1], ERR)        # the payload is not modelled; the name can only travel into another Err(..)
                elif subs[0][0] != 'pwild':
                    self.fail('pattern inside Err(..)')
                return 'Res.err'
            self.fail(f'pattern {name}(..) on a value of type {ty[0]}')
        self.fail('pattern')

    def lean_pat_arg(self, p, ty):
        s = self.lean_pat(p, ty)
        return s if re.fullmatch(r'[\w«»]+', s) or s.startswith('(') else f'({s})'

    # ---- statements --------------------------------------------------------------------------
    def block(self, blk, mode):
        """mode: 'ret' (the value is the function's result), 'val' (`pure v`, value of a hoisted if / match), 'stmt' (discarded).
        Returns (diverges, type of the value)"""
        self.scopes.append({})
        try:
            div = False
            for st in blk[1]:
                if div:
                    self.fail('statement after a `return`')
                div = self.stmt(st)
            if blk[2] is not None:
                if div:
                    self.fail('expression after a `return`')
                return self.tail(blk[2], mode)
            if div:
                return True, ANY
            if mode == 'ret':
                if self.frame().ret != UNIT:
                    self.fail('the body ends without a value')
                self.emit(f'return {self.pack("()")}')
                return True, UNIT
            if mode == 'val':
                self.emit('pure ()')
            return False, UNIT
        finally:
            self.scopes.pop()

    def tail(self, e, mode):
        while e[0] == 'paren':
            e = e[1]
        if e[0] in ('if', 'iflet', 'match'):
            return self.branch(e, mode)
        if e[0] == 'block':
            return self.block(e, mode)
        if e[0] == 'macro' and e[1] in ('panic', 'unreachable', 'unimplemented', 'todo'):
            self.emit('none')
            return True, ANY
        if mode == 'stmt':
            v = self.ex(e, discard=True)
            if v.ty not in (UNIT, ('unmodelled',), ANY):
                pass
            return False, UNIT
        v = self.ex(e)
        if v.ty == ('unmodelled',):
            self.fail('the value returned by a map / graph update is not modelled')
        if mode == 'ret':
            meet(v.ty, self.frame().ret, 'result')
            self.emit(f'return {self.pack(v.text)}')
            return True, v.ty
        self.emit(f'pure {par(v.text)}')
        return False, v.ty

    def branch(self, e, mode, prefix=''):
        """if / if let / match as a `do` element; every branch is translated in `mode`. With `prefix` (`let t ← `) the element
        is the right-hand side of a bind: its effects are still hoisted in front, its arms are indented one level deeper."""
        k = e[0]
        deeper = 1 if prefix else 0
        if k == 'if':
            c = self.ex(e[1])
            if c.ty != BOOL:
                self.fail('`if` on a non-boolean')
            self.emit(f'{prefix}if {c.text} then')
            self.ind += deeper
            try:
                divs, tys = [], []
                lines, (d, t) = self.capture(lambda: self.block(e[2], mode))
                self.lines += lines or ['  ' * (self.ind + 1) + 'pure ()']
                divs.append(d)
                tys.append(t)
                if e[3] is not None:
                    self.emit('else')
                    if e[3][0] == 'block':
                        lines, (d, t) = self.capture(lambda: self.block(e[3], mode))
                    else:
                        lines, (d, t) = self.capture(lambda: self.branch(e[3], mode))
                    self.lines += lines or ['  ' * (self.ind + 1) + 'pure ()']
                    divs.append(d)
                    tys.append(t)
                else:
                    if mode == 'val':
                        self.emit('else')
                        self.emit('  pure ()')
                    divs.append(False)
                    tys.append(UNIT)
            finally:
                self.ind -= deeper
            return self.join(divs, tys, mode)
        if k == 'iflet':
            s = self.ex(e[2])
            return self.match_arms(s, [(e[1], e[3])], e[4], mode, True, prefix)
        s = self.ex(e[1])
        return self.match_arms(s, e[2], None, mode, False, prefix)

    def match_arms(self, s, arms, default, mode, has_default, prefix=''):
        self.emit(f'{prefix}match {s.text} with')
        deeper = 1 if prefix else 0
        self.ind += deeper
        try:
            divs, tys = [], []
            for p, body in arms:
                self.scopes.append({})
                try:
                    lp = self.lean_pat(p, s.ty)
                    self.emit(f'| {lp} =>')
                    if body[0] == 'block':
                        lines, (d, t) = self.capture(lambda: self.block(body, mode))
                    else:
                        lines, (d, t) = self.capture(lambda: self.tail(body, mode))
                    self.lines += lines or ['  ' * (self.ind + 1) + 'pure ()']
                finally:
                    self.scopes.pop()
                divs.append(d)
                tys.append(t)
            if has_default:
                self.emit('| _ =>')
                if default is None:
                    self.emit('  pure ()')
                    divs.append(False)
                    tys.append(UNIT)
                else:
                    if default[0] == 'block':
                        lines, (d, t) = self.capture(lambda: self.block(default, mode))
                    else:
                        lines, (d, t) = self.capture(lambda: self.branch(default, mode))
                    self.lines += lines or ['  ' * (self.ind + 1) + 'pure ()']
                    divs.append(d)
                    tys.append(t)
        finally:
            self.ind -= deeper
        return self.join(divs, tys, mode)

    def join(self, divs, tys, mode):
        ty = ANY
        for d, t in zip(divs, tys):
            if not d or mode == 'ret':
                ty = meet(ty, t, 'branches')
        return all(divs), ty

    def branch_value(self, e, hint):
        """if / match in value position: `let t ← if … then … pure v else … pure w` (a `do` element, so `return` still leaves
        the function)"""
        t = self.temp()
        d, ty = self.branch(e, 'val', prefix=f'let {t} ← ')
        if d:
            self.fail('a value is taken from branches that all return')
        return V(t, ty)

    def stmt(self, st):
        """returns True when the statement always leaves the function"""
        k = st[0]
        if k == 'let':
            _, p, mut, _ty, rhs = st
            if p[0] == 'pid':
                self.hinted = None
                v = self.ex(rhs, hint=(p[1], mut))
                if v.ty == ('unmodelled',):
                    self.fail('the value returned by a map / graph update is not modelled')
                if v.ty in (GRAPH, ('graphval',), ('mapval',), SELF) or v.kind != 'val':
                    self.fail('a local that aliases the receiver or one of its containers')
                if self.hinted is not None and v.text == self.hinted:
                    return False                      # the hoisted effect was bound to this very name
                asc = ''
                if _ty is not None and self.has_any(v.ty):
                    try:
                        declared = TypeParser(self.g).parse(_ty, 'let')
                        v = V(v.text, meet(v.ty, declared, 'let'))
                        asc = f' : {lean_ty(v.ty)}'
                    except Unsupported:
                        pass
                ln = self.bind(p[1], v.ty, mut)
                self.emit(f'let {"mut " if mut else ""}{ln}{asc} := {v.text}')
                return False
            v = self.ex(rhs)
            if p[0] == 'pwild':
                return False
            if p[0] == 'ptuple':
                lp = self.lean_pat(p, v.ty)
                if mut:
                    self.fail('`mut` in a tuple pattern')
                self.emit(f'let {lp} := {v.text}')
                return False
            self.fail('refutable pattern in `let` without `else`')
        if k == 'letelse':
            _, p, rhs, alt = st
            v = self.ex(rhs)
            if self.loops:
                self.fail('let-else inside a loop body')
            if len(alt[1]) != 1 or alt[2] is not None or alt[1][0][0] != 'return':
                self.fail('let … else { … }: the else block is not a single `return`')
            lines, _ = self.capture(lambda: self.stmt(alt[1][0]))
            if len(lines) != 1:
                self.fail('let … else { return e }: `e` has an effect')
            lp = self.lean_pat(p, v.ty)
            self.emit(f'let {lp} := {v.text} | {lines[0].strip()}')
            return False
        if k == 'assign':
            _, op, place, rhs = st
            if place[0] == 'deref':
                place = place[1]
            if place[0] == 'path' and len(place[1]) == 1 and place[1][0] != 'self':
                b = self.lookup(place[1][0])
                if b is None:
                    self.fail(f'assignment to unknown `{place[1][0]}`')
                v = self.ex(rhs)
                if op is None:
                    self.assign_local(place[1][0], v.text, v.ty)
                elif op in ('+', '*') and b[1] == NAT and v.ty == NAT:
                    self.assign_local(place[1][0], f'{b[0]} {op} {par(v.text)}', NAT)
                elif op == '-' and b[1] == NAT and v.ty == NAT:
                    t = self.hoist(f'checkedSub {b[0]} {par(v.text)}', NAT)
                    self.assign_local(place[1][0], t.text, NAT)
                else:
                    self.fail('compound assignment')
                return False
            if place[0] == 'field' and place[1] == ('path', ['self']) and op is None:
                role = self.g.fields.get(place[2])
                v = self.ex(rhs)
                if role == 'root':
                    meet(v.ty, opt(NAT), 'root field')
                    self.set_self(f'{{ self with root := {v.text} }}')
                    return False
                if role in ('nodeMap', 'indexMap') and v.ty == ('mapval',):
                    self.set_self(f'{{ self with {role} := {v.text} }}')
                    return False
                self.fail(f'assignment to field {place[2]}')
            self.fail('assignment to something that is neither a local nor a field of the receiver')
        if k == 'return':
            if self.loops:
                self.fail('`return` inside a loop body')
            if self.closure_depth:
                self.fail('`return` inside a closure')
            if st[1] is None:
                if self.frame().ret != UNIT:
                    self.fail('`return;` in a function that returns a value')
                self.emit(f'return {self.pack("()")}')
                return True
            e = st[1]
            while e[0] == 'paren':
                e = e[1]
            v = self.ex(e)
            meet(v.ty, self.frame().ret, 'result')
            self.emit(f'return {self.pack(v.text)}')
            return True
        if k == 'for':
            return self.for_(st)
        if k == 'expr':
            e = st[1]
            if e[0] in ('if', 'iflet', 'match'):
                d, _ = self.branch(e, 'stmt')
                return d
            if e[0] == 'block':
                self.fail('bare block statement')
            if e[0] == 'macro' and e[1] in ('panic', 'unreachable', 'unimplemented', 'todo'):
                self.emit('none')
                return True
            self.ex(e, discard=True)
            return False
        self.fail('statement ' + k)

    def has_any(self, t):
        return t == ANY or any(self.has_any(x) for x in t[1:] if isinstance(x, tuple) and x and isinstance(x[0], str)) or \
            (t[0] == 'tup' and any(self.has_any(x) for x in t[1]))

    def for_(self, st):
        _, p, it, body = st
        l = self.ex(it)
        if l.ty[0] != 'list':
            self.fail('`for` over something that is not a vector / iterator of the recognised kind')
        if self.closure_depth:
            self.fail('loop inside a closure')
        lf = LoopFrame(self.visible() | ({'self'} if self.frame().kind == 'mut' else set()))
        self.loops.append(lf)
        self.scopes.append({})
        try:
            lp = self.lean_pat(p, l.ty[1])
            lines, (d, _) = self.capture(lambda: self.block(body, 'stmt'))
        finally:
            self.scopes.pop()
            self.loops.pop()
        if d:
            self.fail('loop body that always returns')
        ws = lf.writes
        for w in ws:                           # an enclosing loop sees the same assignments
            self.wrote(w)
        if not ws:
            state, pat = '()', '_'
        elif len(ws) == 1:
            state = pat = ws[0]
        else:
            state = pat = '(' + ', '.join(ws) + ')'
        lpp = lp
        if ws:
            self.emit(f'{state} ← forEach {par(l.text)} {state} (fun {pat} {lpp} => do')
        else:
            self.emit(f'let _ ← forEach {par(l.text)} () (fun _ {lpp} => do')
        for w in ws:
            self.emit(f'    let mut {w} := {w}')
        self.lines += ['  ' + x for x in lines]
        self.emit(f'    pure {state})')
        return False

    # ---- whole function ----------------------------------------------------------------------
    def fn_body(self, blk):
        d, _ = self.block(blk, 'ret')
        if not d:
            self.fail('the body can end without returning')

    def translate(self):
        fn = self.fn
        self.frames.append(Frame(fn, fn['kind'], fn['ret']))
        params = []
        for pn, pt in fn['params']:
            params.append((self.bind(pn, pt), pt))
        if fn['kind'] == 'mut':
            self.emit('let mut self := self')
        self.fn_body(parse_fn_body(fn['body'], f'{fn["file"]}::{fn["name"]}'))
        rt = lean_ty(fn['ret'])
        out = f'(UGraph × {rt})' if fn['kind'] == 'mut' else rt
        sig = f'def {lean_id(fn["name"])}'
        if self.uses_astar:
            sig += ' (astar : UGraph → Nat → Nat → Option (Nat × List Nat))'
        if fn['kind'] in ('mut', 'ref'):
            sig += ' (self : UGraph)'
        for ln, pt in params:
            sig += f' ({ln} : {lean_ty(pt)})'
        sig += f' : Option {out} := do'
        doc = f'/-- `{fn["file"]}`: `{fn["sig"]}` -/'
        return [doc, sig] + self.lines + ['']


# ----------------------------------------------------------------------------------------------
# items
# ----------------------------------------------------------------------------------------------
def match_brace(src, i):
    depth, j = 1, i + 1
    while depth:
        if j >= len(src):
            raise Unsupported('unbalanced braces')
        depth += (src[j] == '{') - (src[j] == '}')
        j += 1
    return j


class Gen:
    def __init__(self, repo):
        self.repo = repo
        self.generics = set()
        self.aliases = {}
        self.fns = {}
        self.fn_names = set()
        self.done = {}
        self.busy = []
        self.order = []
        self.read()

    def read(self):
        tp = TypeParser(self)
        srcs = {}
        for f in FILES:
            srcs[f] = clean((self.repo / (DIR + f)).read_text())
            if re.search(r'\bmacro_rules\b', srcs[f]):
                raise Unsupported(f'{f}: macro definitions are not read')
            for m in re.finditer(r'#\s*\[\s*cfg\b[^\]]*\]', srcs[f]):
                raise Unsupported(f'{f}: conditional compilation is not read')
        mod = srcs['mod.rs']
        # ---- struct and its field roles (by type) ----
        ms = list(re.finditer(r'\bstruct\s+' + STRUCT + r'\s*<\s*(\w+)\s*>\s*\{([^}]*)\}', mod))
        if len(ms) != 1:
            raise Unsupported(f'mod.rs: struct {STRUCT}<T> not found (exactly once)')
        self.generics = {ms[0].group(1)}
        raw_alias = {}
        for m in re.finditer(r'\btype\s+(\w+)\s*(?:<[^=]*>)?\s*=\s*([^;]+);', mod):
            raw_alias[m.group(1)] = ''.join(m.group(2).split())

        def resolve(t, depth=0):
            t = ''.join(t.split())
            base = re.match(r'\w+', t)
            if base and base.group(0) in raw_alias and depth < 5 and base.group(0) not in ('NodeIndex',):
                return resolve(raw_alias[base.group(0)], depth + 1)
            return t
        self.fields = {}
        roles = {}
        for f in split_top(re.sub(r'#\[[^\]]*\]', '', ms[0].group(2))):
            mf = re.fullmatch(r'(?:pub(?:\([^)]*\))?\s+)?(\w+)\s*:\s*(.+)', f, flags=re.S)
            if not mf:
                raise Unsupported(f'mod.rs: field `{f}`')
            name, ty = mf.group(1), resolve(mf.group(2))
            if re.fullmatch(r'Option<(?:Graph)?NodeIndex(?:<\w+>)?>', ty):
                role = 'root'
            elif re.match(r'MatrixGraph<', ty):
                role = 'graph'
            elif re.fullmatch(r'A?HashMap<usize,(?:Graph)?NodeIndex(?:<\w+>)?>', ty):
                role = 'indexMap'
            elif re.fullmatch(r'A?HashMap<(?:Graph)?NodeIndex(?:<\w+>)?,' + ms[0].group(1) + '>', ty):
                role = 'nodeMap'
            else:
                raise Unsupported(f'mod.rs: field {name} has the unrecognised type {ty}')
            if role in roles:
                raise Unsupported(f'mod.rs: two fields of the kind {role}')
            roles[role] = name
            self.fields[name] = role
        if set(roles) != {'root', 'graph', 'indexMap', 'nodeMap'}:
            raise Unsupported('mod.rs: the struct does not have exactly root / graph / index map / node map')
        self.graph_field = roles['graph']
        # ---- functions ----
        for f in FILES:
            src = srcs[f]
            rest = src
            for m in list(re.finditer(r'\bimpl\b([^{;]*)\{', src)):
                head = ' '.join(m.group(1).split())
                hm = re.fullmatch(r'<\s*(\w+)\s*>\s*(?:(\w+)\s*(?:<\s*\1\s*>)?\s+for\s+)?' + STRUCT + r'\s*<\s*\1\s*>', head)
                if not hm:
                    raise Unsupported(f'{f}: impl header `{head}` is not an impl of {STRUCT}<T>')
                self.generics.add(hm.group(1))
                end = match_brace(src, m.end() - 1)
                body = src[m.end():end - 1]
                for it in fn_items(body):
                    self.add_fn(it, f, tp, in_impl=True)
                rest = rest.replace(src[m.start():end], ' ' * (end - m.start()), 1)
            for it in fn_items(rest):
                self.add_fn(it, f, tp, in_impl=False)
        for r in ROOTS:
            if r not in self.fns:
                raise Unsupported(f'fn {r} not found')
        self.fn_names = {lean_id(n) for n in ROOTS}

    def add_fn(self, it, f, tp, in_impl):
        name = it['name']
        where = f'{f}::{name}'
        if name in self.fns:
            raise Unsupported(f'fn {name} defined twice ({self.fns[name]["file"]}, {f})')
        if re.match(r'fn\s+\w+\s*<', it['sig']):
            raise Unsupported(f'{where}: generic function')
        ps = split_top(it['params'])
        kind = 'free'
        if in_impl:
            kind = 'ctor'
            if ps and re.fullmatch(r'&\s*mut\s+self', ps[0]):
                kind, ps = 'mut', ps[1:]
            elif ps and re.fullmatch(r'&\s*self', ps[0]):
                kind, ps = 'ref', ps[1:]
            elif ps and re.fullmatch(r'(mut\s+)?self(\s*:.*)?', ps[0]):
                raise Unsupported(f'{where}: receiver by value')
        params = []
        for p in ps:
            mp = re.fullmatch(r'(?:mut\s+)?(\w+)\s*:\s*(.+)', p, flags=re.S)
            if not mp:
                raise Unsupported(f'{where}: parameter `{p}`')
            params.append((mp.group(1), mp.group(2)))
        self.fns[name] = {'name': name, 'file': f, 'sig': it['sig'], 'kind': kind, 'raw_params': params, 'raw_ret': it['ret'],
                          'body': it['body'], 'tp': tp}

    def typed(self, name):
        """parameter and result types are resolved on first use (helpers that are never called are never looked at)"""
        fn = self.fns[name]
        if 'params' not in fn:
            tp, where = fn['tp'], f'{fn["file"]}::{name}'
            fn['params'] = [(pn, tp.parse(pt, where)) for pn, pt in fn['raw_params']]
            fn['ret'] = UNIT if fn['raw_ret'] is None else tp.parse(fn['raw_ret'], where)
            for pn, pt in fn['params']:
                if pt[0] not in ('nat', 'bool', 'opt', 'list', 'tup'):
                    raise Unsupported(f'{where}: parameter {pn} of type {pt[0]}')
        return fn

    def need(self, name):
        if name in self.done:
            return self.done[name]
        if name in self.busy:
            raise Unsupported('recursion among the translated functions: ' + ' -> '.join(self.busy + [name]))
        self.busy.append(name)
        fn = self.typed(name)
        tr = FnTr(self, fn)
        lines = tr.translate()
        self.busy.pop()
        self.done[name] = {'lines': lines, 'uses_astar': tr.uses_astar}
        self.order.append(name)
        return self.done[name]

    def lean(self):
        for r in ROOTS:
            self.need(r)
        out = [HEADER]
        for n in self.order:
            out += self.done[n]['lines']
        out += ['end Gen.UGraphFns', '']
        return '\n'.join(out)


def gen_ugraphfns(repo):
    return Gen(repo).lean()


def install(register):
    def guarded(repo):
        try:
            return gen_ugraphfns(repo)
        except (Unsupported, FileNotFoundError):
            raise
        except RecursionError:
            raise Unsupported('ugraphfns: recursion limit (recursive helper?)')
        except Exception as ex:      # noqa: BLE001 — an unforeseen input is a rejection of the source, never a crash
            raise Unsupported(f'ugraphfns: internal {type(ex).__name__}: {ex}')
    register('ugraphfns', 'UGraphFns.lean')(guarded)
